package main

import (
	"fmt"
	"go/token"
	"go/types"
	"sort"
	"strings"

	"golang.org/x/tools/go/ssa"
)

func init() { register("C11", checkC11) }

func checkC11(p *Prog, r *Report) {
	for _, fn := range p.FuncsInPkg(pkgReceiver) {
		r.FuncsSeen[funcKey(fn)] = true
	}
	checkSetPermsPaths(p, r)
	checkOptionGuards(p, r)
	checkModTimeEqual(p, r, "C11/SECOND-GRANULARITY")
	checkKeepPerms(p, r)
	checkFreshStat(p, r)
	checkKeepPermsTransferred(p, r)
	checkTypeTables(p, r)
	checkFieldBindings(p, r)
	checkEncoderCarries(p, r, "C11/WIRE-METADATA", "the sender puts every entry's own metadata on the wire: for every (file type × option subset) the entry encoder emits exactly one record sequence, with length, mtime and mode for every entry and uid/gid/rdev/link target under their options (it never marks a field as 'same as previous': the two ends would have to agree on which entry is the previous one, e.g. across excluded entries and source arguments)")
	checkTouchUp(p, r)
	r.Trust("os.Root.Chmod/Chtimes/Lchown, mknodat/mkfifoat semantics; Go fs.FileMode type bits")
	r.Uncovered("numeric fidelity (2038 truncation of mtime to int32, sub-second parts, umask interplay for new files without -p, id mapping by name); directory times; hard links")
}

// checkSetPermsPaths: every nil-returning path of recvGenerator that
// materialises or accepts an entry passes through setPerms.
func checkSetPermsPaths(p *Prog, r *Report) { checkSetPermsPathsAs(p, r, "C11/SETPERMS-AFTER-CREATE") }

func checkSetPermsPathsAs(p *Prog, r *Report, rule string) {
	r.Rule(rule, "every path of recvGenerator that returns nil without requesting the file, outside list-only / dry-run / unsupported-type skips, calls setPerms after whatever it created (MkdirAll, symlink, createDevice) or accepted (existing directory, equal symlink, up-to-date file); in receiveData the final nil return is dominated by setPerms, which is dominated by the atomic replace", 5)
	fn := anchorFunc(p, r, pkgReceiver, "Transfer", "recvGenerator")
	setPerms := anchorFunc(p, r, pkgReceiver, "Transfer", "setPerms")
	lo := anchorFunc(p, r, pkgReceiver, "Transfer", "listOnly")
	dry := p.Field(pkgReceiver, "TransferOpts", "DryRun")
	modeF := p.Field(pkgReceiver, "File", "Mode")
	if fn == nil || setPerms == nil || lo == nil || dry == nil || modeF == nil {
		return
	}
	fP := fn.Params[2]
	idxP := fn.Params[1]
	var pe *PathEnum
	isModeVal := func(v ssa.Value) bool {
		if pe != nil {
			v = pe.C(unwrapLocal(v)) // a helper's parameter → the caller's argument
		}
		b, ok := v.(*ssa.BinOp)
		if !ok || b.Op != token.AND {
			return false
		}
		k, isK := constInt(b.Y)
		base, fld := loadedField(b.X)
		if !(isK && k == 0o170000 && fld == modeF) {
			return false
		}
		if pe != nil {
			base = pe.C(unwrapLocal(base))
		}
		return derivesFrom(base, fP) || base == ssa.Value(fP)
	}
	atom := func(cond ssa.Value) (string, bool, bool) {
		switch x := cond.(type) {
		case *ssa.Call:
			if x.Common().StaticCallee() == lo {
				return "L", false, true
			}
			if calleeName(x) == "(io/fs.FileMode).IsRegular" {
				if c, ok := x.Common().Args[0].(*ssa.Call); ok {
					if sc := c.Common().StaticCallee(); sc != nil && sc.Name() == "FileMode" && pkgPathOfFunc(sc) == pkgReceiver {
						return "REG", false, true
					}
				}
			}
		case *ssa.BinOp:
			if (x.Op == token.EQL || x.Op == token.NEQ) && isModeVal(x.X) {
				if k, ok := constInt(x.Y); ok {
					if n, ok := sifmt[k]; ok {
						return n, x.Op == token.NEQ, true
					}
				}
			}
		case *ssa.UnOp:
			if isFieldLoad(x, dry) {
				return "DRY", false, true
			}
		}
		return "", false, false
	}
	isIdx := func(v ssa.Value) bool {
		if cv, ok := v.(*ssa.Convert); ok {
			v = cv.X
		}
		if pe != nil {
			v = pe.C(unwrapLocal(v)) // a helper's parameter → the caller's argument
		}
		if v == ssa.Value(idxP) || derivesFrom(v, idxP) {
			return true
		}
		if ld, ok := v.(*ssa.UnOp); ok && ld.Op == token.MUL {
			v = ld.X
		}
		fv, ok := v.(*ssa.FreeVar)
		return ok && fv.Name() == idxP.Name()
	}
	event := func(in ssa.Instruction) string {
		c, ok := in.(ssa.CallInstruction)
		if !ok {
			return ""
		}
		if c.Common().StaticCallee() == setPerms {
			return "setPerms"
		}
		if calleeName(c) == "(*"+pkgWire+".Conn).WriteInt32" && isIdx(c.Common().Args[1]) {
			return "request"
		}
		if mc, ok := c.Common().Value.(*ssa.MakeClosure); ok {
			if lit, ok := mc.Fn.(*ssa.Function); ok && lit.Parent() == fn {
				return "request"
			}
		}
		if sc := c.Common().StaticCallee(); sc != nil && pkgPathOfFunc(sc) == pkgReceiver {
			switch sc.Name() {
			case "createDevice", "symlink":
				return "create:" + sc.Name()
			}
		}
		if calleeName(c) == "(*os.Root).MkdirAll" {
			return "create:MkdirAll"
		}
		return ""
	}
	pe = &PathEnum{Atom: atom, Event: event, IgnoreUnknown: true, BackEdge: "loop", MaxPaths: 50000,
		Inline: func(f *ssa.Function) bool {
			switch f.Name() {
			case "setPerms", "createDevice", "symlink", "skipFile", "listOnly", "generateAndSendSums", "FileMode", "setUid":
				return false
			}
			return true
		},
		Outcome: func(last ssa.Instruction, events []string) string {
			ret, ok := last.(*ssa.Return)
			completed := false
			if ok {
				rv := pe.V(retResults(ret)[0])
				completed = isNilConst(rv)
				// `return rt.setPerms(...)`: the entry is finished by setPerms itself
				if c, isC := rv.(*ssa.Call); isC && c.Common().StaticCallee() == setPerms {
					completed = true
				}
			}
			if !completed {
				for _, e := range events {
					if e == "request" {
						return "request"
					}
				}
				return "error"
			}
			return strings.Join(events, ",")
		}}
	pe.Run(fn)
	type agg struct {
		ok  bool
		why string
		pos token.Pos
		n   int
	}
	groups := map[string]*agg{}
	for _, row := range pe.Rows {
		if row.Outcome == "error" || row.Outcome == "request" || strings.Contains(row.Outcome, "request") {
			continue
		}
		if row.Facts["L"] || row.Facts["DRY"] {
			continue
		}
		if v, asked := row.Facts["REG"]; asked && !v {
			continue // unsupported non-regular entry is skipped
		}
		// classify branch
		branch := "regular"
		for _, t := range []string{"DIR", "LNK", "CHR", "BLK", "SOCK", "FIFO"} {
			if row.Facts[t] {
				branch = t
			}
		}
		if branch == "CHR" || branch == "BLK" || branch == "SOCK" || branch == "FIFO" {
			branch = "special"
		}
		events := strings.Split(row.Outcome, ",")
		lastCreate, lastSet := -1, -1
		for i, e := range events {
			if strings.HasPrefix(e, "create:") {
				lastCreate = i
			}
			if e == "setPerms" {
				lastSet = i
			}
		}
		g := groups[branch]
		if g == nil {
			g = &agg{ok: true, pos: row.Pos}
			groups[branch] = g
		}
		g.n++
		if lastSet < 0 || lastSet < lastCreate {
			g.ok = false
			g.pos = row.Pos
			g.why = fmt.Sprintf("path [%s] returns nil with events [%s]: no setPerms after the entry was created/accepted (mode subject to umask; owner and times never applied)", row.String(), row.Outcome)
		}
	}
	var names []string
	for k := range groups {
		names = append(names, k)
	}
	sort.Strings(names)
	for _, k := range names {
		g := groups[k]
		r.Cond(g.ok, rule, "recvGenerator branch "+k, p.Pos(g.pos), g.why)
	}
	// receiveData
	rd := anchorFunc(p, r, pkgReceiver, "Transfer", "receiveData")
	if rd != nil {
		var sp, cl ssa.Instruction
		allCalls(rd, func(c ssa.CallInstruction) {
			if c.Common().StaticCallee() == setPerms {
				sp = c
			}
			if calleeName(c) == fnCloseReplace {
				cl = c
			}
		})
		ok := sp != nil && cl != nil && InstrDominates(cl, sp)
		if ok {
			for _, b := range rd.Blocks {
				if ret, isRet := lastInstr(b).(*ssa.Return); isRet && isNilConst(retResults(ret)[0]) && !InstrDominates(sp, ret) {
					ok = false
				}
			}
		}
		r.Cond(ok, rule, "receiveData: replace → setPerms → return nil", p.Pos(rd.Pos()), "metadata must be applied to the renamed file on every successful path")
	}
}

func checkOptionGuards(p *Prog, r *Report) {
	checkOptionGuardsAs(p, r, "C11/OPTION-GUARDS", false)
}

func checkOptionGuardsAs(p *Prog, r *Report, rule string, timesOnly bool) {
	r.Rule(rule, "each metadata operation is controlled by its own option: Chtimes ⇐ PreserveTimes ∧ not a symlink ∧ times differ, with f.ModTime for both arguments; the uid (gid) passed to Lchown is File.Uid (File.Gid) only on the edge PreserveUid∧amRoot (PreserveGid∧(amRoot∨inGroup)), the existing id otherwise; Chmod is skipped for symlinks; without -p an existing file's own permissions are kept", map[bool]int{true: 1, false: 4}[timesOnly])
	sp := anchorFunc(p, r, pkgReceiver, "Transfer", "setPerms")
	su := anchorFunc(p, r, pkgReceiver, "Transfer", "setUid")
	olf := anchorFunc(p, r, pkgReceiver, "Transfer", "openLocalFile")
	mte := anchorFunc(p, r, pkgReceiver, "", "modTimeEqual")
	pt := p.Field(pkgReceiver, "TransferOpts", "PreserveTimes")
	pu := p.Field(pkgReceiver, "TransferOpts", "PreserveUid")
	pg := p.Field(pkgReceiver, "TransferOpts", "PreserveGid")
	pp := p.Field(pkgReceiver, "TransferOpts", "PreservePerms")
	mtF := p.Field(pkgReceiver, "File", "ModTime")
	uidF := p.Field(pkgReceiver, "File", "Uid")
	gidF := p.Field(pkgReceiver, "File", "Gid")
	modeF := p.Field(pkgReceiver, "File", "Mode")
	if sp == nil || su == nil || olf == nil || mte == nil || pt == nil || pu == nil || pg == nil || pp == nil {
		return
	}
	isLnkCmp := func(v ssa.Value) (neg bool, ok bool) {
		bo, isB := v.(*ssa.BinOp)
		if !isB || (bo.Op != token.NEQ && bo.Op != token.EQL) {
			return false, false
		}
		k, isK := constInt(bo.Y)
		return bo.Op == token.EQL, isK && k == 0o120000
	}
	notSymlink := func(in ssa.Instruction) bool {
		for _, f := range FactsAt(in) {
			if neg, ok := isLnkCmp(f.Cond); ok && f.Val != neg {
				return true
			}
		}
		return false
	}
	spUnit := p.ModGraph().unitFuncs(sp)
	forSP := func(f func(ssa.CallInstruction)) {
		for _, u := range spUnit {
			if u == su {
				continue
			}
			allCalls(u, f)
		}
	}
	forSP(func(c ssa.CallInstruction) {
		switch calleeName(c) {
		case "(*os.Root).Chtimes":
			a := c.Common().Args
			okArgs := isFieldLoad(a[2], mtF) && isFieldLoad(a[3], mtF)
			okGuard := HasFact(c, true, isFieldLoadPred(pt)) && notSymlink(c) && HasFact(c, false, func(v ssa.Value) bool {
				call, ok := v.(*ssa.Call)
				return ok && call.Common().StaticCallee() == mte
			})
			r.Cond(okArgs && okGuard, rule, "setPerms → Chtimes", p.Pos(instrPos(c)), "Chtimes(f.Name, f.ModTime, f.ModTime) only under -t, for non-symlinks whose time differs")
		case "(*os.Root).Chmod":
			if timesOnly {
				return
			}
			r.Cond(notSymlink(c), rule, "setPerms → Chmod", p.Pos(instrPos(c)), "Chmod must be skipped for symlinks")
		}
	})
	if timesOnly {
		return
	}
	// setUid: which ids reach Lchown, for every assignment of the conditions
	amRoot, _ := p.Obj(pkgReceiver, "amRoot").(*types.Var)
	inGroup, _ := p.Obj(pkgReceiver, "inGroup").(*types.Var)
	isGlobalLoad := func(v ssa.Value, g *types.Var) bool {
		ld, ok := v.(*ssa.UnOp)
		if !ok || ld.Op != token.MUL {
			return false
		}
		gl, ok := ld.X.(*ssa.Global)
		return ok && g != nil && gl.Object() == g
	}
	statField := func(v ssa.Value, name string) bool {
		_, f := loadedField(stripConv(v))
		return f != nil && f.Name() == name && f.Pkg() != nil && f.Pkg().Path() == "syscall"
	}
	bad := ""
	nCalls := 0
	for m := 0; m < 64; m++ {
		val := map[string]bool{"PU": m&1 != 0, "PG": m&2 != 0, "ROOT": m&4 != 0, "ING": m&8 != 0, "UD": m&16 != 0, "GD": m&32 != 0}
		var sim *Sim
		sim = &Sim{Fn: su, TrackChoices: true, Completed: func(*ssa.Return) bool { return true },
			Inline: func(*ssa.Function) bool { return true }, // predicate helpers split out of setUid
			Atom: func(cond ssa.Value) (bool, bool) {
				switch x := cond.(type) {
				case *ssa.UnOp:
					if isFieldLoad(x, pu) {
						return val["PU"], true
					}
					if isFieldLoad(x, pg) {
						return val["PG"], true
					}
					if isGlobalLoad(x, amRoot) {
						return val["ROOT"], true
					}
				case *ssa.Lookup:
					if isGlobalLoad(x.X, inGroup) {
						return val["ING"], true
					}
				case *ssa.BinOp:
					if x.Op == token.NEQ {
						if statField(x.X, "Uid") && isFieldLoad(stripConv(x.Y), uidF) {
							return val["UD"], true
						}
						if statField(x.X, "Gid") && isFieldLoad(stripConv(x.Y), gidF) {
							return val["GD"], true
						}
					}
				}
				return false, false
			}}
		sim.Record = func(in ssa.Instruction) string {
			c, ok := in.(ssa.CallInstruction)
			if !ok || calleeName(c) != "(*os.Root).Lchown" {
				return ""
			}
			src := func(v ssa.Value, listF *types.Var, stat string) string {
				rv := sim.Resolve(v)
				switch {
				case isFieldLoad(stripConv(rv), listF):
					return "list"
				case statField(rv, stat):
					return "stat"
				}
				return "?"
			}
			a := c.Common().Args
			return "Lchown(uid=" + src(a[2], uidF, "Uid") + ",gid=" + src(a[3], gidF, "Gid") + ")"
		}
		seqs := sim.Run()
		chU := val["PU"] && val["ROOT"] && val["UD"]
		chG := val["PG"] && (val["ROOT"] || val["ING"]) && val["GD"]
		want := ""
		if chU || chG {
			want = "Lchown(uid=" + map[bool]string{true: "list", false: "stat"}[chU] + ",gid=" + map[bool]string{true: "list", false: "stat"}[chG] + ")"
			nCalls++
		}
		if len(seqs) != 1 || seqs[0] != want {
			if bad == "" {
				bad = fmt.Sprintf("for %v setUid does %q, expected %q", val, seqs, want)
			}
		}
	}
	r.Cond(bad == "" && nCalls > 0, rule, "setUid → Lchown ids for all 64 condition assignments", p.Pos(su.Pos()), bad)
	// openLocalFile: keep existing permissions without -p
	n := 0
	for _, b := range olf.Blocks {
		for _, in := range b.Instrs {
			st, ok := in.(*ssa.Store)
			if !ok {
				continue
			}
			if _, f := fieldOfAddr(st.Addr); f != modeF {
				continue
			}
			n++
			srcOK := false
			if cv, isCv := st.Val.(*ssa.Convert); isCv {
				if pc, isC := cv.X.(*ssa.Call); isC && calleeName(pc) == "(io/fs.FileMode).Perm" {
					srcOK = true
				}
			}
			r.Cond(srcOK && HasFact(st, false, isFieldLoadPred(pp)), rule, "openLocalFile keeps existing permissions without -p", p.Pos(st.Pos()), "f.Mode may be overridden with the existing permissions only when PreservePerms is off")
		}
	}
	if n == 0 {
		r.Bad(rule, "openLocalFile keeps existing permissions without -p", p.Pos(olf.Pos()), "the override is gone: without -p an existing file would get the sender's permissions")
	}
}

// factsAtEnd: facts holding at the end of block b (its own facts; the
// terminator's outcome is not included).
func factsAtEnd(b *ssa.BasicBlock) []Fact { return FactsAtBlock(b) }

// changePhiOK: cond is the boolean "change" variable: a phi whose only
// possibly-true edge arrives from a block where the option is on and the
// privilege condition holds.
func changePhiOK(cond ssa.Value, optF *types.Var, isAmRoot func(ssa.Value) bool, allowGroup bool) bool {
	phi, ok := cond.(*ssa.Phi)
	if !ok {
		return false
	}
	nTrue := 0
	for i, e := range phi.Edges {
		if c, isC := e.(*ssa.Const); isC && c.Value != nil && c.Value.String() == "false" {
			continue
		}
		nTrue++
		pred := phi.Block().Preds[i]
		opt, priv := false, false
		for _, f := range FactsAtBlock(pred) {
			if f.Val && isFieldLoad(f.Cond, optF) {
				opt = true
			}
			if f.Val && isAmRoot(f.Cond) {
				priv = true
			}
			if allowGroup {
				// amRoot || inGroup[gid]: the false edge of amRoot followed by a true map lookup
				if lk, isLk := f.Cond.(*ssa.Lookup); isLk && f.Val {
					_ = lk
					priv = true
				}
			}
		}
		if !opt || !priv {
			return false
		}
	}
	return nTrue == 1
}

// checkKeepPerms: without -p an existing destination file that is not
// transferred keeps its own permission bits.
func checkKeepPerms(p *Prog, r *Report) {
	rule := "C11/KEEP-PERMS"
	r.Rule(rule, "on the up-to-date (skip) path of recvGenerator the mode handed to setPerms is the list's mode only on the edge PreservePerms==true; otherwise it carries the existing file's permission bits (st.Mode().Perm())", 1)
	gen := anchorFunc(p, r, pkgReceiver, "Transfer", "recvGenerator")
	skip := anchorFunc(p, r, pkgReceiver, "Transfer", "skipFile")
	setPerms := anchorFunc(p, r, pkgReceiver, "Transfer", "setPerms")
	pp := p.Field(pkgReceiver, "TransferOpts", "PreservePerms")
	modeF := p.Field(pkgReceiver, "File", "Mode")
	if gen == nil || skip == nil || setPerms == nil || pp == nil || modeF == nil {
		return
	}
	isSkipTrue := func(v ssa.Value) bool {
		c, idx := extractOf(v)
		return c != nil && idx == 0 && c.Common().StaticCallee() == skip
	}
	isListMode := func(v ssa.Value) bool { return isFieldLoad(stripConv(v), modeF) }
	n := 0
	var unitCalls []ssa.CallInstruction
	for _, u := range p.ModGraph().unitFuncs(gen) {
		allCalls(u, func(c ssa.CallInstruction) { unitCalls = append(unitCalls, c) })
	}
	forEach := func(f func(ssa.CallInstruction)) {
		for _, c := range unitCalls {
			f(c)
		}
	}
	forEach(func(c ssa.CallInstruction) {
		if c.Common().StaticCallee() != setPerms || !HasFact(c, true, isSkipTrue) {
			return
		}
		n++
		arg := c.Common().Args[2]
		ok := true
		why := ""
		if phi, isPhi := arg.(*ssa.Phi); isPhi {
			for i, e := range phi.Edges {
				if !isListMode(e) {
					continue
				}
				good := false
				for _, f := range FactsAtBlock(phi.Block().Preds[i]) {
					if f.Val && isFieldLoad(f.Cond, pp) {
						good = true
					}
				}
				// the edge straight from the `if !PreservePerms` test: the phi's block is the false successor
				if !good {
					if ifi, isIf := lastInstr(phi.Block().Preds[i]).(*ssa.If); isIf {
						nf := normFact(Fact{Cond: ifi.Cond, Val: phi.Block().Preds[i].Succs[0] == phi.Block()})
						if isFieldLoad(nf.Cond, pp) && nf.Val {
							good = true
						}
					}
				}
				if !good {
					ok, why = false, "the sender's permission bits reach setPerms on the skip path without PreservePerms"
				}
			}
		} else if isListMode(arg) && !HasFact(c, true, isFieldLoadPred(pp)) {
			ok, why = false, "the up-to-date file is given the sender's permission bits regardless of -p: without -p an existing file must keep its own permissions"
		}
		r.Cond(ok, rule, "recvGenerator skip path → setPerms(mode)", p.Pos(instrPos(c)), why)
	})
	if n == 0 {
		r.Bad(rule, "recvGenerator skip path → setPerms(mode)", p.Pos(gen.Pos()), "no setPerms on the skip path")
	}
}

func checkTypeTables(p *Prog, r *Report) {
	rule := "C11/TYPE-TABLES"
	r.Rule(rule, "per file type the sender ORs exactly the matching S_IF* constant into the wire mode (walkFn), the receiver's (*File).FileMode maps S_IF* back to the matching Go mode bit, and createDevice dispatches each special type to the matching system call with the matching S_IF* constant", 7)
	w := newWireExtractor(p, r)
	if w == nil {
		return
	}
	sifByType := map[string]int64{}
	for k, v := range sifmt {
		sifByType[v] = k
	}
	// sender
	for _, t := range fileTypes {
		a := entryAssign{typ: t, opts: map[string]bool{}, flags: map[string]bool{}}
		s := &Sim{Fn: w.enc, Inline: w.inlineHelpers, Completed: func(ret *ssa.Return) bool {
			v := retResults(ret)[0]
			return isNilConst(v) || isSkipDirLoad(v)
		}, Record: func(in ssa.Instruction) string {
			bo, ok := in.(*ssa.BinOp)
			if !ok || bo.Op != token.OR {
				return ""
			}
			if k, isK := constInt(bo.Y); isK {
				if n, isS := sifmt[k]; isS {
					return n
				}
			}
			return ""
		}}
		s.Atom = w.encAtom(a, s.C)
		seqs := s.Run()
		got := map[string]bool{}
		for _, q := range seqs {
			if q != "" {
				got[q] = true
			}
		}
		ok := len(got) == 1 && got[t]
		var gl []string
		for k := range got {
			gl = append(gl, k)
		}
		sort.Strings(gl)
		r.Cond(ok, rule, "sender wire type for "+t, p.Pos(w.enc.Pos()), fmt.Sprintf("walkFn ORs %v into the mode for a %s entry", gl, t))
	}
	// receiver FileMode
	fm := anchorFunc(p, r, pkgReceiver, "File", "FileMode")
	if fm != nil {
		goBits := map[string]string{"DIR": "ModeDir", "LNK": "ModeSymlink", "CHR": "ModeCharDevice", "BLK": "ModeDevice", "FIFO": "ModeNamedPipe", "SOCK": "ModeSocket", "REG": ""}
		bitName := map[int64]string{}
		for _, n := range []string{"ModeDir", "ModeSymlink", "ModeCharDevice", "ModeDevice", "ModeNamedPipe", "ModeSocket"} {
			if v, ok := scopeConstInt(p, "io/fs", n); ok {
				bitName[v] = n
			}
		}
		modeF := p.Field(pkgReceiver, "File", "Mode")
		for _, t := range fileTypes {
			s := &Sim{Fn: fm, Completed: func(*ssa.Return) bool { return true },
				Atom: func(cond ssa.Value) (bool, bool) {
					bo, ok := cond.(*ssa.BinOp)
					if !ok || bo.Op != token.EQL {
						return false, false
					}
					and, ok := bo.X.(*ssa.BinOp)
					if !ok || and.Op != token.AND || !isFieldLoad(and.X, modeF) {
						return false, false
					}
					if c, isK := constInt(bo.Y); isK {
						if n, isS := sifmt[c]; isS {
							return n == t, true
						}
					}
					return false, false
				},
				Record: func(in ssa.Instruction) string {
					bo, ok := in.(*ssa.BinOp)
					if !ok || bo.Op != token.OR {
						return ""
					}
					if k, isK := constInt(bo.Y); isK {
						return bitName[k]
					}
					return ""
				}}
			seqs := s.Run()
			ok := len(seqs) == 1 && seqs[0] == goBits[t]
			r.Cond(ok, rule, "receiver FileMode for "+t, p.Pos(fm.Pos()), fmt.Sprintf("got %q, want %q", seqs, goBits[t]))
		}
	}
	// createDevice dispatch
	cd := anchorFunc(p, r, pkgReceiver, "Transfer", "createDevice")
	if cd != nil {
		modeF := p.Field(pkgReceiver, "File", "Mode")
		want := map[string]string{"CHR": "Mknodat:CHR", "BLK": "Mknodat:BLK", "FIFO": "Mkfifoat", "SOCK": "Bind"}
		for _, t := range []string{"CHR", "BLK", "FIFO", "SOCK"} {
			var s *Sim
			s = &Sim{Fn: cd, Completed: func(ret *ssa.Return) bool { return true },
				// helpers of the package that createDevice delegates to (mknodat(dir, base, mode, rdev), …)
				Inline: func(f *ssa.Function) bool { return pkgPathOfFunc(f) == pkgReceiver && f.Name() != "setPerms" },
				Atom: func(cond ssa.Value) (bool, bool) {
					bo, ok := cond.(*ssa.BinOp)
					if !ok || bo.Op != token.EQL {
						return false, false
					}
					and, ok := s.C(bo.X).(*ssa.BinOp)
					if !ok || and.Op != token.AND || !isFieldLoad(and.X, modeF) {
						return false, false
					}
					if c, isK := constInt(bo.Y); isK {
						if n, isS := sifmt[c]; isS {
							return n == t, true
						}
					}
					return false, false
				},
				Record: func(in ssa.Instruction) string {
					c, ok := in.(ssa.CallInstruction)
					if !ok {
						return ""
					}
					switch calleeName(c) {
					case pkgUnix + ".Mknodat":
						if bo, ok := s.C(c.Common().Args[2]).(*ssa.BinOp); ok && bo.Op == token.OR {
							if k, isK := constInt(bo.Y); isK {
								return "Mknodat:" + sifmt[k]
							}
						}
						return "Mknodat:?"
					case pkgUnix + ".Mkfifoat":
						return "Mkfifoat"
					case pkgUnix + ".Bind":
						return "Bind"
					}
					return ""
				}}
			got := map[string]bool{}
			for _, q := range s.Run() {
				if q != "" {
					got[q] = true
				}
			}
			ok := len(got) == 1 && got[want[t]]
			var gl []string
			for k := range got {
				gl = append(gl, k)
			}
			r.Cond(ok, rule, "createDevice dispatch for "+t, p.Pos(cd.Pos()), fmt.Sprintf("got %v, want %s", gl, want[t]))
		}
	}
	_ = sifByType
}

func checkFieldBindings(p *Prog, r *Report) {
	rule := "C11/FIELD-BINDINGS"
	r.Rule(rule, "each metadata value travels from its accessor to its sink: mtime = info.ModTime().Unix() on the wire and time.Unix(v,0) in the list; uid/gid/rdev from the stat helpers of the same name; link target from source.Readlink(path) to symlink(DestRoot, f.LinkTarget, f.Name); createDevice passes f.Rdev as the device number", 6)
	enc := anchorFunc(p, r, pkgSender, "scopedWalker", "walkFn")
	dec := anchorFunc(p, r, pkgReceiver, "Transfer", "receiveFileEntry")
	cd := anchorFunc(p, r, pkgReceiver, "Transfer", "createDevice")
	gen := anchorFunc(p, r, pkgReceiver, "Transfer", "recvGenerator")
	if enc == nil || dec == nil || cd == nil || gen == nil {
		return
	}
	g := p.ModGraph()
	forUnit := func(fn *ssa.Function, f func(ssa.CallInstruction)) {
		for _, u := range g.unitFuncs(fn) {
			allCalls(u, f)
		}
	}
	// sender: values written
	wrote := map[string]bool{}
	forUnit(enc, func(c ssa.CallInstruction) {
		n := calleeName(c)
		if !strings.HasSuffix(n, ".Buffer).WriteInt32") && !strings.HasSuffix(n, ".Buffer).WriteString") {
			return
		}
		v := stripConv(c.Common().Args[1])
		if call, ok := v.(*ssa.Call); ok {
			switch calleeName(call) {
			case "(time.Time).Unix":
				if mc, ok := call.Common().Args[0].(*ssa.Call); ok && mc.Common().IsInvoke() && mc.Common().Method.Name() == "ModTime" {
					// exactly int32(t.Unix()): one truncating conversion, no unsigned detour
					if cv, isCv := c.Common().Args[1].(*ssa.Convert); isCv && cv.X == ssa.Value(call) {
						wrote["mtime"] = true
					}
				}
			}
		}
		for _, leaf := range phiLeaves(v) {
			leaf = unwrapLocal(leaf)
			if ec, idx := extractOf(leaf); ec != nil && idx == 0 {
				if sc := ec.Common().StaticCallee(); sc != nil {
					switch sc.Name() {
					case "uidFromFileInfo":
						wrote["uid"] = true
					case "gidFromFileInfo":
						wrote["gid"] = true
					case "rdevFromFileInfo":
						wrote["rdev"] = true
					}
				}
				if ec.Common().IsInvoke() && ec.Common().Method.Name() == "Readlink" {
					wrote["link"] = true
				}
			}
		}
	})
	for _, k := range []string{"mtime", "uid", "gid", "rdev", "link"} {
		r.Cond(wrote[k], rule, "sender writes "+k+" from its accessor", p.Pos(enc.Pos()), "the value written for this field no longer comes from the matching accessor of the walked entry")
	}
	// receiver: mtime decoding
	mtF := p.Field(pkgReceiver, "File", "ModTime")
	okMT := false
	var decBlocks []*ssa.BasicBlock
	for _, u := range g.unitFuncs(dec) {
		decBlocks = append(decBlocks, u.Blocks...)
	}
	for _, b := range decBlocks {
		for _, in := range b.Instrs {
			st, ok := in.(*ssa.Store)
			if !ok {
				continue
			}
			if _, f := fieldOfAddr(st.Addr); f != mtF {
				continue
			}
			if call, isC := st.Val.(*ssa.Call); isC && calleeName(call) == "time.Unix" {
				if k, isK := constInt(call.Common().Args[1]); isK && k == 0 {
					// exactly int64(<int32 read from the wire>): a sign-extending widening,
					// no detour through an unsigned type (pre-1970 times are negative)
					if cv, isCv := call.Common().Args[0].(*ssa.Convert); isCv {
						if rc, idx := extractOf(cv.X); rc != nil && idx == 0 && strings.HasSuffix(calleeName(rc), ".Conn).ReadInt32") {
							okMT = true
						}
					}
				}
			}
		}
	}
	r.Cond(okMT, rule, "receiver decodes mtime as time.Unix(v, 0)", p.Pos(dec.Pos()), "")
	// createDevice: Mknodat dev = f.Rdev
	rdevF := p.Field(pkgReceiver, "File", "Rdev")
	forUnit(cd, func(c ssa.CallInstruction) {
		if calleeName(c) == pkgUnix+".Mknodat" {
			okDev := true
			for _, root := range g.paramRoots(stripConv(c.Common().Args[3]), 0) {
				if !isFieldLoad(stripConv(root), rdevF) {
					okDev = false
				}
			}
			r.Cond(okDev, rule, "createDevice → Mknodat(dev=f.Rdev)", p.Pos(instrPos(c)), "device number must be the received rdev")
		}
	})
	// symlink(DestRoot, f.LinkTarget, f.Name)
	ltF := p.Field(pkgReceiver, "File", "LinkTarget")
	nmF := p.Field(pkgReceiver, "File", "Name")
	forUnit(gen, func(c ssa.CallInstruction) {
		if sc := c.Common().StaticCallee(); sc != nil && sc.Name() == "symlink" && pkgPathOfFunc(sc) == pkgReceiver {
			a := c.Common().Args
			r.Cond(isFieldLoad(a[1], ltF) && isFieldLoad(a[2], nmF), rule, "recvGenerator → symlink(target=f.LinkTarget, name=f.Name)", p.Pos(instrPos(c)), "")
		}
	})
}

func checkTouchUp(p *Prog, r *Report) {
	rule := "C11/TOUCHUP"
	r.Rule(rule, "directories lacking owner write permission are created writable and restored afterwards: retouchDirPerms is set exactly where S_IWUSR is ORed into the directory's mode, and Do calls touchUpDirs under retouchDirPerms after both goroutines finished; touchUpDirs re-applies the list mode to exactly those directories", 2)
	gen := anchorFunc(p, r, pkgReceiver, "Transfer", "recvGenerator")
	do := anchorFunc(p, r, pkgReceiver, "Transfer", "Do")
	rtF := p.Field(pkgReceiver, "Transfer", "retouchDirPerms")
	if gen == nil || do == nil || rtF == nil {
		return
	}
	ok := false
	for _, st := range storesToField(p, rtF) {
		if pkgPathOfFunc(st.Parent()) != pkgReceiver {
			r.Bad(rule, funcKey(st.Parent())+" store retouchDirPerms", p.Pos(st.Pos()), "unexpected writer")
			continue
		}
		// same block ORs S_IWUSR (0200) into the mode
		for _, in := range st.Block().Instrs {
			if bo, isB := in.(*ssa.BinOp); isB && bo.Op == token.OR {
				if k, isK := constInt(bo.Y); isK && k == 0o200 {
					ok = true
				}
			}
		}
	}
	r.Cond(ok, rule, "recvGenerator sets retouchDirPerms where it adds S_IWUSR", p.Pos(gen.Pos()), "")
	ok2 := false
	allCalls(do, func(c ssa.CallInstruction) {
		if sc := c.Common().StaticCallee(); sc != nil && sc.Name() == "touchUpDirs" {
			ok2 = HasFact(c, true, isFieldLoadPred(rtF))
		}
	})
	r.Cond(ok2, rule, "Do → touchUpDirs under retouchDirPerms", p.Pos(do.Pos()), "")
}

// checkEncoderCarries shares the encoder half of C15/W1 with the properties
// whose behaviour depends on the list carrying each entry's own metadata.
func checkEncoderCarries(p *Prog, r *Report, rule, text string) {
	r.Rule(rule, text, 7)
	w := newWireExtractor(p, r)
	if w == nil {
		r.Unk(rule, "entry encoder", "-", "encoder/decoder anchors not found")
		return
	}
	compareSeqs(r, rule, "encoder", allAssignments(false), w.encoderSeqs, func(a entryAssign) string { return specSeq(a, true) })
}
