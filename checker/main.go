// rsyncverif: repository-specific static checker for gokrazy/rsync.
// Decides, from the type-checked source of /repo's working tree, the
// structural clauses listed in /verif/DESIGN.md. Never executes /repo code.
package main

import (
	"flag"
	"fmt"
	"os"
	"runtime"
	"runtime/debug"
	"sort"
	"strings"
	"time"
)

type propFunc func(p *Prog, r *Report)

var props = map[string]propFunc{}

func register(id string, f propFunc) { props[id] = f }

func main() {
	repo := flag.String("repo", "/repo", "repository root")
	verif := flag.String("verif", "/verif", "verif dir (evidence, known findings)")
	prop := flag.String("prop", "", "property id (C02..C20) or 'list'")
	tier := flag.String("tier", "quick", "quick|thorough")
	flag.Parse()
	if *prop == "list" {
		var ids []string
		for id := range props {
			ids = append(ids, id)
		}
		sort.Strings(ids)
		fmt.Println(strings.Join(ids, " "))
		return
	}
	if *prop == "all" || strings.Contains(*prop, ",") {
		// development mode (matrices over seeded changes and refactorings): one
		// load of the program, every listed rule set, one summary block each
		os.Exit(runMany(*repo, *verif, *prop, *tier))
	}
	f, ok := props[*prop]
	if !ok {
		fmt.Fprintf(os.Stderr, "unknown property %q\n", *prop)
		os.Exit(2)
	}
	start := time.Now()
	r := NewReport(*prop, *tier)
	configs := [][2]string{{"linux", "amd64"}}
	if *tier == "thorough" {
		configs = append(configs, [2]string{"linux", "386"}, [2]string{"linux", "arm64"})
	}
	for _, c := range configs {
		runConfig(*repo, c[0], c[1], f, r)
		runtime.GC()
		debug.FreeOSMemory()
	}
	if *tier == "thorough" {
		selfTest(r)
	}
	os.Exit(r.Finish(*verif, start))
}

func runConfig(repo, goos, goarch string, f propFunc, r *Report) {
	cfg := goos + "/" + goarch
	r.curConfig = cfg
	r.Configs = append(r.Configs, cfg)
	defer func() {
		if e := recover(); e != nil {
			r.Fatalf("checker panic in config %s: %v\n%s", cfg, e, debug.Stack())
		}
	}()
	p, err := Load(repo, goos, goarch)
	if err != nil {
		r.Fatalf("load %s: %v", cfg, err)
		return
	}
	if len(p.Pkgs) < 20 {
		r.Fatalf("load %s: only %d module packages loaded, expected ≥ 20", cfg, len(p.Pkgs))
	}
	if d := os.Getenv("RV_DUMP"); d != "" {
		for _, fn := range p.ModFuncs {
			if strings.Contains(funcKey(fn), d) {
				fn.WriteTo(os.Stderr)
			}
		}
	}
	p.ModGraph() // also enables caller-inherited facts (ssah.go:FactsAt)
	computeBoolFieldsRead(p.ModFuncs)
	f(p, r)
	factGraph = nil
	if p.cg != nil {
		r.CGNodes = len(p.cg.Nodes)
	}
}

// anchorFunc resolves a function or records a check failure.
func anchorFunc(p *Prog, r *Report, pkg, recv, name string) *ssaFn {
	fn := p.Func(pkg, recv, name)
	if fn == nil {
		r.Fatalf("anchor unresolved: func %s.(%s).%s [%s]", shortKey(pkg), recv, name, p.Config)
		return nil
	}
	r.FuncsSeen[funcKey(fn)] = true
	return fn
}

// runMany: load once (linux/amd64), run the listed rule sets one after the
// other on the same program. Prints "== <id> rc=<n>" before each report.
// Returns 1 if any rule set reports a violation or check failure.
func runMany(repo, verif, list, tier string) int {
	var ids []string
	if list == "all" {
		for id := range props {
			ids = append(ids, id)
		}
	} else {
		ids = strings.Split(list, ",")
	}
	sort.Strings(ids)
	p, err := Load(repo, "linux", "amd64")
	worst := 0
	for _, id := range ids {
		f, ok := props[id]
		if !ok {
			fmt.Fprintf(os.Stderr, "unknown property %q\n", id)
			return 2
		}
		start := time.Now()
		r := NewReport(id, tier)
		r.curConfig = "linux/amd64"
		r.Configs = append(r.Configs, "linux/amd64")
		if err != nil {
			r.Fatalf("load: %v", err)
		} else {
			func() {
				defer func() {
					if e := recover(); e != nil {
						r.Fatalf("checker panic: %v\n%s", e, debug.Stack())
					}
				}()
				p.ModGraph()
				if boolFieldsRead == nil {
					computeBoolFieldsRead(p.ModFuncs)
				}
				f(p, r)
			}()
		}
		fmt.Printf("== %s\n", id)
		if rc := r.Finish(verif, start); rc > worst {
			worst = rc
		}
	}
	return worst
}
