package main

import (
	"fmt"
	"go/constant"
	"go/token"
	"go/types"
	"sort"
	"strings"

	"golang.org/x/tools/go/ssa"
)

// checkConstIndex — C08/MIN-LENGTH.
//
// A constant index s[k], a constant slice bound s[:k] / s[k:], or a fixed-width
// decode (binary.LittleEndian.Uint32(s)) needs len(s) > k (≥ k, ≥ width). When
// s is a string or slice whose length is not fixed by construction, that must
// be established by a dominating test — otherwise a peer that sends a shorter
// value than the code assumes (an empty argument line, a truncated message
// payload) panics the process.
func checkConstIndex(p *Prog, r *Report, entries []*ssa.Function) {
	rule := "C08/MIN-LENGTH"
	r.Rule(rule, "in session-reachable module code every constant index b[k], constant slice bound b[:k] / b[k:] and fixed-width decode binary.{Little,Big}Endian.UintN/PutUintN(b) on a byte slice (where wire payloads live) has its minimum length established: by construction (slice of an array, make with a constant or lower-bounded length, constant reslice) or by a dominating test of len(b) against a constant / bytes.HasPrefix. Strings and string slices (argument lines, rule texts) are not covered", 2)
	g := p.ModGraph()
	reach := g.Reach(entries, nil)
	var fns []*ssa.Function
	for fn := range reach {
		if isModFunc(fn) && fn.Blocks != nil && !isTestSupport(pkgPathOfFunc(fn)) {
			fns = append(fns, fn)
		}
	}
	sort.Slice(fns, func(i, j int) bool { return funcKey(fns[i]) < funcKey(fns[j]) })
	total := 0
	for _, fn := range fns {
		for _, b := range fn.Blocks {
			for _, in := range b.Instrs {
				var s ssa.Value
				need := int64(-1)
				what := ""
				switch x := in.(type) {
				case *ssa.IndexAddr:
					if isByteSlice(x.X.Type()) {
						if k, ok := constInt(x.Index); ok {
							s, need, what = x.X, k+1, fmt.Sprintf("[%d]", k)
						}
					}
				case *ssa.Slice:
					if !isByteSlice(x.X.Type()) {
						continue
					}
					for _, bd := range []ssa.Value{x.Low, x.High, x.Max} {
						if bd == nil {
							continue
						}
						if k, ok := constInt(bd); ok && k > 0 && k > need {
							s, need, what = x.X, k, fmt.Sprintf("[…%d…]", k)
						}
					}
					// for slices (not strings) a bound up to cap is legal; we demand len, which is stricter only for reslicing beyond len
				case ssa.CallInstruction:
					n := calleeName(x)
					if strings.HasPrefix(n, "(encoding/binary.littleEndian).") || strings.HasPrefix(n, "(encoding/binary.bigEndian).") {
						m := n[strings.LastIndex(n, ".")+1:]
						w := int64(0)
						switch {
						case strings.HasSuffix(m, "Uint16"):
							w = 2
						case strings.HasSuffix(m, "Uint32"):
							w = 4
						case strings.HasSuffix(m, "Uint64"):
							w = 8
						}
						if w > 0 && !strings.HasPrefix(m, "Append") && len(x.Common().Args) >= 2 {
							s, need, what = x.Common().Args[1], w, "binary."+m
						}
					}
				}
				if s == nil || need <= 0 {
					continue
				}
				total++
				label := funcKey(fn) + " " + what
				ok, why := minLenEstablished(s, need, in, 0)
				key := label
				if ok {
					r.OK(rule, key, p.Pos(instrPos(in)), why)
				} else {
					r.Bad(rule, key, p.Pos(instrPos(in)), fmt.Sprintf("needs len ≥ %d of `%s`, which is neither fixed by construction nor established by a dominating test: a shorter value panics the process", need, s.String()))
				}
			}
		}
	}
	r.Info("C08/MIN-LENGTH: %d constant-index/bound/decode sites in %d session-reachable functions [%s]", total, len(fns), p.Config)
	checkStringIndex(p, r, fns)
}

// checkStringIndex — C08/STRING-INDEX: the same obligation for strings in the
// packages that handle text received from the peer (filter rules, names,
// argument lines): sender, receiver, rsyncd, rsyncwire.
func checkStringIndex(p *Prog, r *Report, fns []*ssa.Function) {
	rule := "C08/STRING-INDEX"
	r.Rule(rule, "in the packages that handle text received from the peer (sender, receiver, rsyncd, rsyncwire) every constant index s[k] and constant slice bound s[:k] / s[k:] on a string in session-reachable code has the minimum length established by a dominating test (len(s) against a constant, s != \"\", strings.HasPrefix/HasSuffix(s, K)) or by construction: an empty rule, name or argument line from the peer must not panic the process", 1)
	wire := map[string]bool{pkgSender: true, pkgReceiver: true, pkgRsyncd: true, pkgWire: true}
	n := 0
	for _, fn := range fns {
		if !wire[pkgPathOfFunc(fn)] {
			continue
		}
		for _, b := range fn.Blocks {
			for _, in := range b.Instrs {
				var s ssa.Value
				need := int64(-1)
				what := ""
				isStr := func(t types.Type) bool {
					bt, ok := t.Underlying().(*types.Basic)
					return ok && bt.Info()&types.IsString != 0
				}
				switch x := in.(type) {
				case *ssa.Lookup:
					if isStr(x.X.Type()) {
						if k, ok := constInt(x.Index); ok {
							s, need, what = x.X, k+1, fmt.Sprintf("[%d]", k)
						}
					}
				case *ssa.Index:
					if isStr(x.X.Type()) {
						if k, ok := constInt(x.Index); ok {
							s, need, what = x.X, k+1, fmt.Sprintf("[%d]", k)
						}
					}
				case *ssa.Slice:
					if !isStr(x.X.Type()) {
						continue
					}
					for _, bd := range []ssa.Value{x.Low, x.High} {
						if bd == nil {
							continue
						}
						if k, ok := constInt(bd); ok && k > 0 && k > need {
							s, need, what = x.X, k, fmt.Sprintf("[…%d…]", k)
						}
					}
				}
				if s == nil || need <= 0 {
					continue
				}
				n++
				ok, why := minLenEstablished(s, need, in, 0)
				if !ok {
					ok, why = minLenViaLoads(s, need, in)
				}
				key := funcKey(fn) + " string " + what
				if ok {
					r.OK(rule, key, p.Pos(instrPos(in)), why)
				} else {
					r.Bad(rule, key, p.Pos(instrPos(in)), fmt.Sprintf("needs len ≥ %d of `%s`, which no dominating test establishes: an empty or short string from the peer panics the process", need, s.String()))
				}
			}
		}
	}
	if n == 0 {
		r.OK(rule, "no constant string index in the wire-facing packages", "-", "")
	}
}

// minLenViaLoads: s is a load (of a field or local); accept a dominating fact
// about another load of the same location when no store to that location lies
// between (approximated: no store to the field/cell anywhere in the function
// after the test … conservatively: none in the function except before the test).
func minLenViaLoads(s ssa.Value, need int64, at ssa.Instruction) (bool, string) {
	ld, ok := s.(*ssa.UnOp)
	if !ok || ld.Op != token.MUL {
		return false, ""
	}
	sameLoc := func(v ssa.Value) bool {
		l2, ok := stripConv(v).(*ssa.UnOp)
		if !ok || l2.Op != token.MUL {
			return false
		}
		if l2.X == ld.X {
			return true
		}
		b1, f1 := fieldOfAddr(ld.X)
		b2, f2 := fieldOfAddr(l2.X)
		return f1 != nil && f1 == f2 && sameShape(b1, b2, 0)
	}
	for _, f := range FactsAt(at) {
		var factInstr ssa.Instruction
		if f.If != nil {
			factInstr = f.If
		}
		established := false
		switch c := f.Cond.(type) {
		case *ssa.BinOp:
			for _, side := range [2]int{0, 1} {
				a, b := c.X, c.Y
				op := c.Op
				if side == 1 {
					a, b = c.Y, c.X
					op = swapOp(op)
				}
				if !f.Val {
					op = negOp(op)
				}
				if lc, ok := stripConv(a).(*ssa.Call); ok {
					if bi, ok := lc.Common().Value.(*ssa.Builtin); ok && bi.Name() == "len" && sameLoc(lc.Common().Args[0]) {
						if k, ok := constInt(b); ok {
							if (op == token.GEQ && k >= need) || (op == token.GTR && k+1 >= need) || (op == token.EQL && k >= need) || (op == token.NEQ && k == 0 && need == 1) {
								established = true
							}
						}
					}
				}
				if sameLoc(a) {
					if cs, ok := b.(*ssa.Const); ok && cs.Value != nil && cs.Value.Kind() == constant.String {
						str := constant.StringVal(cs.Value)
						if (op == token.NEQ && str == "" && need == 1) || (op == token.EQL && int64(len(str)) >= need) {
							established = true
						}
					}
				}
			}
		case *ssa.Call:
			n := calleeName(c)
			if f.Val && (n == "strings.HasPrefix" || n == "strings.HasSuffix") && sameLoc(c.Common().Args[0]) {
				if cs, ok := c.Common().Args[1].(*ssa.Const); ok && cs.Value != nil && cs.Value.Kind() == constant.String && int64(len(constant.StringVal(cs.Value))) >= need {
					established = true
				}
			}
		}
		if !established || factInstr == nil {
			continue
		}
		// no store to the location between the test and the use (same function, on any path: approximated by
		// "no store to that location that the test dominates and that can precede the use")
		clobbered := false
		fn := at.Parent()
		for _, b := range fn.Blocks {
			for _, in := range b.Instrs {
				st, ok := in.(*ssa.Store)
				if !ok {
					continue
				}
				same := st.Addr == ld.X
				if !same {
					_, f1 := fieldOfAddr(ld.X)
					_, f2 := fieldOfAddr(st.Addr)
					same = f1 != nil && f1 == f2
				}
				if same && InstrDominates(factInstr, st) && mayFollow(st, at) {
					clobbered = true
				}
			}
		}
		if !clobbered {
			return true, "test on the same location, no store in between"
		}
	}
	return false, ""
}

// minLenEstablished: is len(s) ≥ need known at `at`?
func minLenEstablished(s ssa.Value, need int64, at ssa.Instruction, depth int) (bool, string) {
	if depth > 6 {
		return false, ""
	}
	switch x := s.(type) {
	case *ssa.Const:
		if x.Value != nil && x.Value.Kind() == constant.String {
			if int64(len(constant.StringVal(x.Value))) >= need {
				return true, "constant string"
			}
		}
		return false, ""
	case *ssa.Slice:
		// slice of an array (pointer to array): length fixed by the bounds
		if pt, ok := x.X.Type().Underlying().(*types.Pointer); ok {
			if at2, ok := pt.Elem().Underlying().(*types.Array); ok {
				lo, hi := int64(0), at2.Len()
				if x.Low != nil {
					k, ok := constInt(x.Low)
					if !ok {
						return false, ""
					}
					lo = k
				}
				if x.High != nil {
					k, ok := constInt(x.High)
					if !ok {
						return false, ""
					}
					hi = k
				}
				if hi-lo >= need {
					return true, "slice of an array"
				}
				return false, ""
			}
		}
		// s2 = s1[a:b] with constants: len = b-a if b given
		if x.High != nil {
			hi, okH := constInt(x.High)
			lo := int64(0)
			okL := true
			if x.Low != nil {
				lo, okL = constInt(x.Low)
			}
			if okH && okL && hi-lo >= need {
				return true, "constant reslice"
			}
		}
		if x.Low == nil && x.High == nil {
			return minLenEstablished(x.X, need, at, depth+1)
		}
	case *ssa.MakeSlice:
		if k, ok := constInt(x.Len); ok && k >= need {
			return true, "make with a constant length"
		}
		// make([]T, n) with n compared
		if lenFactAtLeast(x.Len, need, at) {
			return true, "make length bounded below"
		}
	case *ssa.Phi:
		for _, e := range x.Edges {
			if ok, _ := minLenEstablished(e, need, at, depth+1); !ok {
				goto facts
			}
		}
		return true, "all incoming values"
	case *ssa.Call:
		// helper result / append with enough constant elements: not modelled
	case *ssa.Parameter:
		// established at every (direct, in-module) call site for the argument
		if factGraph != nil {
			fn := x.Parent()
			idx := -1
			for i, pp := range fn.Params {
				if pp == x {
					idx = i
				}
			}
			sites, all := 0, true
			for _, e := range factGraph.In[fn] {
				if isTestSupport(pkgPathOfFunc(e.From)) {
					continue
				}
				c, isCall := e.Site.(ssa.CallInstruction)
				if !isCall || e.Escape || c.Common().IsInvoke() || c.Common().StaticCallee() != fn || idx < 0 || idx >= len(c.Common().Args) {
					all = false
					break
				}
				sites++
				if ok, _ := minLenEstablished(c.Common().Args[idx], need, c, depth+1); !ok {
					all = false
				}
			}
			if all && sites > 0 {
				return true, "established at every call site"
			}
		}
	case *ssa.Convert:
		// []byte(str) / string(bytes)
		if ok, why := minLenEstablished(x.X, need, at, depth+1); ok {
			return true, why
		}
	}
facts:
	// dominating facts about len(s), s == "", HasPrefix(s, K)
	for _, f := range FactsAt(at) {
		switch c := f.Cond.(type) {
		case *ssa.BinOp:
			// len(s) op K
			for _, side := range [2]int{0, 1} {
				a, b := c.X, c.Y
				op := c.Op
				if side == 1 {
					a, b = c.Y, c.X
					op = swapOp(op)
				}
				if !f.Val {
					op = negOp(op)
				}
				if isLenOf(a, s) {
					if k, ok := constInt(b); ok {
						switch op {
						case token.GEQ:
							if k >= need {
								return true, "len ≥ K"
							}
						case token.GTR:
							if k+1 >= need {
								return true, "len > K"
							}
						case token.EQL:
							if k >= need {
								return true, "len == K"
							}
						case token.NEQ:
							if k == 0 && need == 1 {
								return true, "len != 0"
							}
						}
					}
				}
				// s != "" / s == "" false
				if sameCore(a, s) {
					if cs, ok := b.(*ssa.Const); ok && cs.Value != nil && cs.Value.Kind() == constant.String {
						str := constant.StringVal(cs.Value)
						if op == token.NEQ && str == "" && need == 1 {
							return true, `s != ""`
						}
						if op == token.EQL && int64(len(str)) >= need {
							return true, "s == constant"
						}
					}
				}
			}
		case *ssa.Call:
			n := calleeName(c)
			if f.Val && (n == "strings.HasPrefix" || n == "strings.HasSuffix" || n == "bytes.HasPrefix" || n == "bytes.HasSuffix") {
				a := c.Common().Args
				if sameCore(a[0], s) {
					if cs, ok := a[1].(*ssa.Const); ok && cs.Value != nil && cs.Value.Kind() == constant.String && int64(len(constant.StringVal(cs.Value))) >= need {
						return true, n
					}
				}
			}
		}
	}
	return false, ""
}

// isLenOf: v is len(s) (possibly converted).
func isLenOf(v, s ssa.Value) bool {
	c, ok := stripConv(v).(*ssa.Call)
	if !ok {
		return false
	}
	bi, ok := c.Common().Value.(*ssa.Builtin)
	return ok && bi.Name() == "len" && sameCore(c.Common().Args[0], s)
}

// lenFactAtLeast: integer value n is known ≥ need at `at`.
func lenFactAtLeast(n ssa.Value, need int64, at ssa.Instruction) bool {
	for _, f := range cmpFactsFor(n, at) {
		if k, ok := constInt(f.other); ok {
			switch f.op {
			case token.GEQ:
				if k >= need {
					return true
				}
			case token.GTR:
				if k+1 >= need {
					return true
				}
			case token.EQL:
				if k >= need {
					return true
				}
			}
		}
	}
	return false
}

func isByteSlice(t types.Type) bool {
	sl, ok := t.Underlying().(*types.Slice)
	if !ok {
		return false
	}
	b, ok := sl.Elem().Underlying().(*types.Basic)
	return ok && b.Kind() == types.Uint8
}
