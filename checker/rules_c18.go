package main

import (
	"fmt"
	"go/token"
	"go/types"
	"sort"
	"strings"

	"golang.org/x/tools/go/ssa"
)

func init() { register("C18", checkC18) }

// addrBase walks an address expression up to its base value.
func addrBase(v ssa.Value) ssa.Value {
	for i := 0; i < 32; i++ {
		switch x := v.(type) {
		case *ssa.FieldAddr:
			v = x.X
		case *ssa.IndexAddr:
			v = x.X
		case *ssa.UnOp:
			if x.Op == token.MUL {
				// pointer loaded from somewhere: continue with where it was loaded from
				v = x.X
				continue
			}
			return v
		case *ssa.ChangeType:
			v = x.X
		case *ssa.Slice:
			v = x.X
		default:
			return v
		}
	}
	return v
}

func checkC18(p *Prog, r *Report) {
	g := p.ModGraph()
	server, client, sshd := sessionEntries(p, r)
	entries := append(append(append([]*ssa.Function{}, server...), sshd...), client...)
	// The authorised-SSH exec callback re-enters the general CLI entry point
	// maincmd.Main on behalf of an authenticated user; what such a user starts
	// there (another daemon, a client) is a new top-level program run, not
	// session code: cut that edge (assumption recorded below).
	mainFn := p.Func(pkgMaincmd, "", "Main")
	cutMain := func(e Edge) bool {
		// the exec callback is a function literal of package maincmd (inside Main,
		// or inside a function split out of it)
		return mainFn != nil && e.To == mainFn && e.From.Parent() != nil && pkgPathOfFunc(e.From) == pkgMaincmd
	}
	reach := g.Reach(entries, cutMain)
	var funcs []*ssa.Function
	for fn := range reach {
		if isModFunc(fn) && fn.Blocks != nil && !isTestSupport(pkgPathOfFunc(fn)) {
			funcs = append(funcs, fn)
			r.FuncsSeen[funcKey(fn)] = true
		}
	}
	sort.Slice(funcs, func(i, j int) bool { return funcKey(funcs[i]) < funcKey(funcs[j]) })

	// ---- NO-SHARED-WRITES ----
	r.Rule("C18/NO-SHARED-WRITES", "no module function reachable from a session entry point stores through an address derived from a package-level variable, or into a field of the server-wide types rsyncd.Server, anonssh.anonssh, anonssh.Listener, rsyncdconfig.Config (there are no locks: shared state must simply not be written); map updates on package-level maps likewise", 1)
	sharedTypes := map[string]bool{pkgRsyncd + ".Server": true, pkgAnonssh + ".anonssh": true, pkgAnonssh + ".Listener": true, pkgConfig + ".Config": true}
	nStores := 0
	// functions that only run at configuration/start-up time even though the
	// CLI entry point reaches them (they build the shared state before serving)
	startup := func(fn *ssa.Function) bool {
		root := fn
		for root.Parent() != nil {
			root = root.Parent()
		}
		k := funcKey(root)
		return k == "rsync/rsyncd.NewServer" || strings.HasPrefix(k, "rsync/rsyncd.With") || k == "rsync/rsyncd.DontRestrict" || k == "rsync/internal/anonssh.ListenerFromConfig"
	}
	// … and helpers that only such functions call (setDefaults split out of NewServer)
	var startupDeep func(fn *ssa.Function, depth int) bool
	startupDeep = func(fn *ssa.Function, depth int) bool {
		if startup(fn) {
			return true
		}
		if depth >= 3 || len(g.In[fn]) == 0 {
			return false
		}
		for _, e := range g.In[fn] {
			if isTestSupport(pkgPathOfFunc(e.From)) {
				continue
			}
			cs, ok := e.Site.(ssa.CallInstruction)
			if !ok || e.Escape || cs.Common().StaticCallee() != fn || !startupDeep(e.From, depth+1) {
				return false
			}
		}
		return true
	}
	for _, fn := range funcs {
		for _, b := range fn.Blocks {
			for _, in := range b.Instrs {
				var addr ssa.Value
				kind := ""
				switch x := in.(type) {
				case *ssa.Store:
					addr, kind = x.Addr, "store"
				case *ssa.MapUpdate:
					addr, kind = x.Map, "map update"
				default:
					continue
				}
				nStores++
				base := addrBase(addr)
				if gl, ok := base.(*ssa.Global); ok && gl.Pkg != nil && isModPath(gl.Pkg.Pkg.Path()) {
					// init-time package initialisers are not session code
					if fn.Name() == "init" || strings.HasPrefix(fn.Name(), "init#") {
						continue
					}
					r.Bad("C18/NO-SHARED-WRITES", funcKey(fn)+" "+kind+" to global "+gl.Name(), p.Pos(instrPos(in)), "session code writes package-level state shared by all sessions: "+g.Chain(reach, fn))
					continue
				}
				if fa, ok := addr.(*ssa.FieldAddr); ok {
					if n := namedOf(fa.X.Type()); n != nil && n.Obj().Pkg() != nil && sharedTypes[n.Obj().Pkg().Path()+"."+n.Obj().Name()] {
						if _, fresh := fa.X.(*ssa.Alloc); fresh || startupDeep(fn, 0) {
							continue
						}
						_, fld := fieldOfAddr(fa)
						r.Bad("C18/NO-SHARED-WRITES", funcKey(fn)+" "+kind+" to "+n.Obj().Name()+"."+fld.Name(), p.Pos(instrPos(in)), "session code writes server-wide state: "+g.Chain(reach, fn))
					}
				}
			}
		}
	}
	r.OK("C18/NO-SHARED-WRITES", "session call tree scanned", "-", fmt.Sprintf("%d stores/map updates in %d functions", nStores, len(funcs)))
	r.Info("C18/NO-SHARED-WRITES scanned %d stores in %d functions [%s]", nStores, len(funcs), p.Config)

	r.Rule("C18/SHARED-STATE-USE", "the only package-level variables of the module that session-reachable code references are those of a reviewed allow-table (once-guards, read-only tables, start-up constants); no pools, caches or counters shared between sessions", 3)
	checkSharedStateUse(p, r, "C18/SHARED-STATE-USE", funcs)

	// ---- PER-SESSION-STATE ----
	r.Rule("C18/PER-SESSION-STATE", "session objects (receiver.Transfer, sender.Transfer, rsyncwire.Conn, rsyncopts.Options, rsyncopts.Context) are allocated inside the session's call tree; no reachable function loads a pointer to one from a package-level variable or a server-wide struct", 5)
	sessTypes := map[string]bool{pkgReceiver + ".Transfer": true, pkgSender + ".Transfer": true, pkgWire + ".Conn": true, pkgOpts + ".Options": true, pkgOpts + ".Context": true}
	allocs := map[string]int{}
	for _, fn := range funcs {
		for _, b := range fn.Blocks {
			for _, in := range b.Instrs {
				switch x := in.(type) {
				case *ssa.Alloc:
					if n := namedOf(x.Type()); n != nil && n.Obj().Pkg() != nil && sessTypes[n.Obj().Pkg().Path()+"."+n.Obj().Name()] {
						if pt, ok := x.Type().(*types.Pointer); ok {
							if _, isPtr := pt.Elem().(*types.Pointer); !isPtr {
								allocs[n.Obj().Pkg().Name()+"."+n.Obj().Name()]++
							}
						}
					}
				case *ssa.UnOp:
					if x.Op != token.MUL {
						continue
					}
					pt, ok := x.Type().(*types.Pointer)
					if !ok {
						continue
					}
					n := namedOf(pt)
					if n == nil || n.Obj().Pkg() == nil || !sessTypes[n.Obj().Pkg().Path()+"."+n.Obj().Name()] {
						continue
					}
					base := addrBase(x.X)
					if gl, ok := base.(*ssa.Global); ok {
						r.Bad("C18/PER-SESSION-STATE", funcKey(fn)+" loads *"+n.Obj().Name()+" from global "+gl.Name(), p.Pos(x.Pos()), "session object shared through a package-level variable")
					}
					if fa, ok := x.X.(*ssa.FieldAddr); ok {
						if sn := namedOf(fa.X.Type()); sn != nil && sn.Obj().Pkg() != nil && sharedTypes[sn.Obj().Pkg().Path()+"."+sn.Obj().Name()] {
							r.Bad("C18/PER-SESSION-STATE", funcKey(fn)+" loads *"+n.Obj().Name()+" from "+sn.Obj().Name(), p.Pos(x.Pos()), "session object stored in server-wide state")
						}
					}
				}
			}
		}
	}
	var an []string
	for k := range allocs {
		an = append(an, k)
	}
	sort.Strings(an)
	for _, k := range an {
		r.OK("C18/PER-SESSION-STATE", "allocated per session: "+k, "-", fmt.Sprintf("%d allocation sites", allocs[k]))
	}

	checkGoroutinePartition(p, r, g)
	checkJoinAndWaitFor(p, r)
	checkWireFullReads(p, r, "C18/TRANSPORT-READS-FULL")
	r.Assume("an authorised SSH user who runs the general CLI through the exec callback starts a new program run (maincmd.Main); its start-up code is not treated as session code")
	r.Assume("foreign code calls only function values and interface methods it was handed; the logger/stderr writer supplied by the embedding program is concurrency-safe")
	if r.Prop == "C18" {
		importShared(p, r, checkC04, "C04/ONLY-PENDING", "C18/TEMP-NAMES-UNIQUE", "two sessions that receive the same path never share a temporary file: file content reaches the destination only through renameio.NewPendingFile(name, WithRoot(root)) — a randomly named file created with O_EXCL — and never through a name derived from the target (the same clause as C04/ONLY-PENDING, here as a necessary condition of non-interference between simultaneous sessions)", 2)
	}
	r.Uncovered("deadlock freedom and termination under every buffering/schedule (a liveness property of an interleaving: not applicable to this technique family); races inside dependencies. Only the structural necessary condition WAITFOR-NONBLOCKING is decided")
}

// fieldAccesses: for functions reachable from `roots`, which fields of the
// given struct types are written / read.
func fieldAccesses(g *ModGraph, roots []*ssa.Function, structs map[string]bool) (writes, reads map[string]string) {
	writes, reads = map[string]string{}, map[string]string{}
	// A call of a function-typed parameter invokes whatever the caller passed;
	// that closure is already attributed to the function that created it
	// (escape edge), so the context-insensitive VTA targets of such a call are
	// cut: otherwise both goroutines would seem to run each other's body.
	cutParamCalls := func(e Edge) bool {
		c, ok := e.Site.(ssa.CallInstruction)
		if !ok || e.Escape {
			return false
		}
		// dynamic call of a function value that is not a closure created right here
		return !c.Common().IsInvoke() && c.Common().StaticCallee() == nil
	}
	reach := g.Reach(roots, cutParamCalls)
	for fn := range reach {
		if !isModFunc(fn) || fn.Blocks == nil {
			continue
		}
		for _, b := range fn.Blocks {
			for _, in := range b.Instrs {
				fa, ok := in.(*ssa.FieldAddr)
				if !ok {
					continue
				}
				n := namedOf(fa.X.Type())
				if n == nil || n.Obj().Pkg() == nil || !structs[n.Obj().Pkg().Path()+"."+n.Obj().Name()] {
					continue
				}
				_, fld := fieldOfAddr(fa)
				key := n.Obj().Name() + "." + fld.Name()
				for _, ref := range *fa.Referrers() {
					switch x := ref.(type) {
					case *ssa.Store:
						if x.Addr == ssa.Value(fa) {
							// literal initialisation of a fresh object is not a shared write
							if _, fresh := fa.X.(*ssa.Alloc); fresh {
								continue
							}
							writes[key] = funcKey(fn) + "@" + g.p.Pos(x.Pos())
						} else {
							reads[key] = funcKey(fn) + "@" + g.p.Pos(x.Pos())
						}
					case *ssa.DebugRef:
					default:
						reads[key] = funcKey(fn) + "@" + g.p.Pos(instrPos(ref))
					}
				}
			}
		}
	}
	return
}

func checkGoroutinePartition(p *Prog, r *Report, g *ModGraph) {
	rule := "C18/GOROUTINE-PARTITION"
	r.Rule(rule, "the generator and receiver goroutines started by receiver.(*Transfer).Do partition the fields of receiver.Transfer / receiver.File / rsyncwire.Conn they touch: no field is written by both, and none is written by one and accessed by the other, except the frozen table (File.Mode: rewritten by the receiver for an index only after the generator requested it)", 2)
	do := anchorFunc(p, r, pkgReceiver, "Transfer", "Do")
	if do == nil {
		return
	}
	var lits []*ssa.Function
	for _, u := range g.unitFuncs(do) {
		allCalls(u, func(c ssa.CallInstruction) {
			if calleeName(c) == "(*golang.org/x/sync/errgroup.Group).Go" {
				switch x := c.Common().Args[1].(type) {
				case *ssa.MakeClosure:
					if f, ok := x.Fn.(*ssa.Function); ok {
						lits = append(lits, f)
					}
				case *ssa.Function:
					lits = append(lits, x)
				}
			}
		})
	}
	if len(lits) != 2 {
		r.Bad(rule, "Do starts two goroutines", p.Pos(do.Pos()), fmt.Sprintf("found %d eg.Go literals", len(lits)))
		return
	}
	structs := map[string]bool{pkgReceiver + ".Transfer": true, pkgReceiver + ".File": true, pkgWire + ".Conn": true, pkgReceiver + ".TransferOpts": true}
	w0, r0 := fieldAccesses(g, lits[:1], structs)
	w1, r1 := fieldAccesses(g, lits[1:], structs)
	allowed := map[string]string{"File.Mode": "written by openLocalFile (receiver goroutine) for an index only after the generator requested that index; ordered by protocol causality"}
	keys := map[string]bool{}
	for k := range w0 {
		keys[k] = true
	}
	for k := range w1 {
		keys[k] = true
	}
	var ks []string
	for k := range keys {
		ks = append(ks, k)
	}
	sort.Strings(ks)
	for _, k := range ks {
		a, inA := w0[k]
		b, inB := w1[k]
		conflict := ""
		switch {
		case inA && inB:
			conflict = "written by both goroutines: " + a + " and " + b
		case inA && r1[k] != "":
			conflict = "written at " + a + " while the other goroutine accesses it at " + r1[k]
		case inB && r0[k] != "":
			conflict = "written at " + b + " while the other goroutine accesses it at " + r0[k]
		}
		if conflict != "" {
			if why, ok := allowed[k]; ok {
				r.OK(rule, "field "+k+" (allow-table)", "-", why)
				continue
			}
			r.Bad(rule, "field "+k, "-", conflict)
		} else {
			r.OK(rule, "field "+k, "-", "written by one goroutine only and not accessed by the other")
		}
	}
	r.OK(rule, "two goroutine literals analysed", p.Pos(do.Pos()), funcKey(lits[0])+", "+funcKey(lits[1]))
	// Conn.Writer used only by the generator side, Conn.Reader only by the receiver side
	for i, pair := range [][2]map[string]string{{r0, r1}, {r1, r0}} {
		_ = i
		_ = pair
	}
	wr, rd := "Conn.Writer", "Conn.Reader"
	usesW0, usesW1 := r0[wr] != "", r1[wr] != ""
	usesR0, usesR1 := r0[rd] != "", r1[rd] != ""
	r.Cond(!(usesW0 && usesW1), rule, "Conn.Writer used by one goroutine only", "-", "both goroutines write to the connection: "+r0[wr]+" / "+r1[wr])
	r.Cond(!(usesR0 && usesR1), rule, "Conn.Reader used by one goroutine only", "-", "both goroutines read from the connection: "+r0[rd]+" / "+r1[rd])
}

func checkJoinAndWaitFor(p *Prog, r *Report) {
	rule := "C18/JOIN"
	r.Rule(rule, "Do reads retouchDirPerms only after eg.Wait(); the sender's per-file hash goroutine is joined by eg.Wait() before h.Sum", 2)
	do := anchorFunc(p, r, pkgReceiver, "Transfer", "Do")
	rtF := p.Field(pkgReceiver, "Transfer", "retouchDirPerms")
	if do != nil && rtF != nil {
		var wait ssa.Instruction
		if _, _, j := findJoin(p, do); j != nil {
			wait = j
		}
		ok := wait != nil
		for _, b := range do.Blocks {
			for _, in := range b.Instrs {
				if ld, isLd := in.(*ssa.UnOp); isLd && isFieldLoad(ld, rtF) && (wait == nil || !InstrDominates(wait, ld)) {
					ok = false
				}
			}
		}
		r.Cond(ok, rule, "Do reads retouchDirPerms after Wait", p.Pos(do.Pos()), "")
	}
	sf := anchorFunc(p, r, pkgSender, "Transfer", "sendFile")
	if sf != nil {
		var wait, sum ssa.Instruction
		allCalls(sf, func(c ssa.CallInstruction) {
			if calleeName(c) == "(*golang.org/x/sync/errgroup.Group).Wait" {
				wait = c
			}
			if c.Common().IsInvoke() && c.Common().Method.Name() == "Sum" {
				sum = c
			}
		})
		r.Cond(wait != nil && sum != nil && InstrDominates(wait, sum), rule, "sendFile joins the hash goroutine before h.Sum", p.Pos(sf.Pos()), "")
	}

	rule2 := "C18/WAITFOR-NONBLOCKING"
	r.Rule(rule2, "necessary for termination after a one-sided failure: receiver.waitFor returns as soon as the group context is cancelled — its only receive is one blocking select over ctx.Done() and a result channel of capacity ≥ 1 (so the abandoned goroutine can still finish), and both goroutine bodies of Do run through waitFor with the errgroup's context", 3)
	wf := anchorFunc(p, r, pkgReceiver, "", "waitFor")
	if wf != nil {
		nSel, nRecv := 0, 0
		capOK := false
		selOK := false
		for _, fn := range append([]*ssa.Function{wf}, wf.AnonFuncs...) {
			for _, b := range fn.Blocks {
				for _, in := range b.Instrs {
					switch x := in.(type) {
					case *ssa.Select:
						nSel++
						done, res := false, false
						for _, st := range x.States {
							if st.Dir != types.RecvOnly {
								continue
							}
							if c, ok := stripConv(st.Chan).(*ssa.Call); ok && c.Common().IsInvoke() && c.Common().Method.Name() == "Done" {
								done = true
							}
							if _, ok := stripConv(unwrapLocal(stripConv(st.Chan))).(*ssa.MakeChan); ok {
								res = true
							}
						}
						selOK = x.Blocking && done && res && len(x.States) == 2
					case *ssa.UnOp:
						if x.Op == token.ARROW {
							nRecv++
						}
					case *ssa.MakeChan:
						if k, ok := constInt(x.Size); ok && k >= 1 {
							capOK = true
						}
					}
				}
			}
		}
		r.Cond(nSel == 1 && selOK && nRecv == 0, rule2, "waitFor: single select over ctx.Done() and the result channel, no other receive", p.Pos(wf.Pos()), fmt.Sprintf("selects=%d plain receives=%d: waiting for the abandoned goroutine blocks the session forever when the peer stays idle", nSel, nRecv))
		r.Cond(capOK, rule2, "waitFor: result channel is buffered", p.Pos(wf.Pos()), "an unbuffered result channel leaks the abandoned goroutine")
	}
	if do != nil && wf != nil {
		// the functions handed to eg.Go (literals, or method values) call waitFor
		// themselves or through one direct callee
		g := p.ModGraph()
		n, total := 0, 0
		for _, u := range g.unitFuncs(do) {
			allCalls(u, func(c ssa.CallInstruction) {
				if calleeName(c) != "(*golang.org/x/sync/errgroup.Group).Go" {
					return
				}
				total++
				var target *ssa.Function
				switch x := c.Common().Args[1].(type) {
				case *ssa.MakeClosure:
					target, _ = x.Fn.(*ssa.Function)
				case *ssa.Function:
					target = x
				}
				if target == nil {
					return
				}
				callsWait := func(f *ssa.Function) bool {
					found := false
					allCalls(f, func(cc ssa.CallInstruction) {
						if cc.Common().StaticCallee() == wf {
							found = true
						}
					})
					return found
				}
				ok := callsWait(target)
				if !ok {
					for _, e := range g.Out[target] {
						if e.To.Blocks != nil && pkgPathOfFunc(e.To) == pkgReceiver && callsWait(e.To) {
							ok = true
						}
					}
				}
				if ok {
					n++
				}
			})
		}
		r.Cond(n == 2 && total == 2, rule2, "Do: both goroutine bodies go through waitFor", p.Pos(do.Pos()), fmt.Sprintf("%d of %d eg.Go bodies", n, total))
	}
}

// sharedStateAllow: package-level variables of the module that session code
// may reference, each with the reason it cannot carry data from one session
// into another.
var sharedStateAllow = map[string]string{
	"rsync/internal/sender.lookupOnce":              "sync.Once guarding a log line",
	"rsync/internal/sender.lookupGroupOnce":         "sync.Once guarding a log line",
	"rsync/internal/receiver.amRoot":                "computed once at start-up, read-only",
	"rsync/internal/receiver.inGroup":               "computed once at start-up, read-only",
	"rsync/internal/rsyncopts.errNotYetImplemented": "immutable sentinel error",
	"rsync/internal/rsyncopts.infoWords":            "read-only table",
	"rsync/internal/rsyncopts.debugWords":           "read-only table",
	"rsync/internal/rsyncopts.tridgeDefaults":       "read-only defaults, copied by value",
	"rsync/internal/rsyncopts.gokrazyDefaults":      "read-only defaults, copied by value",
	"rsync/internal/maincmd.errIsParent":            "immutable sentinel error",
	"rsync/internal/restrict.ExtraHook":             "test hook, set before serving",
}

// checkSharedStateUse: every module-level variable referenced by the given
// functions must be in the allow table; a new one (a pool, a cache, a
// counter) is state that can leak between sessions.
func checkSharedStateUse(p *Prog, r *Report, rule string, funcs []*ssa.Function) {
	seen := map[string]bool{}
	for _, fn := range funcs {
		if fn.Name() == "init" || strings.HasPrefix(fn.Name(), "init#") {
			continue
		}
		for _, b := range fn.Blocks {
			for _, in := range b.Instrs {
				for _, op := range in.Operands(nil) {
					gl, ok := (*op).(*ssa.Global)
					if !ok || gl.Pkg == nil || !isModPath(gl.Pkg.Pkg.Path()) || isTestSupport(gl.Pkg.Pkg.Path()) {
						continue
					}
					name := shortKey(gl.Pkg.Pkg.Path()) + "." + gl.Name()
					if strings.HasPrefix(gl.Name(), "init$guard") || seen[name] {
						continue
					}
					seen[name] = true
					if why, ok := sharedStateAllow[name]; ok {
						r.OK(rule, "uses package-level "+name, p.Pos(instrPos(in)), why)
					} else if ro, whyNot := globalReadOnly(p, gl); ro {
						r.OK(rule, "uses package-level "+name, p.Pos(instrPos(in)), "structurally read-only: written only by package initialisation, every other reference in the module is a read whose value is not stored, passed on or updated")
					} else {
						r.Bad(rule, "uses package-level "+name, p.Pos(instrPos(in)), "session-reachable code ("+funcKey(fn)+") uses process-wide state that is neither in the reviewed allow-table nor structurally read-only ("+whyNot+"): data or decisions can carry over from one session to another")
					}
				}
			}
		}
	}
}

// globalReadOnly: outside package initialisation, every reference to gl in the
// module is a load (or a field/element address that is only loaded), and the
// loaded value - when it can alias the variable's storage (map, slice,
// pointer, ...) - is only looked up, ranged over, indexed, compared, measured
// or called; it is never stored, passed to a call, sent, or updated. Function
// values count as read-only only if the package's initialiser creates no
// closure with captured variables (a captured counter would be shared state).
func globalReadOnly(p *Prog, gl *ssa.Global) (bool, string) {
	isInit := func(fn *ssa.Function) bool {
		for fn.Parent() != nil {
			fn = fn.Parent()
		}
		return fn.Pkg == gl.Pkg && (fn.Name() == "init" || strings.HasPrefix(fn.Name(), "init#"))
	}
	if typeHasFunc(gl.Type(), 0) {
		for _, fn := range p.ModFuncs {
			if !isInit(fn) {
				continue
			}
			for _, b := range fn.Blocks {
				for _, in := range b.Instrs {
					if mc, ok := in.(*ssa.MakeClosure); ok && len(mc.Bindings) > 0 {
						return false, "initialiser creates a closure with captured variables"
					}
				}
			}
		}
	}
	seen := map[ssa.Value]bool{}
	var valOK func(v ssa.Value) bool
	var addrOK func(a ssa.Value) bool
	var copyOK func(a ssa.Value) bool
	copyOK = func(a ssa.Value) bool { // a: address of (part of) a local copy of a loaded value
		if seen[a] {
			return true
		}
		seen[a] = true
		refs := a.Referrers()
		if refs == nil {
			return false
		}
		for _, ref := range *refs {
			switch x := ref.(type) {
			case *ssa.UnOp:
				if x.Op != token.MUL || !valOK(x) {
					return false
				}
			case *ssa.Store:
				if x.Addr != a {
					return false // the address itself is stored somewhere
				}
			case *ssa.FieldAddr:
				if !copyOK(x) {
					return false
				}
			case *ssa.IndexAddr:
				if x.X != a || !copyOK(x) {
					return false
				}
			case *ssa.DebugRef:
			default:
				return false
			}
		}
		return true
	}
	addrOK = func(a ssa.Value) bool { // a: an address inside the variable
		if seen[a] {
			return true
		}
		seen[a] = true
		refs := a.Referrers()
		if refs == nil {
			return false
		}
		for _, ref := range *refs {
			switch x := ref.(type) {
			case *ssa.UnOp:
				if x.Op != token.MUL || !valOK(x) {
					return false
				}
			case *ssa.FieldAddr:
				if !addrOK(x) {
					return false
				}
			case *ssa.IndexAddr:
				if x.X != a || !addrOK(x) {
					return false
				}
			case *ssa.DebugRef:
			default:
				return false
			}
		}
		return true
	}
	valOK = func(v ssa.Value) bool {
		if seen[v] {
			return true
		}
		seen[v] = true
		if !typeCanAlias(v.Type(), 0) {
			return true // a copy
		}
		refs := v.Referrers()
		if refs == nil {
			return false
		}
		for _, ref := range *refs {
			switch x := ref.(type) {
			case *ssa.Lookup:
				if x.X != v || !valOK(x) {
					return false
				}
			case *ssa.Range:
				if !valOK(x) {
					return false
				}
			case *ssa.Next, *ssa.Extract, *ssa.Field, *ssa.Index, *ssa.Phi, *ssa.ChangeType, *ssa.Slice:
				if !valOK(x.(ssa.Value)) {
					return false
				}
			case *ssa.UnOp:
				if x.Op == token.MUL {
					if !valOK(x) {
						return false
					}
				}
			case *ssa.FieldAddr:
				if !addrOK(x) {
					return false
				}
			case *ssa.IndexAddr:
				if x.X != v || !addrOK(x) {
					return false
				}
			case *ssa.BinOp, *ssa.If, *ssa.DebugRef:
			case *ssa.Store:
				// copied into a local variable: follow the copy
				al, isLocal := x.Addr.(*ssa.Alloc)
				if x.Val != v || !isLocal || !copyOK(al) {
					return false
				}
			case ssa.CallInstruction:
				cc := x.Common()
				if bi, ok := cc.Value.(*ssa.Builtin); ok && (bi.Name() == "len" || bi.Name() == "cap") {
					continue
				}
				if cc.Value == v && !cc.IsInvoke() {
					used := false
					for _, a := range cc.Args {
						if a == v {
							used = true
						}
					}
					if !used {
						continue // calling a function value from the table
					}
				}
				return false
			default:
				return false
			}
		}
		return true
	}
	for _, fn := range p.ModFuncs {
		if isInit(fn) {
			continue
		}
		for _, b := range fn.Blocks {
			for _, in := range b.Instrs {
				uses := false
				for _, op := range in.Operands(nil) {
					if *op == ssa.Value(gl) {
						uses = true
					}
				}
				if !uses {
					continue
				}
				switch x := in.(type) {
				case *ssa.UnOp:
					if x.Op != token.MUL || !valOK(x) {
						return false, "loaded value of " + gl.Name() + " is stored, passed on or updated in " + funcKey(fn)
					}
				case *ssa.FieldAddr:
					if !addrOK(x) {
						return false, "address into " + gl.Name() + " escapes in " + funcKey(fn)
					}
				case *ssa.IndexAddr:
					if !addrOK(x) {
						return false, "address into " + gl.Name() + " escapes in " + funcKey(fn)
					}
				case *ssa.DebugRef:
				default:
					return false, gl.Name() + " is written or its address taken in " + funcKey(fn)
				}
			}
		}
	}
	return true, ""
}

// typeCanAlias: a value of type t may share storage with its source.
func typeCanAlias(t types.Type, depth int) bool {
	if depth > 6 {
		return true
	}
	switch u := t.Underlying().(type) {
	case *types.Basic:
		return u.Kind() == types.UnsafePointer
	case *types.Struct:
		for i := 0; i < u.NumFields(); i++ {
			if typeCanAlias(u.Field(i).Type(), depth+1) {
				return true
			}
		}
		return false
	case *types.Array:
		return typeCanAlias(u.Elem(), depth+1)
	case *types.Tuple:
		for i := 0; i < u.Len(); i++ {
			if typeCanAlias(u.At(i).Type(), depth+1) {
				return true
			}
		}
		return false
	}
	return true
}

func typeHasFunc(t types.Type, depth int) bool {
	if depth > 6 {
		return true
	}
	switch u := t.Underlying().(type) {
	case *types.Signature, *types.Interface:
		return true
	case *types.Pointer:
		return typeHasFunc(u.Elem(), depth+1)
	case *types.Map:
		return typeHasFunc(u.Elem(), depth+1) || typeHasFunc(u.Key(), depth+1)
	case *types.Slice:
		return typeHasFunc(u.Elem(), depth+1)
	case *types.Array:
		return typeHasFunc(u.Elem(), depth+1)
	case *types.Chan:
		return true
	case *types.Struct:
		for i := 0; i < u.NumFields(); i++ {
			if typeHasFunc(u.Field(i).Type(), depth+1) {
				return true
			}
		}
	}
	return false
}
