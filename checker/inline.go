package main

import (
	"go/token"
	"go/types"

	"golang.org/x/tools/go/ssa"
)

// Frame is one level of helper inlining in the path walkers: the helper
// `fn` is being walked on behalf of the call `call` made in `parent`.
type Frame struct {
	call   *ssa.Call
	fn     *ssa.Function
	parent *Frame
	depth  int
}

// Canon maps a value seen inside an inlined helper back to the caller's
// value: parameters become the call's arguments (recursively), everything
// else stays. Rule recognisers compare Canon(v) with root-level values, so a
// condition moved into a helper is recognised like the inline original.
func (f *Frame) Canon(v ssa.Value) ssa.Value {
	for fr := f; fr != nil && fr.call != nil; fr = fr.parent {
		p, ok := v.(*ssa.Parameter)
		if !ok || p.Parent() != fr.fn {
			return v
		}
		idx := -1
		for i, pp := range fr.fn.Params {
			if pp == p {
				idx = i
			}
		}
		if idx < 0 || idx >= len(fr.call.Common().Args) {
			return v
		}
		v = fr.call.Common().Args[idx]
	}
	return v
}

func (f *Frame) onStack(fn *ssa.Function) bool {
	for fr := f; fr != nil; fr = fr.parent {
		if fr.fn == fn {
			return true
		}
	}
	return false
}

func hasLoop(fn *ssa.Function) bool {
	for _, b := range fn.Blocks {
		for _, s := range b.Succs {
			if s.Dominates(b) {
				return true
			}
		}
	}
	return false
}

// inlinableCall: a direct call of a loop-free, small function of the same
// package as root (helpers extracted by refactoring), not recursive.
func inlinableCall(root *ssa.Function, fr *Frame, in ssa.Instruction, allow func(*ssa.Function) bool) *ssa.Function {
	c, ok := in.(*ssa.Call)
	if !ok || c.Common().IsInvoke() {
		return nil
	}
	callee := c.Common().StaticCallee()
	if callee == nil || callee.Blocks == nil || callee.Parent() != nil {
		return nil
	}
	if pkgPathOfFunc(callee) != pkgPathOfFunc(root) || len(callee.Blocks) > 80 || hasLoop(callee) {
		return nil
	}
	if fr != nil && (fr.depth >= 3 || fr.onStack(callee)) {
		return nil
	}
	if callee == root {
		return nil
	}
	if allow != nil && !allow(callee) {
		return nil
	}
	return callee
}

func isBoolT(t types.Type) bool {
	b, ok := t.Underlying().(*types.Basic)
	return ok && b.Kind() == types.Bool
}

// boolEnv: boolean values known on the current path (phis, helper results).
type aliasTo struct {
	v  ssa.Value
	fr *Frame
}

type boolEnv struct {
	m     map[ssa.Value]bool
	alias map[ssa.Value]aliasTo // value ≡ another (not yet decided) boolean expression on this path
	isNil map[ssa.Value]bool    // nil-ness of (error/pointer) values decided on this path
	undo  []func()
}

func newBoolEnv() *boolEnv {
	return &boolEnv{m: map[ssa.Value]bool{}, alias: map[ssa.Value]aliasTo{}, isNil: map[ssa.Value]bool{}}
}

func (e *boolEnv) setNil(v ssa.Value, n bool) {
	old, had := e.isNil[v]
	e.isNil[v] = n
	e.undo = append(e.undo, func() {
		if had {
			e.isNil[v] = old
		} else {
			delete(e.isNil, v)
		}
	})
}

// nilCompare: cond is `x == nil` / `x != nil`; returns x and whether the
// condition being true means x is nil.
func nilCompare(cond ssa.Value) (x ssa.Value, trueMeansNil bool, ok bool) {
	bo, isB := cond.(*ssa.BinOp)
	if !isB || (bo.Op != token.EQL && bo.Op != token.NEQ) {
		return nil, false, false
	}
	switch {
	case isNilConst(bo.Y):
		x = bo.X
	case isNilConst(bo.X):
		x = bo.Y
	default:
		return nil, false, false
	}
	return x, bo.Op == token.EQL, true
}

// nilOf: is v known to be nil / non-nil on this path?
func (e *boolEnv) nilOf(fr *Frame, v ssa.Value) (isNil, known bool) {
	for i := 0; i < 6; i++ {
		if isNilConst(v) {
			return true, true
		}
		if n, ok := e.isNil[v]; ok {
			return n, true
		}
		switch x := v.(type) {
		case *ssa.MakeInterface, *ssa.Alloc:
			return false, true // never nil
		case *ssa.Call:
			switch calleeName(x) {
			case "fmt.Errorf", "errors.New":
				return false, true // documented to return a non-nil error
			}
		}
		if p, ok := v.(*ssa.Parameter); ok && fr != nil {
			c := fr.Canon(p)
			if c == ssa.Value(p) {
				return false, false
			}
			v = c
			continue
		}
		return false, false
	}
	return false, false
}

// bindNilness records, at the Return of an inlined helper, the nil-ness of
// its non-boolean results for the caller.
func (e *boolEnv) bindNilness(fr *Frame, ret *ssa.Return) {
	results := retResults(ret)
	set := func(target, rv ssa.Value) {
		if n, ok := e.nilOf(fr, rv); ok {
			e.setNil(target, n)
		} else if _, had := e.isNil[target]; had {
			old := e.isNil[target]
			delete(e.isNil, target)
			e.undo = append(e.undo, func() { e.isNil[target] = old })
		}
	}
	if len(results) == 1 {
		set(fr.call, results[0])
		return
	}
	for _, ref := range *fr.call.Referrers() {
		if ex, ok := ref.(*ssa.Extract); ok && ex.Index < len(results) {
			set(ex, results[ex.Index])
		}
	}
}

func (e *boolEnv) setAlias(v ssa.Value, to aliasTo) {
	old, had := e.alias[v]
	e.alias[v] = to
	e.undo = append(e.undo, func() {
		if had {
			e.alias[v] = old
		} else {
			delete(e.alias, v)
		}
	})
}

// resolveAlias follows aliases (helper result → returned expression, phi →
// chosen edge) to the expression that still has to be decided.
func (e *boolEnv) resolveAlias(fr *Frame, v ssa.Value) (ssa.Value, *Frame) {
	for i := 0; i < 8; i++ {
		a, ok := e.alias[v]
		if !ok {
			return v, fr
		}
		v, fr = a.v, a.fr
	}
	return v, fr
}

func (e *boolEnv) set(v ssa.Value, b bool) {
	old, had := e.m[v]
	e.m[v] = b
	e.undo = append(e.undo, func() {
		if had {
			e.m[v] = old
		} else {
			delete(e.m, v)
		}
	})
}

func (e *boolEnv) unset(v ssa.Value) {
	old, had := e.m[v]
	if !had {
		return
	}
	delete(e.m, v)
	e.undo = append(e.undo, func() { e.m[v] = old })
}

func (e *boolEnv) mark() int { return len(e.undo) }
func (e *boolEnv) rollback(n int) {
	for len(e.undo) > n {
		e.undo[len(e.undo)-1]()
		e.undo = e.undo[:len(e.undo)-1]
	}
}

// eval evaluates a boolean value from constants, negations, known phis /
// helper results and helper parameters.
func (e *boolEnv) eval(fr *Frame, v ssa.Value) (val, known bool) {
	for i := 0; i < 8; i++ {
		if b, ok := e.m[v]; ok {
			return b, true
		}
		if x, trueMeansNil, ok := nilCompare(v); ok {
			if n, known := e.nilOf(fr, x); known {
				return n == trueMeansNil, true
			}
			return false, false
		}
		switch x := v.(type) {
		case *ssa.Const:
			if x.Value != nil && isBoolT(x.Type()) {
				return x.Value.String() == "true", true
			}
			return false, false
		case *ssa.UnOp:
			if x.Op == token.NOT {
				b, k := e.eval(fr, x.X)
				return !b, k
			}
			return false, false
		case *ssa.Parameter:
			if fr == nil {
				return false, false
			}
			c := fr.Canon(x)
			if c == ssa.Value(x) {
				return false, false
			}
			v = c
			// evaluate in the caller's frame
			for f2 := fr; f2 != nil; f2 = f2.parent {
				if f2.fn == x.Parent() {
					fr = f2.parent
					break
				}
			}
		default:
			return false, false
		}
	}
	return false, false
}

// bindResults records the boolean results of an inlined helper at its Return.
func (e *boolEnv) bindResults(fr *Frame, ret *ssa.Return) {
	results := retResults(ret)
	call := fr.call
	if len(results) == 1 {
		if isBoolT(results[0].Type()) {
			if b, k := e.eval(fr, results[0]); k {
				e.set(call, b)
			} else {
				e.unset(call)
				e.setAlias(call, aliasTo{results[0], fr})
			}
		}
		return
	}
	for _, ref := range *call.Referrers() {
		ex, ok := ref.(*ssa.Extract)
		if !ok || ex.Index >= len(results) || !isBoolT(results[ex.Index].Type()) {
			continue
		}
		if b, k := e.eval(fr, results[ex.Index]); k {
			e.set(ex, b)
		} else {
			e.unset(ex)
			e.setAlias(ex, aliasTo{results[ex.Index], fr})
		}
	}
}

// enterBlock evaluates the boolean phis of b for the edge pred→b.
func (e *boolEnv) enterBlock(fr *Frame, b, pred *ssa.BasicBlock) {
	if pred == nil {
		return
	}
	idx := -1
	for i, p := range b.Preds {
		if p == pred {
			idx = i
		}
	}
	if idx < 0 {
		return
	}
	// evaluate all phis against the environment before the block, then bind
	type pv struct {
		phi *ssa.Phi
		val bool
		ok  bool
	}
	var vals []pv
	for _, in := range b.Instrs {
		phi, ok := in.(*ssa.Phi)
		if !ok {
			break
		}
		if !isBoolT(phi.Type()) {
			continue
		}
		v, k := e.eval(fr, phi.Edges[idx])
		vals = append(vals, pv{phi, v, k})
	}
	for _, x := range vals {
		if x.ok {
			e.set(x.phi, x.val)
		} else {
			e.unset(x.phi)
			e.setAlias(x.phi, aliasTo{x.phi.Edges[idx], fr})
		}
	}
}

// ---- struct values carried through locals, parameters and helper results ----
//
// A refactoring may wrap values in a small struct (`res := lstatResult{st, err}`
// returned by a helper, tested through methods with a value receiver). go/ssa
// keeps such structs in local slots (a field selection takes the slot's
// address, so the slot is not lifted to a register). resolveField follows a
// field read back to the value that was put into that field: through the
// unique store into the slot, through parameters of inlined helpers to the
// caller's argument, and through the result an inlined helper returned on the
// current path. It gives up (returns v unchanged) at anything ambiguous: more
// than one store, a phi, a slot whose address escapes.

type structResolver struct {
	vals map[ssa.Value]ssa.Value // helper results on the current path (may be nil)
}

// resolveField returns the value stored in the field that v reads, or v.
func (sr structResolver) resolveField(fr *Frame, v ssa.Value) ssa.Value {
	for i := 0; i < 4; i++ {
		var r ssa.Value
		ok := false
		switch x := v.(type) {
		case *ssa.Field:
			r, _, ok = sr.fieldOfValue(fr, x.X, x.Field, 0)
		case *ssa.UnOp:
			if x.Op != token.MUL {
				return v
			}
			fa, isFA := x.X.(*ssa.FieldAddr)
			if !isFA {
				return v
			}
			a, isA := fa.X.(*ssa.Alloc)
			if !isA {
				return v
			}
			r, _, ok = sr.fieldOfSlot(fr, a, fa.Field, 0)
		default:
			return v
		}
		if !ok || r == nil {
			return v
		}
		v = r
	}
	return v
}

// fieldOfSlot: the value of field idx of the struct held in local slot a.
func (sr structResolver) fieldOfSlot(fr *Frame, a *ssa.Alloc, idx int, depth int) (ssa.Value, *Frame, bool) {
	if depth > 8 || a.Referrers() == nil {
		return nil, nil, false
	}
	var whole, field []ssa.Value
	for _, ref := range *a.Referrers() {
		switch x := ref.(type) {
		case *ssa.Store:
			if x.Addr != ssa.Value(a) {
				return nil, nil, false // the slot's address is stored somewhere
			}
			whole = append(whole, x.Val)
		case *ssa.FieldAddr:
			if x.Referrers() == nil {
				return nil, nil, false
			}
			for _, r2 := range *x.Referrers() {
				switch y := r2.(type) {
				case *ssa.Store:
					if y.Addr != ssa.Value(x) {
						return nil, nil, false
					}
					if x.Field == idx {
						field = append(field, y.Val)
					}
				case *ssa.UnOp, *ssa.DebugRef:
				case *ssa.FieldAddr, *ssa.IndexAddr:
					// nested aggregate: only reads are tolerated for the field we follow
					if x.Field == idx {
						return nil, nil, false
					}
				default:
					return nil, nil, false // address of a field escapes (call argument, …)
				}
			}
		case *ssa.UnOp, *ssa.DebugRef:
		default:
			return nil, nil, false // the slot's address escapes
		}
	}
	switch {
	case len(whole) == 1 && len(field) == 0:
		return sr.fieldOfValue(fr, whole[0], idx, depth+1)
	case len(whole) == 0 && len(field) == 1:
		v := field[0]
		if fr != nil {
			v = fr.Canon(v)
		}
		return v, fr, true
	}
	return nil, nil, false
}

// fieldOfValue: the value of field idx of the struct value s (seen in frame fr).
func (sr structResolver) fieldOfValue(fr *Frame, s ssa.Value, idx int, depth int) (ssa.Value, *Frame, bool) {
	if depth > 8 {
		return nil, nil, false
	}
	switch x := s.(type) {
	case *ssa.Parameter:
		// the caller's argument, in the caller's frame
		for f := fr; f != nil && f.call != nil; f = f.parent {
			if f.fn != x.Parent() {
				continue
			}
			for i, pp := range f.fn.Params {
				if pp == x && i < len(f.call.Common().Args) {
					return sr.fieldOfValue(f.parent, f.call.Common().Args[i], idx, depth+1)
				}
			}
		}
		return nil, nil, false
	case *ssa.UnOp:
		if x.Op != token.MUL {
			return nil, nil, false
		}
		if a, ok := x.X.(*ssa.Alloc); ok {
			return sr.fieldOfSlot(fr, a, idx, depth+1)
		}
	case *ssa.Call, *ssa.Extract:
		if rv, ok := sr.vals[s]; ok && rv != nil && rv != s {
			// what the inlined helper returned on this path (already canonical in
			// the helper's frame, which has returned: parameters stay unresolved)
			return sr.fieldOfValue(nil, rv, idx, depth+1)
		}
	}
	return nil, nil, false
}
