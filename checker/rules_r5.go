package main

import (
	"go/token"
	"go/types"
	"sort"
	"strings"

	"golang.org/x/tools/go/ssa"
)

// Rules added after the fifth round of seeded changes.

// importShared runs another property's rule set into a scratch report and
// copies the obligations of one of its rules under a new rule id: the same
// clause, stated as a necessary condition of this property.
func importShared(p *Prog, r *Report, run func(*Prog, *Report), fromRule, asRule, text string, floor int) {
	r.Rule(asRule, text, floor)
	r2 := NewReport(r.Prop, r.Tier)
	r2.curConfig = r.curConfig
	func() {
		defer func() {
			if e := recover(); e != nil {
				r.Unk(asRule, "shared rule "+fromRule, "-", "the shared rule set panicked")
			}
		}()
		run(p, r2)
	}()
	n := 0
	for _, o := range r2.Obls {
		if o.Rule != fromRule {
			continue
		}
		n++
		key := o.Key
		if i := strings.LastIndex(key, " #"); i > 0 {
			key = key[:i]
		}
		r.Add(asRule, key, o.Pos, o.Verdict, o.Detail)
	}
	for _, f := range r2.Fatal {
		if strings.Contains(f, fromRule) {
			r.Unk(asRule, "shared rule "+fromRule, "-", f)
		}
	}
	if n == 0 {
		r.Unk(asRule, "shared rule "+fromRule, "-", "the shared rule produced no obligation")
	}
}

// checkTopDirScan — C09/TOPDIR-SCAN: the delete pass runs for a "." entry
// wherever it sits in the sorted list (names starting with a byte below '.'
// sort before it): the top-directory test is applied to an element indexed by
// the variable of a loop over the whole list, never to a constant position.
func checkTopDirScan(p *Prog, r *Report) {
	rule := "C09/TOPDIR-SCAN"
	r.Rule(rule, "the delete pass finds the top directory wherever it sits in the list: isTopDir is applied to list elements inside a loop over the whole list (a range or an index that runs to len(list)), never to a fixed position such as list[0] — names beginning with a byte below '.' sort before the \".\" entry", 1)
	g := p.ModGraph()
	del := p.Func(pkgReceiver, "Transfer", "deleteFiles")
	itd := p.Func(pkgReceiver, "", "isTopDir")
	if del == nil || itd == nil {
		r.Unk(rule, "anchors", "-", "deleteFiles / isTopDir not found: the top directory is recognised differently now, re-read")
		return
	}
	n := 0
	for _, fn := range g.unitFuncs(del) {
		loops := naturalLoops(fn)
		allCalls(fn, func(c ssa.CallInstruction) {
			if c.Common().StaticCallee() != itd {
				return
			}
			n++
			arg := unwrapLocal(c.Common().Args[0])
			ok := false
			why := "the argument is not an element of the list selected by a loop variable"
			if ld, isLd := arg.(*ssa.UnOp); isLd && ld.Op == token.MUL {
				if ia, isIA := ld.X.(*ssa.IndexAddr); isIA {
					if _, isK := constInt(ia.Index); isK {
						why = "the top-directory test looks at a fixed position of the list"
					} else if len(loopsContaining(loops, c.Block())) > 0 {
						ok = true
					}
				}
			}
			// range loops over a slice of pointers load the element through the rotated index too; a Next/Extract form is also a loop variable
			if !ok {
				if _, isEx := arg.(*ssa.Extract); isEx && len(loopsContaining(loops, c.Block())) > 0 {
					ok = true
				}
			}
			r.Cond(ok, rule, funcKey(fn)+" → isTopDir", p.Pos(instrPos(c)), why+": for a source whose first sorted name is not \".\" nothing is deleted")
		})
	}
	if n == 0 {
		// handed to a search helper that visits every element (slices.ContainsFunc / IndexFunc)?
		for _, fn := range g.unitFuncs(del) {
			allCalls(fn, func(c ssa.CallInstruction) {
				nm := calleeName(c)
				if sc := c.Common().StaticCallee(); sc != nil && sc.Origin() != nil {
					nm = sc.Origin().String()
				}
				if nm != "slices.ContainsFunc" && nm != "slices.IndexFunc" {
					return
				}
				for _, a := range c.Common().Args {
					switch x := stripConv(a).(type) {
					case *ssa.Function:
						if x == itd {
							n++
						}
					case *ssa.MakeClosure:
						if x.Fn == ssa.Value(itd) {
							n++
						}
					}
				}
			})
		}
		if n > 0 {
			r.OK(rule, "isTopDir applied by a whole-slice search helper", p.Pos(del.Pos()), "")
			return
		}
		r.Unk(rule, "isTopDir call", p.Pos(del.Pos()), "deleteFiles does not call isTopDir: re-read how the top directory is found")
	}
}

// checkListNoNil — C08/LIST-NO-NIL: indices from the peer are range-checked
// and then dereferenced (fileList[idx].Name …). That is only safe while the
// list has no nil elements.
func checkListNoNil(p *Prog, r *Report) {
	rule := "C08/LIST-NO-NIL"
	r.Rule(rule, "the received file list never contains nil entries: no production code stores the nil constant into an element of a []*receiver.File or []*sender file slice (peer-supplied indices are range-checked and then dereferenced without a nil test)", 0)
	n := 0
	for _, fn := range p.ModFuncs {
		if fn.Blocks == nil || isTestSupport(pkgPathOfFunc(fn)) {
			continue
		}
		for _, b := range fn.Blocks {
			for _, in := range b.Instrs {
				st, ok := in.(*ssa.Store)
				if !ok || !isNilConst(st.Val) {
					continue
				}
				ia, ok := st.Addr.(*ssa.IndexAddr)
				if !ok {
					continue
				}
				sl, ok := ia.X.Type().Underlying().(*types.Slice)
				if !ok {
					continue
				}
				pt, ok := sl.Elem().Underlying().(*types.Pointer)
				if !ok {
					continue
				}
				if nm := namedOf(pt.Elem()); nm != nil && nm.Obj().Pkg() != nil && nm.Obj().Pkg().Path() == pkgReceiver && nm.Obj().Name() == "File" {
					n++
					r.Bad(rule, funcKey(fn)+" clears a list entry", p.Pos(st.Pos()), "an element of the file list is set to nil: a peer that names that index (in range) makes RecvFiles dereference it and the process dies")
				}
			}
		}
	}
	if n == 0 {
		r.OK(rule, "no nil store into a file list", "-", "")
	}
}

// checkKeepPermsTransferred — C11/KEEP-PERMS-TRANSFERRED: without -p a file
// that is transferred over an existing one keeps the existing permissions.
// That substitution happens in openLocalFile (f.Mode = existing perms under
// !PreservePerms); it only takes effect if openLocalFile runs for every
// transferred file before receiveData applies f.Mode.
func checkKeepPermsTransferred(p *Prog, r *Report) {
	rule := "C11/KEEP-PERMS-TRANSFERRED"
	r.Rule(rule, "without -p a re-transferred file keeps the permissions of the file it replaces: openLocalFile stores the existing file's Perm() into f.Mode on the edge PreservePerms == false, and in recvFile1 the call of openLocalFile dominates the call of receiveData (it is not made conditional on block checksums, options or the basis being usable)", 2)
	g := p.ModGraph()
	olf := p.Func(pkgReceiver, "Transfer", "openLocalFile")
	rd := p.Func(pkgReceiver, "Transfer", "receiveData")
	rf1 := p.Func(pkgReceiver, "Transfer", "recvFile1")
	modeF := p.Field(pkgReceiver, "File", "Mode")
	ppF := p.Field(pkgReceiver, "TransferOpts", "PreservePerms")
	if olf == nil || rd == nil || rf1 == nil || modeF == nil || ppF == nil {
		r.Unk(rule, "anchors", "-", "openLocalFile / receiveData / recvFile1 / File.Mode / PreservePerms not found")
		return
	}
	// (1) the substitution
	sub := false
	for _, u := range g.unitFuncs(olf) {
		for _, b := range u.Blocks {
			for _, in := range b.Instrs {
				st, ok := in.(*ssa.Store)
				if !ok {
					continue
				}
				if _, f := fieldOfAddr(st.Addr); f != modeF {
					continue
				}
				perm := false
				if c, ok := stripConv(st.Val).(*ssa.Call); ok && calleeName(c) == "(io/fs.FileMode).Perm" {
					perm = true
				}
				if perm && HasFact(st, false, isFieldLoadPred(ppF)) {
					sub = true
				}
			}
		}
	}
	r.Cond(sub, rule, "openLocalFile: f.Mode = existing Perm() under !PreservePerms", p.Pos(olf.Pos()), "the existing file's permission bits are no longer substituted for the sender's when -p is off")
	// (2) dominance in the recvFile1 unit
	var callO, callR ssa.CallInstruction
	var host *ssa.Function
	for _, u := range g.unitFuncs(rf1) {
		allCalls(u, func(c ssa.CallInstruction) {
			switch c.Common().StaticCallee() {
			case olf:
				callO = c
			case rd:
				callR, host = c, u
			}
		})
	}
	ok := callO != nil && callR != nil && callO.Parent() == host && InstrDominates(callO, callR)
	why := "receiveData can be reached without openLocalFile having run: for such files (e.g. no block checksums because the existing file is empty) the sender's permission bits are applied although -p is off"
	if callO == nil || callR == nil {
		why = "openLocalFile / receiveData are not called from the recvFile1 unit"
	}
	pos := p.Pos(rf1.Pos())
	if callR != nil {
		pos = p.Pos(instrPos(callR))
	}
	r.Cond(ok, rule, "recvFile1: openLocalFile before receiveData, unconditionally", pos, why)
}

// checkWindowNotCached — C16/WINDOW-NOT-CACHED (also a C02 matter): a slice
// returned by a mapStruct method aliases the window buffer, which the next
// call refills in place. It must not be kept in a variable that outlives the
// statement sequence up to the next call: no store of such a slice into a
// captured/addressed local or into a field.
func checkWindowNotCached(p *Prog, r *Report, rule string) {
	r.Rule(rule, "a slice handed out by (*mapStruct).ptr (or any mapStruct method returning []byte) is valid until the next such call, which refills the window in place: no such slice (or a reslice of it) is stored into a captured/addressed local, a field or a global — the rolling checksum would go on reading bytes of another file position, lose synchronisation and find no further match", 0)
	fromWindow := func(v ssa.Value) bool {
		for i := 0; i < 8; i++ {
			switch x := v.(type) {
			case *ssa.Slice:
				v = x.X
				continue
			case *ssa.Phi:
				for _, e := range x.Edges {
					if ex, ok := e.(*ssa.Extract); ok {
						if c, ok := ex.Tuple.(*ssa.Call); ok && isMapStructBytes(c) {
							return true
						}
					}
				}
				return false
			case *ssa.Extract:
				c, ok := x.Tuple.(*ssa.Call)
				return ok && isMapStructBytes(c)
			case *ssa.Call:
				return isMapStructBytes(x)
			}
			return false
		}
		return false
	}
	n := 0
	for _, fn := range p.FuncsInPkg(pkgSender) {
		for _, b := range fn.Blocks {
			for _, in := range b.Instrs {
				st, ok := in.(*ssa.Store)
				if !ok || !isByteSlice(st.Val.Type()) || !fromWindow(st.Val) {
					continue
				}
				// the window field itself is the buffer, not an alias kept by a client
				if _, f := fieldOfAddr(st.Addr); f != nil && f.Name() == "window" {
					continue
				}
				n++
				r.Bad(rule, funcKey(fn)+" keeps a window slice", p.Pos(st.Pos()), "a slice of the read window is stored into a variable that outlives the next ptr call, which refills the buffer in place")
			}
		}
	}
	if n == 0 {
		r.OK(rule, "no window slice is kept", "-", "")
	}
}

func isMapStructBytes(c *ssa.Call) bool {
	f := calleeOf(c)
	if f == nil {
		return false
	}
	if rp, rt := recvTypeName(f); rp != pkgSender || rt != "mapStruct" {
		return false
	}
	res := f.Type().(*types.Signature).Results()
	return res.Len() > 0 && isByteSlice(res.At(0).Type())
}

// checkCleanupRootAlive — C04/CLEANUP-ROOT-ALIVE. Do returns as soon as one of
// its two goroutines fails (waitFor abandons the other one, which is what
// C18/WAITFOR-NONBLOCKING requires), and its callers then close DestRoot. The
// abandoned receiver goroutine removes its temporary file only when the
// connection is closed — through the root its pending file was created with.
// That root must therefore be owned by the function that owns the pending
// file: opened there, and closed by a defer registered before the deferred
// Cleanup (so that it runs after it).
func checkCleanupRootAlive(p *Prog, r *Report) {
	rule := "C04/CLEANUP-ROOT-ALIVE"
	r.Rule(rule, "the temporary file can still be removed after Do has returned and its callers have closed DestRoot: the root a pending file is created with is a handle of its own — the result of (*os.Root).OpenRoot in the function that defers Cleanup — closed by a defer that is registered before the deferred Cleanup (it runs after it)", 1)
	n := 0
	for _, fn := range p.FuncsInPkg(pkgReceiver) {
		var cleanupDefer *ssa.Defer
		for _, b := range fn.Blocks {
			for _, in := range b.Instrs {
				if d, ok := in.(*ssa.Defer); ok {
					if f := calleeOf(d); f != nil && f.Name() == "Cleanup" {
						cleanupDefer = d
					}
					// a deferred literal that calls Cleanup (and keeps its error)
					if mc, ok := d.Call.Value.(*ssa.MakeClosure); ok {
						if lit, ok := mc.Fn.(*ssa.Function); ok {
							allCalls(lit, func(c ssa.CallInstruction) {
								if f := calleeOf(c); f != nil && f.Name() == "Cleanup" {
									cleanupDefer = d
								}
							})
						}
					}
				}
			}
		}
		if cleanupDefer == nil {
			continue
		}
		// the pending file's root argument
		var rootArg ssa.Value
		allCalls(fn, func(c ssa.CallInstruction) {
			if sc := c.Common().StaticCallee(); sc != nil && sc.Name() == "newPendingFile" && len(c.Common().Args) >= 1 {
				rootArg = c.Common().Args[0]
			}
			if calleeName(c) == pkgRenameio+".NewPendingFile" {
				if w := withRootOption(c); w != nil {
					rootArg = w
				}
			}
		})
		if rootArg == nil {
			continue
		}
		n++
		key := funcKey(fn) + " pending file root"
		pos := p.Pos(cleanupDefer.Pos())
		ex, ok := unwrapLocal(rootArg).(*ssa.Extract)
		var oc *ssa.Call
		if ok {
			oc, _ = ex.Tuple.(*ssa.Call)
		}
		if oc == nil || ex.Index != 0 || calleeName(oc) != "(*os.Root).OpenRoot" || oc.Parent() != fn {
			r.Bad(rule, key, pos, "the pending file is created with a root this function does not own (`"+rootArg.String()+"`): when Do has returned and its caller closed that root, the deferred Cleanup of a goroutine that was still receiving cannot remove the temporary file (\"file already closed\")")
			continue
		}
		closed := false
		for _, b := range fn.Blocks {
			for _, in := range b.Instrs {
				if d, ok := in.(*ssa.Defer); ok && calleeName(d) == "(*os.Root).Close" && len(d.Call.Args) > 0 && unwrapLocal(d.Call.Args[0]) == ssa.Value(ex) && InstrDominates(d, cleanupDefer) {
					closed = true
				}
			}
		}
		r.Cond(closed, rule, key, pos, "the function's own root is not closed by a defer registered before the deferred Cleanup")
	}
	if n == 0 {
		r.Unk(rule, "pending files", "-", "no function of package receiver defers Cleanup of a pending file: re-read how temporary files are removed")
	}
}

// checkIDListSymmetry — C14/IDLIST-SYMMETRY: after the file list the sender
// writes a user-name list iff -o and a group-name list iff -g, each ended by an
// int32 0; the receiver must read exactly those lists, in that order.
func checkIDListSymmetry(p *Prog, r *Report) {
	rule := "C14/IDLIST-SYMMETRY"
	r.Rule(rule, "the id lists after the file list are read exactly when they are written: the sender writes the terminator of the user list under PreserveUid() and of the group list under PreserveGid() (in that order); the receiver calls its list reader once under Opts.PreserveUid and once under Opts.PreserveGid (in that order) — a list read that the sender did not write consumes the I/O-error word and the session hangs", 2)
	g := p.ModGraph()
	sfl := p.Func(pkgSender, "Transfer", "SendFileList")
	ril := p.Func(pkgReceiver, "Transfer", "RecvIdList")
	uF := p.Field(pkgReceiver, "TransferOpts", "PreserveUid")
	gF := p.Field(pkgReceiver, "TransferOpts", "PreserveGid")
	if sfl == nil || ril == nil || uF == nil || gF == nil {
		r.Unk(rule, "anchors", "-", "SendFileList / RecvIdList / TransferOpts.PreserveUid|Gid not found")
		return
	}
	type site struct {
		pos   token.Pos
		guard string
	}
	// sender: Buffer.WriteInt32(0) terminators with their option guard
	var snd []site
	for _, u := range g.unitFuncs(sfl) {
		allCalls(u, func(c ssa.CallInstruction) {
			if calleeName(c) != "(*"+pkgWire+".Buffer).WriteInt32" {
				return
			}
			if k, ok := constInt(c.Common().Args[1]); !ok || k != 0 {
				return
			}
			guardAt := func(in ssa.Instruction) string {
				gd := ""
				for _, f := range FactsAt(in) {
					if call, ok := f.Cond.(*ssa.Call); ok && f.Val {
						switch calleeName(call) {
						case "(*" + pkgOpts + ".Options).PreserveUid":
							gd += "U"
						case "(*" + pkgOpts + ".Options).PreserveGid":
							gd += "G"
						}
					}
				}
				return gd
			}
			if gd := guardAt(c); gd != "" {
				snd = append(snd, site{c.Pos(), gd})
				return
			}
			// a per-list helper (writeIdList): one list per call site, guarded there
			nSites := 0
			for _, e := range g.In[u] {
				cs, ok := e.Site.(ssa.CallInstruction)
				if !ok || e.Escape || cs.Common().StaticCallee() != u || isTestSupport(pkgPathOfFunc(e.From)) {
					continue
				}
				nSites++
				snd = append(snd, site{cs.Pos(), guardAt(cs)})
			}
			if nSites == 0 {
				snd = append(snd, site{c.Pos(), ""})
			}
		})
	}
	sort.Slice(snd, func(i, j int) bool { return snd[i].pos < snd[j].pos })
	// receiver: calls of the list reader (a function of the unit that reads ids
	// in a loop until 0 — directly or through a read-one-entry helper) with
	// their guard; a call that sits in a per-list helper (recvIdMapping(enabled,
	// …)) is attributed to that helper's call sites, where a fact about a
	// boolean parameter becomes a fact about the argument
	unit := g.unitFuncs(ril)
	inUnit := map[*ssa.Function]bool{}
	for _, u := range unit {
		inUnit[u] = true
	}
	var readsInt func(h *ssa.Function, depth int) bool
	readsInt = func(h *ssa.Function, depth int) bool {
		found := false
		allCalls(h, func(hc ssa.CallInstruction) {
			if calleeName(hc) == "(*"+pkgWire+".Conn).ReadInt32" {
				found = true
			}
			if sc := hc.Common().StaticCallee(); sc != nil && inUnit[sc] && sc != h && depth < 2 && readsInt(sc, depth+1) {
				found = true
			}
		})
		return found
	}
	isListReader := func(h *ssa.Function) bool {
		if h == nil || h == ril || h.Blocks == nil || !inUnit[h] {
			return false
		}
		loops := naturalLoops(h)
		res := false
		allCalls(h, func(hc ssa.CallInstruction) {
			if len(loopsContaining(loops, hc.Block())) == 0 {
				return
			}
			if calleeName(hc) == "(*"+pkgWire+".Conn).ReadInt32" {
				res = true
			}
			if sc := hc.Common().StaticCallee(); sc != nil && inUnit[sc] && sc != h && readsInt(sc, 0) {
				res = true
			}
		})
		return res
	}
	letters := func(fs []Fact) string {
		gd := ""
		for _, f := range fs {
			if !f.Val {
				continue
			}
			if isFieldLoad(f.Cond, uF) {
				gd += "U"
			}
			if isFieldLoad(f.Cond, gF) {
				gd += "G"
			}
		}
		return gd
	}
	var rcv []site
	var attribute func(c ssa.CallInstruction, depth int)
	attribute = func(c ssa.CallInstruction, depth int) {
		u := c.Parent()
		gd := letters(FactsAt(c))
		if gd != "" || u == ril || depth >= 2 {
			rcv = append(rcv, site{c.Pos(), gd})
			return
		}
		nSites := 0
		for _, e := range g.In[u] {
			cs, ok := e.Site.(ssa.CallInstruction)
			if !ok || e.Escape || cs.Common().StaticCallee() != u || isTestSupport(pkgPathOfFunc(e.From)) {
				continue
			}
			nSites++
			// facts about u's boolean parameters, as facts about this site's arguments
			var tr []Fact
			for _, lf := range expandFacts(FactsAtBlock(c.Block())) {
				prm, isP := lf.Cond.(*ssa.Parameter)
				if !isP || prm.Parent() != u {
					continue
				}
				for i, pp := range u.Params {
					if pp == prm && i < len(cs.Common().Args) {
						tr = append(tr, Fact{Cond: cs.Common().Args[i], Val: lf.Val})
					}
				}
			}
			if l := letters(tr); l != "" {
				rcv = append(rcv, site{cs.Pos(), l})
			} else {
				attribute(cs, depth+1)
			}
		}
		if nSites == 0 {
			rcv = append(rcv, site{c.Pos(), ""})
		}
	}
	for _, u := range unit {
		allCalls(u, func(c ssa.CallInstruction) {
			if isListReader(c.Common().StaticCallee()) {
				attribute(c, 0)
			}
		})
	}
	sort.Slice(rcv, func(i, j int) bool { return rcv[i].pos < rcv[j].pos })
	seq := func(ss []site) string {
		out := ""
		for _, s := range ss {
			if s.guard == "" {
				out += "[unconditional]"
			} else {
				out += "[" + s.guard + "]"
			}
		}
		return out
	}
	r.Cond(seq(snd) == "[U][G]", rule, "sender writes user list iff -o, then group list iff -g", p.Pos(sfl.Pos()), "the sender's list terminators are guarded "+seq(snd)+", expected [U][G]")
	r.Cond(seq(rcv) == "[U][G]", rule, "receiver reads user list iff -o, then group list iff -g", p.Pos(ril.Pos()), "the receiver's list reads are guarded "+seq(rcv)+", expected [U][G]: with exactly one of -o/-g the two ends disagree about what follows the file list")
}
