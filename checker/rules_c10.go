package main

import (
	"fmt"
	"strings"

	"golang.org/x/tools/go/ssa"
)

func init() { register("C10", checkC10) }

// receiverScope: production functions of package receiver (incl. literals).
func inPkg(path string) func(*ssa.Function) bool {
	return func(fn *ssa.Function) bool { return pkgPathOfFunc(fn) == path }
}

// entriesOf: in-scope functions with no in-scope incoming edge, plus exported ones.
func entriesOf(g *ModGraph, funcs []*ssa.Function, scope func(*ssa.Function) bool) []*ssa.Function {
	var out []*ssa.Function
	for _, fn := range funcs {
		if !scope(fn) {
			continue
		}
		hasIn := false
		for _, e := range g.In[fn] {
			if scope(e.From) && e.From != fn {
				hasIn = true
			}
		}
		exported := fn.Parent() == nil && fn.Object() != nil && fn.Object().Exported()
		if !hasIn || exported {
			out = append(out, fn)
		}
	}
	return out
}

func checkC10(p *Prog, r *Report) {
	g := p.ModGraph()
	dry := p.Field(pkgReceiver, "TransferOpts", "DryRun")
	if dry == nil {
		r.Fatalf("anchor unresolved: receiver.TransferOpts.DryRun")
		return
	}
	recvFuncs := p.FuncsInPkg(pkgReceiver)
	for _, fn := range recvFuncs {
		r.FuncsSeen[funcKey(fn)] = true
	}
	scope := inPkg(pkgReceiver)
	dryFalse := func(in ssa.Instruction) bool { return HasFact(in, false, isFieldLoadPred(dry)) }

	// ---- C10/DRYGUARD ----
	r.Rule("C10/DRYGUARD", "every destination-mutating call in package receiver (mutating *os.Root methods, renameio, unix.Mk*/Bind, ambient os mutators) is dominated by the false edge of a load of TransferOpts.DryRun, locally or along every call chain from every package entry (lifted summaries; closures evaluated at creation and call sites)", 12)
	spec := GuardSpec{InScope: scope, IsSink: mutatorLabel, Guarded: dryFalse}
	sinks, needs := g.Lift(spec, recvFuncs)
	entries := entriesOf(g, recvFuncs, scope)
	for _, s := range sinks {
		key := fmt.Sprintf("%s → %s", funcKey(s.Fn), s.Label)
		var bad []string
		for _, e := range entries {
			if ch, ok := needs[e][s.Instr]; ok {
				bad = append(bad, strings.Join(ch, " → "))
			}
		}
		if len(bad) == 0 {
			how := "guarded on every chain"
			if dryFalse(s.Instr) {
				how = "locally dominated by !DryRun"
			}
			r.OK("C10/DRYGUARD", key, p.Pos(instrPos(s.Instr)), how)
		} else {
			r.Bad("C10/DRYGUARD", key, p.Pos(instrPos(s.Instr)), "reachable without a dominating DryRun==false test via: "+bad[0])
		}
	}

	// ---- C10/GENERATOR-NO-SUMS ----
	r.Rule("C10/GENERATOR-NO-SUMS", "in package receiver, block checksums (generateAndSendSums, (*SumHead).WriteTo) are produced only under DryRun==false on every chain", 2)
	gen := anchorFunc(p, r, pkgReceiver, "Transfer", "generateAndSendSums")
	isSum := func(c ssa.CallInstruction) (string, bool) {
		n := calleeName(c)
		if gen != nil && c.Common().StaticCallee() == gen {
			return "generateAndSendSums", true
		}
		if n == "(*"+modPath+".SumHead).WriteTo" {
			return "(*SumHead).WriteTo", true
		}
		return "", false
	}
	sinks2, needs2 := g.Lift(GuardSpec{InScope: scope, IsSink: isSum, Guarded: dryFalse}, recvFuncs)
	for _, s := range sinks2 {
		key := fmt.Sprintf("%s → %s", funcKey(s.Fn), s.Label)
		var bad string
		for _, e := range entries {
			if ch, ok := needs2[e][s.Instr]; ok {
				bad = strings.Join(ch, " → ")
				break
			}
		}
		r.Cond(bad == "", "C10/GENERATOR-NO-SUMS", key, p.Pos(instrPos(s.Instr)), "unguarded chain: "+bad)
	}

	// ---- C10/FLAG-STABLE ----
	r.Rule("C10/FLAG-STABLE", "TransferOpts.DryRun is stored only while building a composite literal from (*Options).DryRun(), never mutated later", 2)
	dryAcc := "(*" + pkgOpts + ".Options).DryRun"
	for _, st := range storesToField(p, dry) {
		if isTestSupport(pkgPathOfFunc(st.Parent())) {
			continue
		}
		key := funcKey(st.Parent()) + " store TransferOpts.DryRun"
		ok := isFreshAllocBase(st.Addr) && isCallTo(st.Val, dryAcc)
		r.Cond(ok, "C10/FLAG-STABLE", key, p.Pos(st.Pos()), "store must initialise a fresh literal with opts.DryRun()")
	}

	// ---- C10/NO-DATA (sender) ----
	r.Rule("C10/NO-DATA", "in sender.(*Transfer).SendFiles and the sender functions it is split into, receiveSums/sendFile/hashSearch are dominated (locally or at every call site) by the false outcome of st.Opts.DryRun(); under the true outcome the only call is Conn.WriteInt32 of the file index read from the connection", 3)
	sf := anchorFunc(p, r, pkgSender, "Transfer", "SendFiles")
	if sf != nil {
		isDry := isCallPred(dryAcc)
		want := map[string]bool{"receiveSums": false, "sendFile": false, "hashSearch": false}
		isIdx := func(v ssa.Value) bool {
			roots := g.paramRoots(v, 0)
			for _, root := range roots {
				rc, i := extractOf(root)
				if rc == nil || i != 0 || calleeName(rc) != "(*"+pkgWire+".Conn).ReadInt32" {
					return false
				}
			}
			return len(roots) > 0
		}
		for _, fn := range g.unitFuncs(sf) {
			allCalls(fn, func(c ssa.CallInstruction) {
				sc := c.Common().StaticCallee()
				if sc != nil && pkgPathOfFunc(sc) == pkgSender && sc.Parent() == nil {
					if _, isData := want[sc.Name()]; isData {
						want[sc.Name()] = true
						r.Cond(HasFact(c, false, isDry), "C10/NO-DATA", shortFn(fn)+" → "+sc.Name(), p.Pos(instrPos(c)), "data-path call not dominated by DryRun()==false")
					}
				}
				// calls under DryRun()==true
				if HasFact(c, true, isDry) {
					n := calleeName(c)
					ok := n == "(*"+pkgWire+".Conn).WriteInt32" && len(c.Common().Args) == 2 && isIdx(c.Common().Args[1])
					r.Cond(ok, "C10/NO-DATA", shortFn(fn)+"[dry-run branch] call "+n, p.Pos(instrPos(c)), "only WriteInt32(fileIndex) may be called on the dry-run edge")
				}
			})
		}
		for n, seen := range want {
			if !seen {
				r.Fatalf("C10/NO-DATA: the SendFiles unit no longer calls %s; re-read the data path", n)
			}
		}
	}

	// ---- C10/FLAG-WIRED ----
	r.Rule("C10/FLAG-WIRED", "ServerOptions forwards -n under DryRun(): an append of \"n\" to the flag string dominated by the true edge of DryRun()", 1)
	so := anchorFunc(p, r, pkgOpts, "Options", "ServerOptions")
	if so != nil {
		sub := NewReport(r.Prop, r.Tier) // guard diagnostics of the emission walk belong to C14
		ems, _ := collectEmissions(p, sub, so)
		found := false
		for _, e := range ems {
			if e.token != "-n" {
				continue
			}
			found = true
			ok := false
			for _, f := range e.guard {
				if c, isC := f.Cond.(*ssa.Call); isC && calleeName(c) == dryAcc && f.Val {
					ok = true
				}
			}
			r.Cond(ok && len(e.guard) == 1, "C10/FLAG-WIRED", "ServerOptions += \"n\"", p.Pos(instrPos(e.in)), "\"n\" must be appended exactly when DryRun()")
		}
		if !found {
			r.Bad("C10/FLAG-WIRED", "ServerOptions += \"n\"", p.Pos(so.Pos()), "no emission of the dry-run flag found")
		}
	}

	r.Assume("creation of the destination root itself (os.MkdirAll(dest) in client/daemon set-up) is outside the statement (\"inside an existing destination\")")
	r.Assume("foreign code calls only function values and interface methods it was handed (escape-edge call graph)")
	r.Uncovered("metadata side effects done by the kernel (atime); whether the session runs to completion")
}
