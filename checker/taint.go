package main

import (
	"fmt"
	"go/token"
	"go/types"
	"sort"

	"golang.org/x/tools/go/ssa"
)

// Peer-integer taint (DESIGN C08/TAINTED-BOUNDS): integers read from the wire
// must be bounded by dominating comparisons before they index, slice or size
// a slice.

type taintState struct {
	p        *Prog
	g        *ModGraph
	scope    map[*ssa.Function]bool
	tainted  map[ssa.Value]bool
	retTaint map[*ssa.Function]map[int]bool
	cell     map[*ssa.Alloc]bool
}

func isWireRead(c ssa.CallInstruction) bool {
	switch calleeName(c) {
	case "(*" + pkgWire + ".Conn).ReadByte", "(*" + pkgWire + ".Conn).ReadInt32", "(*" + pkgWire + ".Conn).ReadInt64":
		return true
	}
	return false
}

func isIntType(t types.Type) bool {
	b, ok := t.Underlying().(*types.Basic)
	return ok && b.Info()&types.IsInteger != 0
}

func isUnsigned(t types.Type) bool {
	b, ok := t.Underlying().(*types.Basic)
	return ok && b.Info()&types.IsUnsigned != 0
}

func (t *taintState) mark(v ssa.Value) bool {
	if v == nil || t.tainted[v] {
		return false
	}
	t.tainted[v] = true
	return true
}

func (t *taintState) run(funcs []*ssa.Function) {
	for changed := true; changed; {
		changed = false
		for _, fn := range funcs {
			// parameters from callers
			for _, e := range t.g.In[fn] {
				c, ok := e.Site.(ssa.CallInstruction)
				if !ok || e.Escape || c.Common().IsInvoke() || c.Common().StaticCallee() != fn {
					continue
				}
				for i, a := range c.Common().Args {
					if i < len(fn.Params) && t.tainted[a] && isIntType(fn.Params[i].Type()) {
						if t.mark(fn.Params[i]) {
							changed = true
						}
					}
				}
			}
			for _, b := range fn.Blocks {
				for _, in := range b.Instrs {
					switch x := in.(type) {
					case *ssa.Extract:
						if c, ok := x.Tuple.(*ssa.Call); ok {
							if isWireRead(c) && x.Index == 0 {
								changed = t.mark(x) || changed
							} else if sc := c.Common().StaticCallee(); sc != nil && t.retTaint[sc][x.Index] {
								changed = t.mark(x) || changed
							}
						}
					case *ssa.Call:
						if sc := x.Common().StaticCallee(); sc != nil && t.retTaint[sc][0] && x.Common().Signature().Results().Len() == 1 {
							changed = t.mark(x) || changed
						}
						// min/max builtins
						if bi, ok := x.Common().Value.(*ssa.Builtin); ok && (bi.Name() == "min" || bi.Name() == "max") {
							for _, a := range x.Common().Args {
								if t.tainted[a] {
									changed = t.mark(x) || changed
								}
							}
						}
						// binary.Read(r, order, &local): local becomes tainted
						if calleeName(x) == "encoding/binary.Read" && len(x.Common().Args) == 3 {
							if a, ok := stripConv(x.Common().Args[2]).(*ssa.Alloc); ok && !t.cell[a] {
								t.cell[a] = true
								changed = true
							}
						}
					case *ssa.Convert:
						if t.tainted[x.X] && isIntType(x.Type()) {
							changed = t.mark(x) || changed
						}
					case *ssa.ChangeType:
						if t.tainted[x.X] {
							changed = t.mark(x) || changed
						}
					case *ssa.BinOp:
						if (t.tainted[x.X] || t.tainted[x.Y]) && isIntType(x.Type()) {
							changed = t.mark(x) || changed
						}
					case *ssa.UnOp:
						if x.Op == token.SUB && t.tainted[x.X] {
							changed = t.mark(x) || changed
						}
						if x.Op == token.MUL {
							if a, ok := x.X.(*ssa.Alloc); ok && t.cell[a] && isIntType(x.Type()) {
								changed = t.mark(x) || changed
							}
						}
					case *ssa.Phi:
						for _, e := range x.Edges {
							if t.tainted[e] {
								changed = t.mark(x) || changed
							}
						}
					case *ssa.Store:
						if a, ok := x.Addr.(*ssa.Alloc); ok && t.tainted[x.Val] && !t.cell[a] {
							t.cell[a] = true
							changed = true
						}
					case *ssa.Return:
						for i, rv := range retResults(x) {
							if t.tainted[rv] || t.tainted[x.Results[i]] {
								if t.retTaint[fn] == nil {
									t.retTaint[fn] = map[int]bool{}
								}
								if !t.retTaint[fn][i] {
									t.retTaint[fn][i] = true
									changed = true
								}
							}
						}
					}
				}
			}
		}
	}
}

// cmpFacts returns normalised comparisons "v OP other" (v on the left) that
// hold at `at` for values equal to v modulo integer conversions.
type cmpFact struct {
	op    token.Token
	other ssa.Value
}

func sameCore(a, b ssa.Value) bool { return stripConv(a) == stripConv(b) }

func negOp(op token.Token) token.Token {
	switch op {
	case token.LSS:
		return token.GEQ
	case token.LEQ:
		return token.GTR
	case token.GTR:
		return token.LEQ
	case token.GEQ:
		return token.LSS
	case token.EQL:
		return token.NEQ
	case token.NEQ:
		return token.EQL
	}
	return token.ILLEGAL
}

func swapOp(op token.Token) token.Token {
	switch op {
	case token.LSS:
		return token.GTR
	case token.LEQ:
		return token.GEQ
	case token.GTR:
		return token.LSS
	case token.GEQ:
		return token.LEQ
	}
	return op
}

func cmpFactsFor(v ssa.Value, at ssa.Instruction) []cmpFact {
	var out []cmpFact
	for _, f := range FactsAt(at) {
		b, ok := f.Cond.(*ssa.BinOp)
		if !ok {
			continue
		}
		op := b.Op
		switch op {
		case token.LSS, token.LEQ, token.GTR, token.GEQ, token.EQL, token.NEQ:
		default:
			continue
		}
		var other ssa.Value
		if sameCore(b.X, v) {
			other = b.Y
		} else if sameCore(b.Y, v) {
			other = b.X
			op = swapOp(op)
		} else {
			continue
		}
		if !f.Val {
			op = negOp(op)
		}
		out = append(out, cmpFact{op, other})
	}
	return out
}

func (t *taintState) lower(v ssa.Value, at ssa.Instruction, depth int) bool {
	if depth > 8 {
		return false
	}
	if !t.tainted[v] {
		return true
	}
	if isUnsigned(v.Type()) {
		return true
	}
	switch x := v.(type) {
	case *ssa.Const:
		k, ok := constInt(x)
		return ok && k >= 0
	case *ssa.Convert:
		if isUnsigned(x.X.Type()) {
			if sb, ok := x.X.Type().Underlying().(*types.Basic); ok {
				if db, ok := x.Type().Underlying().(*types.Basic); ok && sizeofBasic(sb) < sizeofBasic(db) {
					return true // zero-extension of a narrower unsigned value
				}
			}
		}
		if t.lower(x.X, at, depth+1) && !narrowing(x) {
			return true
		}
	case *ssa.BinOp:
		switch x.Op {
		case token.ADD, token.MUL:
			if t.lower(x.X, at, depth+1) && t.lower(x.Y, at, depth+1) {
				return true
			}
		case token.AND:
			if k, ok := constInt(x.Y); ok && k >= 0 {
				return true
			}
		case token.REM:
			// sign follows the dividend
			if t.lower(x.X, at, depth+1) {
				return true
			}
		}
	case *ssa.Phi:
		all := len(x.Edges) > 0
		for _, e := range x.Edges {
			if !t.lower(e, at, depth+1) {
				all = false
			}
		}
		if all {
			return true
		}
	}
	for _, f := range cmpFactsFor(v, at) {
		k, isK := constInt(f.other)
		switch f.op {
		case token.GEQ:
			if isK && k >= 0 {
				return true
			}
		case token.GTR:
			if isK && k >= -1 {
				return true
			}
		case token.EQL:
			if isK && k >= 0 {
				return true
			}
		}
	}
	return false
}

func sizeofBasic(b *types.Basic) int {
	switch b.Kind() {
	case types.Int8, types.Uint8:
		return 1
	case types.Int16, types.Uint16:
		return 2
	case types.Int32, types.Uint32:
		return 4
	}
	return 8
}

func narrowing(c *ssa.Convert) bool {
	sb, ok1 := c.X.Type().Underlying().(*types.Basic)
	db, ok2 := c.Type().Underlying().(*types.Basic)
	if !ok1 || !ok2 {
		return false
	}
	// int/uint are at least 32 bits: int32→int is not narrowing, int64→int may be (386)
	if sb.Kind() == types.Int64 || sb.Kind() == types.Uint64 {
		return db.Kind() != types.Int64 && db.Kind() != types.Uint64
	}
	return sizeofBasic(sb) > sizeofBasic(db) && !(sizeofBasic(sb) == 8 && (sb.Kind() == types.Int || sb.Kind() == types.Uint) && sizeofBasic(db) == 4)
}

func (t *taintState) upper(v ssa.Value, at ssa.Instruction, depth int) bool {
	if depth > 8 {
		return false
	}
	if !t.tainted[v] {
		return true
	}
	switch x := v.(type) {
	case *ssa.Const:
		return true
	case *ssa.Convert:
		if t.upper(x.X, at, depth+1) {
			return true
		}
	case *ssa.BinOp:
		switch x.Op {
		case token.ADD:
			if t.upper(x.X, at, depth+1) && t.upper(x.Y, at, depth+1) {
				return true
			}
		case token.AND:
			if _, ok := constInt(x.Y); ok {
				return true
			}
		}
	case *ssa.Phi:
		all := len(x.Edges) > 0
		for _, e := range x.Edges {
			if !t.upper(e, at, depth+1) {
				all = false
			}
		}
		if all {
			return true
		}
	}
	for _, f := range cmpFactsFor(v, at) {
		switch f.op {
		case token.LSS, token.LEQ, token.EQL:
			return true
		}
	}
	return false
}

// checkTaintedBounds emits one obligation per sink whose operand is tainted.
func checkTaintedBounds(p *Prog, r *Report, entries []*ssa.Function) {
	rule := "C08/TAINTED-BOUNDS"
	r.Rule(rule, "every integer read from the wire (Conn.ReadByte/ReadInt32/ReadInt64, binary.Read into a local; propagated through conversions, arithmetic, min/max, phis, locals, parameters and results) that reaches a slice/array/string index, a slice bound or a make length is bounded by dominating comparisons: below (>=0) and, for indices and slice bounds, above", 6)
	g := p.ModGraph()
	reach := g.Reach(entries, nil)
	var funcs []*ssa.Function
	for fn := range reach {
		if isModFunc(fn) && fn.Blocks != nil && !isTestSupport(pkgPathOfFunc(fn)) {
			funcs = append(funcs, fn)
		}
	}
	// the SumHead reader is reachable through its address-taken receiver; include the root package
	sort.Slice(funcs, func(i, j int) bool { return funcKey(funcs[i]) < funcKey(funcs[j]) })
	t := &taintState{p: p, g: g, scope: map[*ssa.Function]bool{}, tainted: map[ssa.Value]bool{}, retTaint: map[*ssa.Function]map[int]bool{}, cell: map[*ssa.Alloc]bool{}}
	t.run(funcs)
	nSinks := 0
	for _, fn := range funcs {
		for _, b := range fn.Blocks {
			for _, in := range b.Instrs {
				type operand struct {
					v    ssa.Value
					kind string
					idx  bool
				}
				var ops []operand
				var obj ssa.Value
				switch x := in.(type) {
				case *ssa.IndexAddr:
					if _, isMap := x.X.Type().Underlying().(*types.Map); !isMap {
						ops = append(ops, operand{x.Index, "index", true})
						obj = x.X
					}
				case *ssa.Index:
					ops = append(ops, operand{x.Index, "index", true})
					obj = x.X
				case *ssa.Lookup:
					if _, isMap := x.X.Type().Underlying().(*types.Map); !isMap {
						ops = append(ops, operand{x.Index, "index", true})
					}
				case *ssa.Slice:
					obj = x.X
					if x.Low != nil {
						ops = append(ops, operand{x.Low, "slice-low", true})
					}
					if x.High != nil {
						ops = append(ops, operand{x.High, "slice-high", true})
					}
					if x.Max != nil {
						ops = append(ops, operand{x.Max, "slice-max", true})
					}
				case *ssa.MakeSlice:
					ops = append(ops, operand{x.Len, "make-len", false})
					if x.Cap != x.Len {
						ops = append(ops, operand{x.Cap, "make-cap", false})
					}
				}
				for _, o := range ops {
					if !t.tainted[o.v] {
						continue
					}
					nSinks++
					key := fmt.Sprintf("%s %s", funcKey(fn), o.kind)
					pos := p.Pos(instrPos(in))
					lo := t.lower(o.v, in, 0)
					hi := !o.idx || t.upper(o.v, in, 0)
					// sum rule: X[lo:] where X = make(T, lo+other) and other is bounded below
					if o.kind == "slice-low" && lo && !hi {
						if mk, ok := obj.(*ssa.MakeSlice); ok {
							if add, ok := stripConv(mk.Len).(*ssa.BinOp); ok && add.Op == token.ADD {
								if sameCore(add.X, o.v) && t.lower(add.Y, in, 0) || sameCore(add.Y, o.v) && t.lower(add.X, in, 0) {
									hi = true
								}
							}
						}
					}
					switch {
					case lo && hi:
						r.OK(rule, key, pos, "")
					case !lo && !hi:
						r.Bad(rule, key, pos, "peer-controlled integer reaches this "+o.kind+" without a dominating lower or upper bound (negative or oversized values panic)")
					case !lo:
						r.Bad(rule, key, pos, "peer-controlled integer reaches this "+o.kind+" without a dominating lower bound (a negative value panics)")
					default:
						r.Bad(rule, key, pos, "peer-controlled integer reaches this "+o.kind+" without a dominating upper bound (an oversized value panics)")
					}
				}
			}
		}
	}
	checkIntDivision(p, r, funcs)
	checkPtrNonEmpty(p, r)
	r.Info("C08/TAINTED-BOUNDS: %d tainted sink operands in %d functions, %d tainted values [%s]", nSinks, len(funcs), len(t.tainted), p.Config)

	// SumHead fields are bounded by (*SumHead).ReadFrom itself
	rule2 := "C08/SUMHEAD-VALIDATED"
	r.Rule(rule2, "(*SumHead).ReadFrom rejects negative ChecksumCount and out-of-range BlockLength, ChecksumLength, RemainderLength before returning nil, so SumHead fields filled from the wire are bounded wherever they are used", 4)
	rf := anchorFunc(p, r, modPath, "SumHead", "ReadFrom")
	if rf != nil {
		need := map[string]struct{ lo, hi bool }{"ChecksumCount": {true, false}, "BlockLength": {true, true}, "ChecksumLength": {true, true}, "RemainderLength": {true, true}}
		var okRet *ssa.Return
		for _, b := range rf.Blocks {
			if ret, ok := lastInstr(b).(*ssa.Return); ok && isNilConst(retResults(ret)[0]) {
				okRet = ret
			}
		}
		for _, name := range []string{"ChecksumCount", "BlockLength", "ChecksumLength", "RemainderLength"} {
			fld := p.Field(modPath, "SumHead", name)
			gotLo, gotHi := false, false
			if okRet != nil && fld != nil {
				var cmps []cmpFact
				for _, f := range FactsAt(okRet) {
					bo, ok := f.Cond.(*ssa.BinOp)
					if !ok || !isFieldLoad(bo.X, fld) {
						continue
					}
					op := bo.Op
					if !f.Val {
						op = negOp(op)
					}
					cmps = append(cmps, cmpFact{op, bo.Y})
				}
				// the field may be filled from a helper that reads and validates it
				for _, st := range storesToField(p, fld) {
					if st.Parent() == rf && InstrDominates(st, okRet) {
						cmps = append(cmps, cmpFactsVia(st.Val, okRet)...)
					}
				}
				for _, c := range cmps {
					if k, isK := constInt(c.other); (c.op == token.GEQ && isK && k >= 0) || (c.op == token.GTR && isK && k >= -1) {
						gotLo = true
					}
					if c.op == token.LEQ || c.op == token.LSS {
						gotHi = true
					}
				}
			}
			n := need[name]
			r.Cond(okRet != nil && (gotLo || !n.lo) && (gotHi || !n.hi), rule2, "ReadFrom validates "+name, p.Pos(rf.Pos()), "nil-error return not dominated by the range test(s) of this field")
		}
	}
}

// checkIntDivision: integer division/modulo by a divisor that is not a
// non-zero constant needs a dominating non-zero test (or a max(…, positive
// constant) provenance): a zero divisor panics and takes the process down.
func checkIntDivision(p *Prog, r *Report, funcs []*ssa.Function) {
	rule := "C08/INT-DIVISION"
	r.Rule(rule, "in session-reachable module code every integer / or % whose divisor is not a non-zero constant is dominated by a test that excludes zero, or its divisor is max(…, positive constant) / a positive-constant-offset of a non-negative length", 2)
	for _, fn := range funcs {
		for _, b := range fn.Blocks {
			for _, in := range b.Instrs {
				bo, ok := in.(*ssa.BinOp)
				if !ok || (bo.Op != token.QUO && bo.Op != token.REM) || !isIntType(bo.Type()) {
					continue
				}
				if k, isK := constInt(bo.Y); isK {
					if k == 0 {
						r.Bad(rule, funcKey(fn)+" divides by constant zero", p.Pos(bo.Pos()), "")
					}
					continue
				}
				ok2 := nonZeroByConstruction(bo.Y, 0)
				for _, f := range cmpFactsFor(bo.Y, bo) {
					k, isK := constInt(f.other)
					switch f.op {
					case token.GTR:
						if isK && k >= 0 {
							ok2 = true
						}
					case token.GEQ:
						if isK && k >= 1 {
							ok2 = true
						}
					case token.NEQ:
						if isK && k == 0 {
							ok2 = true
						}
					}
				}
				r.Cond(ok2, rule, funcKey(fn)+" integer "+bo.Op.String(), p.Pos(bo.Pos()), "divisor may be zero (no dominating non-zero test): a peer- or file-controlled zero panics the process")
			}
		}
	}
}

func nonZeroByConstruction(v ssa.Value, depth int) bool {
	if depth > 6 {
		return false
	}
	v = stripConv(v)
	switch x := v.(type) {
	case *ssa.Const:
		k, ok := constInt(x)
		return ok && k != 0
	case *ssa.Call:
		if bi, ok := x.Common().Value.(*ssa.Builtin); ok && bi.Name() == "max" {
			for _, a := range x.Common().Args {
				if k, ok := constInt(a); ok && k > 0 {
					return true
				}
			}
		}
		// a module helper every return of which is non-zero by construction
		if h := x.Common().StaticCallee(); h != nil && h.Blocks != nil && isModFunc(h) && h.Signature.Results().Len() == 1 {
			n := 0
			for _, hb := range h.Blocks {
				if ret, ok := lastInstr(hb).(*ssa.Return); ok {
					n++
					if !nonZeroByConstruction(retResults(ret)[0], depth+1) {
						return false
					}
				}
			}
			return n > 0
		}
	case *ssa.Phi:
		for _, e := range x.Edges {
			if !nonZeroByConstruction(e, depth+1) {
				return false
			}
		}
		return len(x.Edges) > 0
	case *ssa.UnOp:
		if u := unwrapLocal(x); u != ssa.Value(x) {
			return nonZeroByConstruction(u, depth+1)
		}
		// field of a struct built locally from a max(...) value
		if _, f := loadedField(x); f != nil {
			return false
		}
	case *ssa.Field:
		return false
	}
	return false
}

// checkPtrNonEmpty: (*mapStruct).ptr returns a nil slice for a zero length;
// indexing its result needs a dominating emptiness test.
func checkPtrNonEmpty(p *Prog, r *Report) {
	rule := "C08/PTR-NONEMPTY"
	r.Rule(rule, "(*sender.mapStruct).ptr returns nil for a zero length (a peer-supplied block length of 0, or checksums for an empty file, lead there): every element access on a slice obtained from it is dominated by a test that the slice is not empty", 2)
	fromPtr := func(v ssa.Value) bool {
		for i := 0; i < 6; i++ {
			switch x := v.(type) {
			case *ssa.Slice:
				v = x.X
				continue
			case *ssa.Extract:
				c, ok := x.Tuple.(*ssa.Call)
				return ok && x.Index == 0 && calleeName(c) == "(*"+pkgSender+".mapStruct).ptr"
			}
			return false
		}
		return false
	}
	g := p.ModGraph()
	for _, fn := range p.FuncsInPkg(pkgSender) {
		for _, b := range fn.Blocks {
			for _, in := range b.Instrs {
				ia, ok := in.(*ssa.IndexAddr)
				if !ok {
					continue
				}
				from := fromPtr(ia.X)
				if !from {
					// a parameter bound to a window slice at some call site
					base := ia.X
					for i := 0; i < 4; i++ {
						if sl, ok := base.(*ssa.Slice); ok {
							base = sl.X
						}
					}
					if _, isP := base.(*ssa.Parameter); isP {
						for _, root := range g.paramRoots(base, 0) {
							if fromPtr(root) {
								from = true
							}
						}
					}
				}
				if !from {
					continue
				}
				nonEmpty, _ := minLenEstablished(ia.X, 1, ia, 0)
				r.Cond(nonEmpty, rule, funcKey(fn)+" indexes a window slice", p.Pos(ia.Pos()), "element access on the result of ptr() without a dominating len(...) != 0 test: an empty file with checksums (or block length 0) from the peer panics the sender")
			}
		}
	}
}
