package main

import (
	"go/types"
	"strings"

	"golang.org/x/tools/go/ssa"
)

// Ambient-authority file APIs (DESIGN A3): calls that resolve a path against
// the process's ambient root/cwd instead of an *os.Root handle.

var pathParamNames = map[string]bool{
	"name": true, "path": true, "dir": true, "oldpath": true, "newpath": true,
	"oldname": true, "newname": true, "from": true, "to": true, "target": true,
	"source": true, "link": true, "linkpath": true, "file": true, "filename": true,
	"root": true, "pattern": true, "fn": true, "oldpa": true,
}

var osNotPath = map[string]bool{ // string params that are not paths
	"NewFile": true, "Getenv": true, "Setenv": true, "Unsetenv": true, "LookupEnv": true,
	"ExpandEnv": true, "Expand": true, "IsPathSeparator": true, "NewSyscallError": true,
}

var filepathAmbient = map[string]bool{"Walk": true, "WalkDir": true, "Glob": true, "EvalSymlinks": true, "Abs": true}

func hasStringParam(sig *types.Signature, names map[string]bool) bool {
	for i := 0; i < sig.Params().Len(); i++ {
		v := sig.Params().At(i)
		if b, ok := v.Type().Underlying().(*types.Basic); ok && b.Kind() == types.String {
			if names == nil || names[strings.ToLower(v.Name())] {
				return true
			}
		}
	}
	return false
}

func hasPathlikeParam(sig *types.Signature) bool {
	for i := 0; i < sig.Params().Len(); i++ {
		t := sig.Params().At(i).Type()
		switch u := t.Underlying().(type) {
		case *types.Basic:
			if u.Kind() == types.String {
				return true
			}
		case *types.Pointer:
			if b, ok := u.Elem().Underlying().(*types.Basic); ok && b.Kind() == types.Byte {
				return true
			}
		case *types.Interface:
			if n := namedOf(t); n != nil && strings.HasPrefix(n.Obj().Name(), "Sockaddr") {
				return true
			}
		}
		if n := namedOf(t); n != nil && strings.HasPrefix(n.Obj().Name(), "Sockaddr") {
			return true
		}
	}
	return false
}

// ambientLabel classifies a call as an ambient-authority file API use.
func ambientLabel(c ssa.CallInstruction) (string, bool) {
	f := calleeOf(c)
	if f == nil || f.Pkg() == nil {
		return "", false
	}
	sig := f.Type().(*types.Signature)
	pkg := f.Pkg().Path()
	_, rt := recvTypeName(f)
	name := f.Name()
	switch pkg {
	case "os":
		if rt == "" && !osNotPath[name] && (hasStringParam(sig, pathParamNames) || name == "StartProcess" || name == "Chdir") {
			return "os." + name, true
		}
		if rt == "File" && name == "Chdir" {
			return "(*os.File).Chdir", true
		}
	case "path/filepath":
		if filepathAmbient[name] {
			return "filepath." + name, true
		}
	case "io/ioutil":
		if hasStringParam(sig, nil) {
			return "ioutil." + name, true
		}
	case "syscall", pkgUnix:
		if rt == "" && hasPathlikeParam(sig) {
			short := "unix."
			if pkg == "syscall" {
				short = "syscall."
			}
			return short + name, true
		}
	case "os/exec":
		return "exec." + name, true
	case pkgRenameio:
		if rt == "" {
			switch name {
			case "TempFile", "WriteFile", "Symlink", "TempDir":
				return "renameio." + name, true
			case "NewPendingFile":
				return "renameio.NewPendingFile", true // allowed only WithRoot (checked by caller)
			}
		}
	case "net":
		if rt == "" && (name == "Listen" || name == "ListenUnix" || name == "DialUnix" || name == "ListenUnixgram") {
			return "net." + name, true
		}
	}
	return "", false
}

// hasWithRootOption: call is renameio.NewPendingFile(..., opts...) whose
// variadic slice contains renameio.WithRoot(root); returns the root operand.
func withRootOption(c ssa.CallInstruction) ssa.Value {
	args := c.Common().Args
	if len(args) < 2 {
		return nil
	}
	sl, ok := args[len(args)-1].(*ssa.Slice)
	if !ok {
		return nil
	}
	arr, ok := sl.X.(*ssa.Alloc)
	if !ok {
		return nil
	}
	var root ssa.Value
	for _, ref := range *arr.Referrers() {
		ia, ok := ref.(*ssa.IndexAddr)
		if !ok {
			continue
		}
		for _, r2 := range *ia.Referrers() {
			st, ok := r2.(*ssa.Store)
			if !ok {
				continue
			}
			if call, ok := stripConv(st.Val).(*ssa.Call); ok && calleeName(call) == pkgRenameio+".WithRoot" {
				root = call.Common().Args[0]
			}
		}
	}
	return root
}

// optionNames lists the renameio option constructors in the variadic slice.
func optionNames(c ssa.CallInstruction) []string {
	var out []string
	args := c.Common().Args
	if len(args) < 2 {
		return nil
	}
	sl, ok := args[len(args)-1].(*ssa.Slice)
	if !ok {
		return []string{"<non-literal options>"}
	}
	arr, ok := sl.X.(*ssa.Alloc)
	if !ok {
		return []string{"<non-literal options>"}
	}
	for _, ref := range *arr.Referrers() {
		ia, ok := ref.(*ssa.IndexAddr)
		if !ok {
			continue
		}
		for _, r2 := range *ia.Referrers() {
			if st, ok := r2.(*ssa.Store); ok {
				if call, ok := stripConv(st.Val).(*ssa.Call); ok {
					out = append(out, calleeName(call))
				} else {
					out = append(out, "<non-call option>")
				}
			}
		}
	}
	return out
}
