package main

import (
	"go/token"

	"golang.org/x/tools/go/ssa"
)

// Rules added after the eighth round of seeded changes.

// checkWindowFullyRead — C01/WINDOW-FULLY-READ (shared as
// C03/SENDER-READ-WINDOW): the dual of C01/READ-CONTRACT. The sender's file
// window (mapStruct.ptr) is filled by a loop of Read calls into
// window[off : off+remaining]; the window is then hashed (whole-file checksum,
// block search) and sent as literal data. A successful return must therefore
// be reachable only through a loop exit that establishes remaining ≤ 0: any
// other exit (break on io.EOF, break on error) that reaches a `return window,
// nil` hands out bytes no Read delivered (stale or zero-filled), and sender
// and receiver then agree on a file the source never contained.
func checkWindowFullyRead(p *Prog, r *Report, rule string) {
	r.Rule(rule, "every loop of package sender that fills buf[off : off+remaining] with Read calls is left towards a successful return (nil error, non-nil data) only through an exit whose branch establishes remaining ≤ 0 (or the return itself is dominated by such a test): a window is handed to the checksum and to the wire only when every byte of it came from a Read; io.ReadFull/ReadAt-style fills count when their error is known to be nil at the return", 1)
	g := p.ModGraph()
	anchor := anchorFunc(p, r, pkgSender, "mapStruct", "ptr")
	if anchor == nil {
		r.Bad(rule, "anchor", "-", "(*mapStruct).ptr not found")
		return
	}
	inUnit := map[*ssa.Function]bool{}
	for _, u := range g.unitFuncs(anchor) {
		inUnit[u] = true
	}
	found := 0
	for _, fn := range p.FuncsInPkg(pkgSender) {
		if fn.Blocks == nil {
			continue
		}
		loops := naturalLoops(fn)
		allCalls(fn, func(c ssa.CallInstruction) {
			call, isCall := c.(*ssa.Call)
			if !isCall {
				return
			}
			name := calleeName(c)
			// full-read helpers
			if name == "io.ReadFull" || name == "io.ReadAtLeast" {
				if !inUnit[fn] {
					return
				}
				found++
				key := funcKey(fn) + " " + name
				var errV ssa.Value
				for _, ref := range *call.Referrers() {
					if ex, ok := ref.(*ssa.Extract); ok && ex.Index == 1 {
						errV = ex
					}
				}
				bad := ""
				for _, b := range fn.Blocks {
					ret, ok := lastInstr(b).(*ssa.Return)
					if !ok || !isSuccessReturn(ret) || !blockReaches(call.Block(), b) {
						continue
					}
					if errV == nil {
						bad = "the error of " + name + " is discarded"
						continue
					}
					if known, isNil := errIsNilAt(ret, errV); !known || !isNil {
						bad = "a successful return at " + p.Pos(ret.Pos()) + " is reachable although " + name + " may have failed (short read)"
					}
				}
				r.Cond(bad == "", rule, key, p.Pos(instrPos(c)), bad)
				return
			}
			if !c.Common().IsInvoke() || c.Common().Method.Name() != "Read" {
				return
			}
			sig := c.Common().Signature()
			if sig.Params().Len() != 1 || sig.Results().Len() != 2 {
				return
			}
			// buffer of the form x[lo : lo+rem]
			sl, isSl := c.Common().Args[0].(*ssa.Slice)
			if !isSl || sl.Low == nil || sl.High == nil {
				return
			}
			add, isAdd := sl.High.(*ssa.BinOp)
			if !isAdd || add.Op != token.ADD {
				return
			}
			var rem ssa.Value
			switch {
			case add.X == sl.Low:
				rem = add.Y
			case add.Y == sl.Low:
				rem = add.X
			default:
				return
			}
			ls := loopsContaining(loops, call.Block())
			if len(ls) == 0 {
				return
			}
			L := ls[0]
			found++
			key := funcKey(fn) + " Read loop"
			isRem := func(v ssa.Value) bool { return remAlias(v, rem, 0) }
			remLEZero := func(cond ssa.Value, taken bool) bool {
				for {
					if u, ok := cond.(*ssa.UnOp); ok && u.Op == token.NOT {
						cond, taken = u.X, !taken
						continue
					}
					break
				}
				bo, ok := cond.(*ssa.BinOp)
				if !ok {
					return false
				}
				x, y, op := bo.X, bo.Y, bo.Op
				if k, isK := constInt(x); isK && k == 0 && isRem(y) {
					// 0 op y  ≡  y op' 0
					x, y = y, x
					switch op {
					case token.LSS:
						op = token.GTR
					case token.LEQ:
						op = token.GEQ
					case token.GTR:
						op = token.LSS
					case token.GEQ:
						op = token.LEQ
					}
				}
				k, isK := constInt(y)
				if !isK || k != 0 || !isRem(x) {
					return false
				}
				switch op {
				case token.GTR, token.NEQ:
					return !taken
				case token.LEQ, token.EQL:
					return taken
				}
				return false
			}
			bad := ""
			for u := range L.body {
				for i, v := range u.Succs {
					if L.body[v] {
						continue
					}
					complete := false
					if iff, ok := lastInstr(u).(*ssa.If); ok && len(u.Succs) == 2 {
						complete = remLEZero(iff.Cond, i == 0)
					}
					if complete {
						continue
					}
					// an incomplete exit: may it reach a successful return?
					for _, b := range fn.Blocks {
						ret, ok := lastInstr(b).(*ssa.Return)
						if !ok || !isSuccessReturn(ret) || !(b == v || blockReaches(v, b)) {
							continue
						}
						// the return itself may be guarded by a test on the remainder
						guarded := false
						for _, f := range FactsAt(ret) {
							if remLEZero(f.Cond, f.Val) {
								guarded = true
							}
						}
						if !guarded && bad == "" {
							bad = "the loop is left at " + p.Pos(instrPos(lastInstr(u))) + " without the remaining count being ≤ 0, and the successful return at " + p.Pos(ret.Pos()) + " is reachable from there: bytes of the window that no Read delivered are hashed and sent"
						}
					}
				}
			}
			r.Cond(bad == "", rule, key, p.Pos(instrPos(c)), bad)
		})
	}
	if found == 0 {
		r.Unk(rule, "(*mapStruct).ptr fills its window", p.Pos(anchor.Pos()), "no Read loop over buf[off:off+remaining] and no io.ReadFull found in package sender: the window reader is not recognised")
	}
}

// remAlias: v is the remaining-count value rem, rem minus something, or a
// phi of such values (the value the header tests and the value the body
// computes are different SSA names of the same variable).
func remAlias(v, rem ssa.Value, depth int) bool {
	if depth > 4 {
		return false
	}
	if v == rem {
		return true
	}
	switch x := v.(type) {
	case *ssa.BinOp:
		if x.Op == token.SUB {
			return remAlias(x.X, rem, depth+1)
		}
	case *ssa.Phi:
		// rem is itself usually a header phi: v is an alias when one of them
		// flows into the other
		for _, e := range x.Edges {
			if e == rem {
				return true
			}
		}
		if rp, ok := rem.(*ssa.Phi); ok {
			for _, e := range rp.Edges {
				if e == v {
					return true
				}
			}
		}
	}
	if rp, ok := rem.(*ssa.Phi); ok && depth == 0 {
		for _, e := range rp.Edges {
			if e == v {
				return true
			}
		}
	}
	return false
}

// isSuccessReturn: the last result is a nil error constant and the first
// result is not a nil/zero constant.
func isSuccessReturn(ret *ssa.Return) bool {
	res := retResults(ret)
	if len(res) < 2 {
		return false
	}
	last := res[len(res)-1]
	if !isErrorType(last.Type()) || !isNilConst(last) {
		return false
	}
	return !isNilConst(res[0])
}

func blockReaches(from, to *ssa.BasicBlock) bool {
	seen := map[*ssa.BasicBlock]bool{}
	stack := []*ssa.BasicBlock{from}
	for len(stack) > 0 {
		b := stack[len(stack)-1]
		stack = stack[:len(stack)-1]
		for _, s := range b.Succs {
			if s == to {
				return true
			}
			if !seen[s] {
				seen[s] = true
				stack = append(stack, s)
			}
		}
	}
	return false
}
