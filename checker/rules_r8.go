package main

import (
	"fmt"
	"go/token"
	"go/types"
	"sort"
	"strings"

	"golang.org/x/tools/go/ssa"
)

// Rules added after the eighth round of seeded changes.

// checkWindowFullyRead — C01/WINDOW-FULLY-READ (shared as
// C03/SENDER-READ-WINDOW): the dual of C01/READ-CONTRACT. The sender's file
// window (mapStruct.ptr) is filled by a loop of Read calls into
// window[off : off+remaining]; the window is then hashed (whole-file checksum,
// block search) and sent as literal data. A successful return must therefore
// be reachable only through a loop exit that establishes remaining ≤ 0: any
// other exit (break on io.EOF, break on error) that reaches a `return window,
// nil` hands out bytes no Read delivered (stale or zero-filled), and sender
// and receiver then agree on a file the source never contained.
func checkWindowFullyRead(p *Prog, r *Report, rule string) {
	r.Rule(rule, "every loop of package sender that fills buf[off : off+remaining] with Read calls is left towards a successful return (nil error, non-nil data) only through an exit whose branch establishes remaining ≤ 0 (or the return itself is dominated by such a test): a window is handed to the checksum and to the wire only when every byte of it came from a Read; io.ReadFull/ReadAt-style fills count when their error is known to be nil at the return", 1)
	g := p.ModGraph()
	anchor := anchorFunc(p, r, pkgSender, "mapStruct", "ptr")
	if anchor == nil {
		r.Bad(rule, "anchor", "-", "(*mapStruct).ptr not found")
		return
	}
	inUnit := map[*ssa.Function]bool{}
	for _, u := range g.unitFuncs(anchor) {
		inUnit[u] = true
	}
	found := 0
	for _, fn := range p.FuncsInPkg(pkgSender) {
		if fn.Blocks == nil {
			continue
		}
		loops := naturalLoops(fn)
		allCalls(fn, func(c ssa.CallInstruction) {
			call, isCall := c.(*ssa.Call)
			if !isCall {
				return
			}
			name := calleeName(c)
			// full-read helpers
			if name == "io.ReadFull" || name == "io.ReadAtLeast" {
				if !inUnit[fn] {
					return
				}
				found++
				key := funcKey(fn) + " " + name
				var errV ssa.Value
				for _, ref := range *call.Referrers() {
					if ex, ok := ref.(*ssa.Extract); ok && ex.Index == 1 {
						errV = ex
					}
				}
				bad := ""
				for _, b := range fn.Blocks {
					ret, ok := lastInstr(b).(*ssa.Return)
					if !ok || !isSuccessReturn(ret) || !blockReaches(call.Block(), b) {
						continue
					}
					if errV == nil {
						bad = "the error of " + name + " is discarded"
						continue
					}
					if known, isNil := errIsNilAt(ret, errV); !known || !isNil {
						bad = "a successful return at " + p.Pos(ret.Pos()) + " is reachable although " + name + " may have failed (short read)"
					}
				}
				r.Cond(bad == "", rule, key, p.Pos(instrPos(c)), bad)
				return
			}
			if !c.Common().IsInvoke() || c.Common().Method.Name() != "Read" {
				return
			}
			sig := c.Common().Signature()
			if sig.Params().Len() != 1 || sig.Results().Len() != 2 {
				return
			}
			// buffer of the form x[lo : lo+rem]
			sl, isSl := c.Common().Args[0].(*ssa.Slice)
			if !isSl || sl.Low == nil || sl.High == nil {
				return
			}
			add, isAdd := sl.High.(*ssa.BinOp)
			if !isAdd || add.Op != token.ADD {
				return
			}
			var rem ssa.Value
			switch {
			case add.X == sl.Low:
				rem = add.Y
			case add.Y == sl.Low:
				rem = add.X
			default:
				return
			}
			ls := loopsContaining(loops, call.Block())
			if len(ls) == 0 {
				return
			}
			L := ls[0]
			found++
			key := funcKey(fn) + " Read loop"
			isRem := func(v ssa.Value) bool { return remAlias(v, rem, 0) }
			remLEZero := func(cond ssa.Value, taken bool) bool {
				for {
					if u, ok := cond.(*ssa.UnOp); ok && u.Op == token.NOT {
						cond, taken = u.X, !taken
						continue
					}
					break
				}
				bo, ok := cond.(*ssa.BinOp)
				if !ok {
					return false
				}
				x, y, op := bo.X, bo.Y, bo.Op
				if k, isK := constInt(x); isK && k == 0 && isRem(y) {
					// 0 op y  ≡  y op' 0
					x, y = y, x
					switch op {
					case token.LSS:
						op = token.GTR
					case token.LEQ:
						op = token.GEQ
					case token.GTR:
						op = token.LSS
					case token.GEQ:
						op = token.LEQ
					}
				}
				k, isK := constInt(y)
				if !isK || k != 0 || !isRem(x) {
					return false
				}
				switch op {
				case token.GTR, token.NEQ:
					return !taken
				case token.LEQ, token.EQL:
					return taken
				}
				return false
			}
			bad := ""
			for u := range L.body {
				for i, v := range u.Succs {
					if L.body[v] {
						continue
					}
					complete := false
					if iff, ok := lastInstr(u).(*ssa.If); ok && len(u.Succs) == 2 {
						complete = remLEZero(iff.Cond, i == 0)
					}
					if complete {
						continue
					}
					// an incomplete exit: may it reach a successful return?
					for _, b := range fn.Blocks {
						ret, ok := lastInstr(b).(*ssa.Return)
						if !ok || !isSuccessReturn(ret) || !(b == v || blockReaches(v, b)) {
							continue
						}
						// the return itself may be guarded by a test on the remainder
						guarded := false
						for _, f := range FactsAt(ret) {
							if remLEZero(f.Cond, f.Val) {
								guarded = true
							}
						}
						if !guarded && bad == "" {
							bad = "the loop is left at " + p.Pos(instrPos(lastInstr(u))) + " without the remaining count being ≤ 0, and the successful return at " + p.Pos(ret.Pos()) + " is reachable from there: bytes of the window that no Read delivered are hashed and sent"
						}
					}
				}
			}
			r.Cond(bad == "", rule, key, p.Pos(instrPos(c)), bad)
		})
	}
	if found == 0 {
		r.Unk(rule, "(*mapStruct).ptr fills its window", p.Pos(anchor.Pos()), "no Read loop over buf[off:off+remaining] and no io.ReadFull found in package sender: the window reader is not recognised")
	}
}

// remAlias: v is the remaining-count value rem, rem minus something, or a
// phi of such values (the value the header tests and the value the body
// computes are different SSA names of the same variable).
func remAlias(v, rem ssa.Value, depth int) bool {
	if depth > 4 {
		return false
	}
	if v == rem {
		return true
	}
	switch x := v.(type) {
	case *ssa.BinOp:
		if x.Op == token.SUB {
			return remAlias(x.X, rem, depth+1)
		}
	case *ssa.Phi:
		// rem is itself usually a header phi: v is an alias when one of them
		// flows into the other
		for _, e := range x.Edges {
			if e == rem {
				return true
			}
		}
		if rp, ok := rem.(*ssa.Phi); ok {
			for _, e := range rp.Edges {
				if e == v {
					return true
				}
			}
		}
	}
	if rp, ok := rem.(*ssa.Phi); ok && depth == 0 {
		for _, e := range rp.Edges {
			if e == v {
				return true
			}
		}
	}
	return false
}

// isSuccessReturn: the last result is a nil error constant and the first
// result is not a nil/zero constant.
func isSuccessReturn(ret *ssa.Return) bool {
	res := retResults(ret)
	if len(res) < 2 {
		return false
	}
	last := res[len(res)-1]
	if !isErrorType(last.Type()) || !isNilConst(last) {
		return false
	}
	return !isNilConst(res[0])
}

func blockReaches(from, to *ssa.BasicBlock) bool {
	seen := map[*ssa.BasicBlock]bool{}
	stack := []*ssa.BasicBlock{from}
	for len(stack) > 0 {
		b := stack[len(stack)-1]
		stack = stack[:len(stack)-1]
		for _, s := range b.Succs {
			if s == to {
				return true
			}
			if !seen[s] {
				seen[s] = true
				stack = append(stack, s)
			}
		}
	}
	return false
}

// checkTransferSetupSymmetry — C14/TRANSFER-FIELDS: the daemon (package
// rsyncd) and the client (package maincmd) each build a receiver.Transfer and
// a sender.Transfer. "The resulting destination is the same whether the data is
// pulled, pushed or copied locally" needs the two constructions to configure
// the same things: the set of Transfer fields that each package stores (in the
// composite literal or afterwards) must be equal. A hook, callback or switch
// that only one arrangement installs (Protect, a filter, a limit) makes the
// arrangements diverge without any wire desynchronisation.
func checkTransferSetupSymmetry(p *Prog, r *Report) {
	rule := "C14/TRANSFER-FIELDS"
	r.Rule(rule, "the daemon (package rsyncd) and the client (package maincmd) configure the same fields of receiver.Transfer and of sender.Transfer: per struct, the set of fields stored by production code of the one package equals the set stored by the other (composite literal or later assignment)", 2)
	for _, pk := range []string{pkgReceiver, pkgSender} {
		sets := map[string]map[string]string{pkgRsyncd: {}, pkgMaincmd: {}}
		for _, fn := range p.ModFuncs {
			home := pkgPathOfFunc(fn)
			set, ok := sets[home]
			if !ok || isTestSupport(home) {
				continue
			}
			for _, b := range fn.Blocks {
				for _, in := range b.Instrs {
					st, isSt := in.(*ssa.Store)
					if !isSt {
						continue
					}
					fa, isFA := st.Addr.(*ssa.FieldAddr)
					if !isFA {
						continue
					}
					n := namedOf(fa.X.Type())
					if n == nil || n.Obj().Pkg() == nil || n.Obj().Pkg().Path() != pk || n.Obj().Name() != "Transfer" {
						continue
					}
					_, fld := fieldOfAddr(fa)
					if fld != nil {
						if _, seen := set[fld.Name()]; !seen {
							set[fld.Name()] = p.Pos(st.Pos())
						}
					}
				}
			}
		}
		short := pk[len(modPath)+len("/internal/"):]
		d, c := sets[pkgRsyncd], sets[pkgMaincmd]
		if len(d) == 0 || len(c) == 0 {
			r.Unk(rule, short+".Transfer construction sites", "-", "the daemon or the client no longer stores any field of "+short+".Transfer: constructors moved, re-anchor")
			continue
		}
		// reviewed one-sided fields
		allow := map[string]string{"sender.Source": "the file source of an fs.FS module: only a daemon has modules; nil means the OS file system on both sides (what may be read is C06's subject)"}
		for f := range d {
			if why, ok := allow[short+"."+f]; ok {
				if _, both := c[f]; !both {
					r.OK(rule, short+".Transfer."+f+" (allow-table)", d[f], why)
					delete(d, f)
				}
			}
		}
		bad, where := "", "-"
		for f, pos := range d {
			if _, ok := c[f]; !ok {
				bad += " " + f + " (daemon only)"
				where = pos
			}
		}
		for f, pos := range c {
			if _, ok := d[f]; !ok {
				bad += " " + f + " (client only)"
				where = pos
			}
		}
		r.Cond(bad == "", rule, short+".Transfer configured alike by daemon and client", where, "fields configured by one arrangement only:"+bad+": the same source, destination and options give a different result depending on who receives")
	}
}

// checkFreshStat — C11/FRESH-STAT: setPerms decides what to change by
// comparing the wanted attributes with a FileInfo of the destination entry
// (st.Mode().Perm() != perm, modTimeEqual(st.ModTime(), …), setUid(f, st)).
// That FileInfo must describe the entry as it is now: it is the result of an
// Lstat in setPerms itself, or — when it is handed in — the result of an Lstat
// in the caller with no entry-replacing call (Remove, Mkdir, symlink,
// createDevice, rename, create) on any path between that Lstat and the call.
// A stale FileInfo makes setPerms skip the Chmod/Chtimes/Lchown of an entry
// that was just re-created.
func checkFreshStat(p *Prog, r *Report) {
	rule := "C11/FRESH-STAT"
	r.Rule(rule, "every fs.FileInfo that setPerms (and its helpers) compares the wanted attributes with comes from an Lstat/Stat on the destination root with no entry-replacing call (Remove*, Mkdir*, Symlink, Rename, create, symlink(), createDevice(), renameio) on any path from that Lstat to the use — in setPerms itself, or in the caller when the FileInfo is passed in (nil = setPerms stats itself)", 1)
	g := p.ModGraph()
	sp := anchorFunc(p, r, pkgReceiver, "Transfer", "setPerms")
	if sp == nil {
		return
	}
	replacing := func(lbl string) bool {
		for _, k := range []string{"Remove", "Mkdir", "Symlink", "Rename", "OpenFile[write]", "renameio", "unix.Mk", "unix.Bind", "Link", "Create"} {
			if strings.Contains(lbl, k) {
				return true
			}
		}
		return false
	}
	mutCache := map[*ssa.Function]bool{}
	var callMutates func(c ssa.CallInstruction) bool
	callMutates = func(c ssa.CallInstruction) bool {
		if lbl, ok := mutatorLabel(c); ok && replacing(lbl) {
			return true
		}
		callee := c.Common().StaticCallee()
		if callee == nil || callee.Blocks == nil || !isModFunc(callee) {
			return false
		}
		if v, ok := mutCache[callee]; ok {
			return v
		}
		mutCache[callee] = false
		res := false
		for fn := range g.Reach([]*ssa.Function{callee}, nil) {
			if fn.Blocks == nil || !isModFunc(fn) {
				continue
			}
			allCalls(fn, func(cc ssa.CallInstruction) {
				if lbl, ok := mutatorLabel(cc); ok && replacing(lbl) {
					res = true
				}
			})
		}
		mutCache[callee] = res
		return res
	}
	// instrReaches: is there a CFG path from a (exclusive) to b (exclusive of b)?
	instrIndex := func(in ssa.Instruction) int {
		for i, x := range in.Block().Instrs {
			if x == in {
				return i
			}
		}
		return -1
	}
	pathHasMutation := func(from, to ssa.Instruction) (string, bool) {
		fn := from.Parent()
		fb, tb := from.Block(), to.Block()
		fi, ti := instrIndex(from), instrIndex(to)
		// blocks reachable from fb's tail, and blocks reaching tb's head
		fwd := map[*ssa.BasicBlock]bool{}
		var walk func(b *ssa.BasicBlock)
		walk = func(b *ssa.BasicBlock) {
			for _, s := range b.Succs {
				if !fwd[s] {
					fwd[s] = true
					walk(s)
				}
			}
		}
		walk(fb)
		bwd := map[*ssa.BasicBlock]bool{}
		var back func(b *ssa.BasicBlock)
		back = func(b *ssa.BasicBlock) {
			for _, s := range b.Preds {
				if !bwd[s] {
					bwd[s] = true
					back(s)
				}
			}
		}
		back(tb)
		check := func(b *ssa.BasicBlock, lo, hi int) (string, bool) {
			for i := lo; i < hi && i < len(b.Instrs); i++ {
				if c, ok := b.Instrs[i].(ssa.CallInstruction); ok && callMutates(c) {
					return p.Pos(instrPos(c)), true
				}
			}
			return "", false
		}
		if fb == tb && fi < ti {
			if pos, bad := check(fb, fi+1, ti); bad {
				return pos, true
			}
			if !fwd[fb] { // no cycle back through this block
				return "", false
			}
		}
		if pos, bad := check(fb, fi+1, len(fb.Instrs)); bad && (fwd[tb] || fb == tb) {
			return pos, true
		}
		if pos, bad := check(tb, 0, ti); bad && (bwd[fb] || fb == tb) {
			return pos, true
		}
		for _, b := range fn.Blocks {
			if b == fb || b == tb || !fwd[b] || !bwd[b] {
				continue
			}
			if pos, bad := check(b, 0, len(b.Instrs)); bad {
				return pos, true
			}
		}
		return "", false
	}
	isStatCall := func(v ssa.Value) *ssa.Call {
		ex, ok := v.(*ssa.Extract)
		if !ok || ex.Index != 0 {
			return nil
		}
		c, ok := ex.Tuple.(*ssa.Call)
		if !ok {
			return nil
		}
		switch calleeName(c) {
		case "(*os.Root).Lstat", "(*os.Root).Stat":
			return c
		}
		// setUid returns the re-read FileInfo
		if sc := c.Common().StaticCallee(); sc != nil && pkgPathOfFunc(sc) == pkgReceiver && sc.Name() == "setUid" {
			return c
		}
		return nil
	}
	var fresh func(v ssa.Value, use ssa.Instruction, depth int) string
	fresh = func(v ssa.Value, use ssa.Instruction, depth int) string {
		if depth > 6 {
			return "origin of the FileInfo not resolved"
		}
		v = unwrapLocal(v)
		if isNilConst(v) {
			return ""
		}
		if c := isStatCall(v); c != nil {
			if pos, bad := pathHasMutation(c, use); bad {
				return "the entry can be replaced at " + pos + " between the Lstat at " + p.Pos(c.Pos()) + " and this use: the FileInfo describes an entry that no longer exists"
			}
			return ""
		}
		switch x := v.(type) {
		case *ssa.Phi:
			// each incoming value must be fresh where it enters the phi, and the
			// entry must not be replaced between the phi and the use
			for i, e := range x.Edges {
				if e == ssa.Value(x) {
					continue
				}
				if why := fresh(e, lastInstr(x.Block().Preds[i]), depth+1); why != "" {
					return why
				}
			}
			if pos, bad := pathHasMutation(x, use); bad {
				return "the entry can be replaced at " + pos + " after the FileInfo was chosen"
			}
			return ""
		case *ssa.Parameter:
			fn := x.Parent()
			idx := -1
			for i, pp := range fn.Params {
				if pp == x {
					idx = i
				}
			}
			n := 0
			for _, e := range g.In[fn] {
				if isTestSupport(pkgPathOfFunc(e.From)) {
					continue
				}
				cs, ok := e.Site.(ssa.CallInstruction)
				if !ok || e.Escape || cs.Common().StaticCallee() != fn || idx < 0 || idx >= len(cs.Common().Args) {
					return "a caller of " + funcKey(fn) + " is not a direct call: the FileInfo it passes is unknown"
				}
				n++
				if why := fresh(cs.Common().Args[idx], cs, depth+1); why != "" {
					return why + " (passed at " + p.Pos(instrPos(cs)) + ")"
				}
			}
			if n == 0 {
				return "no caller found for " + funcKey(fn)
			}
			return ""
		}
		return "the FileInfo is neither an Lstat result, nil, nor a parameter"
	}
	n := 0
	for _, u := range g.unitFuncs(sp) {
		if u.Name() == "setUid" {
			continue
		}
		allCalls(u, func(c ssa.CallInstruction) {
			var fi ssa.Value
			what := ""
			if c.Common().IsInvoke() && (c.Common().Method.Name() == "Mode" || c.Common().Method.Name() == "ModTime" || c.Common().Method.Name() == "Sys") && strings.HasSuffix(c.Common().Value.Type().String(), "fs.FileInfo") {
				fi, what = c.Common().Value, "st."+c.Common().Method.Name()+"()"
			} else if sc := c.Common().StaticCallee(); sc != nil && pkgPathOfFunc(sc) == pkgReceiver && sc.Name() == "setUid" && len(c.Common().Args) == 3 {
				fi, what = c.Common().Args[2], "setUid(f, st)"
			}
			if fi == nil {
				return
			}
			n++
			why := fresh(fi, c, 0)
			r.Cond(why == "", rule, funcKey(u)+" compares with "+what, p.Pos(instrPos(c)), why)
		})
	}
	if n == 0 {
		r.Unk(rule, "setPerms comparison baseline", p.Pos(sp.Pos()), "setPerms no longer consults a FileInfo: re-read how it decides what to change")
	}
}

// checkSumsIndex — C08/SUMS-INDEX: the block-checksum list (SumHead.Sums) and
// the sorted target table have a peer-chosen length (ChecksumCount, 0 < n <
// 2^20 or so). Every index into them in package sender must be below that
// length by construction or by test: a value whose provenance is not one of the
// forms below can run past the end for some peer-chosen list, and an index out
// of range in the daemon's connection goroutine takes the whole process down.
func checkSumsIndex(p *Prog, r *Report) {
	rule := "C08/SUMS-INDEX"
	r.Rule(rule, "every index into a []rsync.SumBuf or []sender.target in package sender is bounded above by the list length: the site is dominated by idx < len(list) / idx < int(ChecksumCount) for that very value, or the value is (through conversions, phis, parameters and closure bindings, at every call site) a target.index load, an induction variable that starts at len(list)-1 or at a bounded value and only decreases, len(list)-1, a parameter of a less-function handed to sort.Slice, zero, or a negative constant (the \"no block\" marker); anything else (idx+1, arithmetic on indices) needs its own test", 12)
	g := p.ModGraph()
	isListType := func(t types.Type) bool {
		sl, ok := t.Underlying().(*types.Slice)
		if !ok {
			return false
		}
		n := namedOf(sl.Elem())
		if n == nil || n.Obj().Pkg() == nil {
			return false
		}
		return (n.Obj().Pkg().Path() == modPath && n.Obj().Name() == "SumBuf") || (n.Obj().Pkg().Path() == pkgSender && n.Obj().Name() == "target")
	}
	isLenOrCount := func(v ssa.Value) bool {
		v = stripConv(v)
		if c, ok := v.(*ssa.Call); ok {
			if bi, ok := c.Common().Value.(*ssa.Builtin); ok && bi.Name() == "len" && isListType(c.Common().Args[0].Type()) {
				return true
			}
		}
		if _, f := loadedField(v); f != nil && f.Name() == "ChecksumCount" {
			return true
		}
		if fl, ok := v.(*ssa.Field); ok {
			if st, ok := fl.X.Type().Underlying().(*types.Struct); ok && st.Field(fl.Field).Name() == "ChecksumCount" {
				return true
			}
		}
		return false
	}
	boundedByFact := func(v ssa.Value, at ssa.Instruction) bool {
		for _, f := range FactsAt(at) {
			bo, ok := f.Cond.(*ssa.BinOp)
			if !ok {
				continue
			}
			x, y := stripConv(bo.X), stripConv(bo.Y)
			vv := stripConv(v)
			switch {
			case x == vv && isLenOrCount(bo.Y) && ((bo.Op == token.LSS && f.Val) || (bo.Op == token.GEQ && !f.Val)):
				return true
			case y == vv && isLenOrCount(bo.X) && ((bo.Op == token.GTR && f.Val) || (bo.Op == token.LEQ && !f.Val)):
				return true
			}
		}
		return false
	}
	var okIdx func(v ssa.Value, at ssa.Instruction, seen map[ssa.Value]bool, depth int) string
	okIdx = func(v ssa.Value, at ssa.Instruction, seen map[ssa.Value]bool, depth int) string {
		if depth > 8 {
			return "provenance too deep"
		}
		if at != nil && boundedByFact(v, at) {
			return ""
		}
		v = stripConv(unwrapLocal(v))
		if at != nil && boundedByFact(v, at) {
			return ""
		}
		if seen[v] {
			return "" // a cycle through phis: decided by the other edges
		}
		seen[v] = true
		defer delete(seen, v)
		if _, f := loadedField(v); f != nil && f.Name() == "index" && f.Pkg() != nil && f.Pkg().Path() == pkgSender {
			return ""
		}
		if fl, ok := v.(*ssa.Field); ok {
			if st, ok := fl.X.Type().Underlying().(*types.Struct); ok && st.Field(fl.Field).Name() == "index" {
				return ""
			}
		}
		switch x := v.(type) {
		case *ssa.Const:
			if k, ok := constInt(x); ok && k <= 0 {
				// negative: the "no block" marker, its sites are sign-guarded;
				// zero: in range for a non-empty list (emptiness: C08/PTR-NONEMPTY)
				return ""
			}
			return "constant index"
		case *ssa.BinOp:
			if x.Op == token.SUB {
				if k, ok := constInt(x.Y); ok && k > 0 {
					if isLenOrCount(x.X) {
						return ""
					}
					return okIdx(x.X, nil, seen, depth+1) // decreasing keeps the upper bound
				}
			}
			return "computed from `" + x.String() + "` (" + x.Op.String() + "): not bounded by the list length"
		case *ssa.Phi:
			for i, e := range x.Edges {
				// a test on the incoming value holds where it enters the phi
				if why := okIdx(e, lastInstr(x.Block().Preds[i]), seen, depth+1); why != "" {
					return why
				}
			}
			return ""
		case *ssa.Parameter:
			fn := x.Parent()
			idx := -1
			for i, pp := range fn.Params {
				if pp == x {
					idx = i
				}
			}
			// less-function of sort.Slice and friends
			n := 0
			for _, e := range g.In[fn] {
				if isTestSupport(pkgPathOfFunc(e.From)) {
					continue
				}
				cs, ok := e.Site.(ssa.CallInstruction)
				if !ok {
					// a literal handed to the sort package (directly or boxed)
					if mc, isMC := e.Site.(*ssa.MakeClosure); isMC && onlySortArg(mc) {
						n++
						continue
					}
					// a local closure that is only ever called directly: its call
					// sites are edges of their own
					if mc, isMC := e.Site.(*ssa.MakeClosure); isMC && onlyCalled(mc) {
						continue
					}
					return "the function escapes as a value: callers unknown"
				}
				switch calleeName(cs) {
				case "sort.Slice", "sort.SliceStable", "sort.Search", "slices.SortFunc", "slices.BinarySearchFunc":
					n++
					continue
				}
				args := cs.Common().Args
				off := 0
				if cs.Common().StaticCallee() == fn && fn.Signature.Recv() != nil {
					off = 0 // receiver is Params[0] and Args[0]
				}
				if idx+off >= len(args) || e.Escape {
					return "a caller of " + funcKey(fn) + " is not a direct call"
				}
				n++
				if why := okIdx(args[idx+off], cs, seen, depth+1); why != "" {
					return why + " (passed at " + p.Pos(instrPos(cs)) + ")"
				}
			}
			if n == 0 {
				return "no caller of " + funcKey(fn)
			}
			return ""
		case *ssa.FreeVar:
			fn := x.Parent()
			if fn.Parent() == nil {
				return "free variable without parent"
			}
			n := 0
			for _, b := range fn.Parent().Blocks {
				for _, in := range b.Instrs {
					mc, ok := in.(*ssa.MakeClosure)
					if !ok || mc.Fn != ssa.Value(fn) {
						continue
					}
					for bi, fv := range fn.FreeVars {
						if fv == x {
							n++
							if why := okIdx(mc.Bindings[bi], mc, seen, depth+1); why != "" {
								return why
							}
						}
					}
				}
			}
			if n == 0 {
				return "closure binding not found"
			}
			return ""
		case *ssa.UnOp:
			if x.Op == token.MUL {
				// a variable captured by reference or spilled: every store
				base := x.X
				if fv, ok := base.(*ssa.FreeVar); ok {
					fn := fv.Parent()
					for _, b := range fn.Parent().Blocks {
						for _, in := range b.Instrs {
							if mc, ok := in.(*ssa.MakeClosure); ok && mc.Fn == ssa.Value(fn) {
								for bi, f2 := range fn.FreeVars {
									if f2 == fv {
										base = mc.Bindings[bi]
									}
								}
							}
						}
					}
				}
				if al, ok := base.(*ssa.Alloc); ok {
					n := 0
					for _, ref := range *al.Referrers() {
						if st, ok := ref.(*ssa.Store); ok && st.Addr == ssa.Value(al) {
							n++
							if why := okIdx(st.Val, st, seen, depth+1); why != "" {
								return why
							}
						}
					}
					if n > 0 {
						return ""
					}
				}
			}
		case *ssa.Extract:
			// j, ok := tagTable[tag]: positions stored from an index loop over the list
			if lk, ok := x.Tuple.(*ssa.Lookup); ok && x.Index == 0 {
				return okMapValues(p, lk.X, func(v ssa.Value, at ssa.Instruction) string { return okIdx(v, at, seen, depth+1) })
			}
			// i, found := st.findMatch(…): every return of the helper yields a bounded value
			if call, ok := x.Tuple.(*ssa.Call); ok {
				if callee := call.Common().StaticCallee(); callee != nil && callee.Blocks != nil && isModFunc(callee) {
					n := 0
					for _, b := range callee.Blocks {
						ret, ok := lastInstr(b).(*ssa.Return)
						if !ok || x.Index >= len(ret.Results) {
							continue
						}
						n++
						if why := okIdx(ret.Results[x.Index], ret, seen, depth+1); why != "" {
							return why + " (returned by " + funcKey(callee) + ")"
						}
					}
					if n > 0 {
						return ""
					}
				}
			}
		case *ssa.Lookup:
			if _, isMap := x.X.Type().Underlying().(*types.Map); isMap {
				return okMapValues(p, x.X, func(v ssa.Value, at ssa.Instruction) string { return okIdx(v, at, seen, depth+1) })
			}
		}
		return "`" + v.String() + "` is not of a bounded form"
	}
	n := 0
	for _, fn := range p.FuncsInPkg(pkgSender) {
		for _, b := range fn.Blocks {
			for _, in := range b.Instrs {
				ia, ok := in.(*ssa.IndexAddr)
				if !ok || !isListType(ia.X.Type()) {
					continue
				}
				n++
				why := okIdx(ia.Index, ia, map[ssa.Value]bool{}, 0)
				r.Cond(why == "", rule, funcKey(fn)+" indexes "+types.TypeString(ia.X.Type(), func(*types.Package) string { return "" }), p.Pos(ia.Pos()), why+": an index past the end of the peer-sized list panics the process")
			}
		}
	}
	if n == 0 {
		r.Unk(rule, "index sites", "-", "no index into a block-checksum list found in package sender")
	}
}

// okMapValues: every value stored into the map (through parameters: the map
// is built by the caller) satisfies ok.
func okMapValues(p *Prog, m ssa.Value, ok func(v ssa.Value, at ssa.Instruction) string) string {
	g := p.ModGraph()
	n := 0
	for _, root := range g.paramRoots(m, 0) {
		root = unwrapLocal(root)
		mk, isMk := root.(*ssa.MakeMap)
		if !isMk {
			return "map of positions of unknown origin"
		}
		for _, ref := range *mk.Referrers() {
			if mu, isMU := ref.(*ssa.MapUpdate); isMU {
				n++
				if why := ok(mu.Value, mu); why != "" {
					return why
				}
			}
		}
	}
	if n == 0 {
		return "no update of the position map found"
	}
	return ""
}

// onlySortArg: the closure value is used only as the comparison argument of
// sort.Slice / sort.SliceStable / sort.Search / slices.SortFunc /
// slices.BinarySearchFunc (which call it with indices in range / elements).
func onlySortArg(mc *ssa.MakeClosure) bool {
	refs := mc.Referrers()
	if refs == nil || len(*refs) == 0 {
		return false
	}
	for _, ref := range *refs {
		c, ok := ref.(ssa.CallInstruction)
		if !ok {
			return false
		}
		switch calleeName(c) {
		case "sort.Slice", "sort.SliceStable", "sort.Search", "slices.SortFunc", "slices.SortStableFunc", "slices.BinarySearchFunc":
		default:
			return false
		}
	}
	return true
}

func onlyCalled(mc *ssa.MakeClosure) bool {
	refs := mc.Referrers()
	if refs == nil || len(*refs) == 0 {
		return false
	}
	for _, ref := range *refs {
		c, ok := ref.(ssa.CallInstruction)
		if !ok || c.Common().Value != ssa.Value(mc) {
			return false
		}
		if _, isGo := ref.(*ssa.Go); isGo {
			return false
		}
	}
	return true
}

// checkWireFullReads — C18/TRANSPORT-READS-FULL: "regardless of how the
// transport buffers and chunks the two directions". Outside package rsyncwire
// C17/FULL-READS already demands full reads of Conn.Reader; inside it, every
// direct Read on a transport reader (a value loaded from a Reader/R field of
// MultiplexReader, Conn, CountingReader, or any io.Reader-typed field of the
// package's types) must either be a pass-through — its byte count is what the
// enclosing function returns as its own count (CountingReader.Read) — or not
// exist: fixed-size items are read with io.ReadFull / binary.Read. A bare Read
// whose count is dropped or not looped over decodes a half-filled buffer as
// soon as the transport delivers fewer bytes than asked.
func checkWireFullReads(p *Prog, r *Report, rule string) {
	r.Rule(rule, "inside package rsyncwire every direct Read on a reader held in a field (MultiplexReader.Reader, Conn.Reader, CountingReader.R) is a pass-through whose byte count becomes the enclosing function's own returned count; fixed-size items go through io.ReadFull / binary.Read (counted as instances): no decode depends on a single Read filling its buffer, whatever the transport's chunking", 3)
	n := 0
	for _, fn := range p.FuncsInPkg(pkgWire) {
		if fn.Blocks == nil {
			continue
		}
		allCalls(fn, func(c ssa.CallInstruction) {
			switch calleeName(c) {
			case "io.ReadFull", "encoding/binary.Read", "io.ReadAtLeast":
				n++
				r.OK(rule, funcKey(fn)+" full read", p.Pos(instrPos(c)), calleeName(c))
				return
			}
			if !c.Common().IsInvoke() || c.Common().Method.Name() != "Read" {
				return
			}
			sig := c.Common().Signature()
			if sig.Params().Len() != 1 || sig.Results().Len() != 2 {
				return
			}
			if _, f := loadedField(c.Common().Value); f == nil {
				return // not a reader kept in a field
			}
			n++
			call, isCall := c.(*ssa.Call)
			pass := false
			if isCall {
				for _, ref := range *call.Referrers() {
					ex, ok := ref.(*ssa.Extract)
					if !ok || ex.Index != 0 {
						continue
					}
					for _, u := range *ex.Referrers() {
						if ret, ok := u.(*ssa.Return); ok && len(ret.Results) > 0 && ret.Results[0] == ssa.Value(ex) {
							pass = true
						}
					}
				}
			}
			r.Cond(pass, rule, funcKey(fn)+" bare Read on a transport reader", p.Pos(instrPos(c)), "the byte count of this Read is not handed on as the function's own count: a transport that delivers fewer bytes than asked (tiny buffers, a segment cut inside a header) makes the caller decode a partly stale buffer")
		})
	}
	if n == 0 {
		r.Unk(rule, "reads in package rsyncwire", "-", "no read found")
	}
}

// checkDecoderRejects — C15/DECODER-REJECTS: "a conforming stream is
// accepted". Besides I/O errors, the file-list entry decoder may refuse an
// entry only for a length that is out of range: every error the decoder
// constructs itself (fmt.Errorf / errors.New) sits in a block that is entered
// only over branches of the form len < 0, len ≥ B or len > B with B a
// constant ≥ 1024 or a constant minus another length. Any other rejection
// (an equality test on a length or a flag, a lower bound above zero) refuses
// entries that protocol 27 allows — e.g. an entry whose transmitted name
// suffix is empty because it repeats or is a prefix of the previous name.
func checkDecoderRejects(p *Prog, r *Report) {
	rule := "C15/DECODER-REJECTS"
	r.Rule(rule, "the file-list entry decoder (receiveFileEntry and its helpers) constructs an error of its own only in blocks entered over range tests on a length read from the wire: len < 0, len ≥ B or len > B (B a constant ≥ 1024, or a constant minus another length); equality tests and lower bounds above zero reject entries that protocol 27 allows (frozen vocabulary: a new kind of rejection has to be read against the protocol and added)", 2)
	g := p.ModGraph()
	dec := anchorFunc(p, r, pkgReceiver, "Transfer", "receiveFileEntry")
	if dec == nil {
		return
	}
	var rangeTest func(cond ssa.Value, taken bool) bool
	rangeTest = func(cond ssa.Value, taken bool) bool {
		for {
			if u, ok := cond.(*ssa.UnOp); ok && u.Op == token.NOT {
				cond, taken = u.X, !taken
				continue
			}
			break
		}
		bo, ok := cond.(*ssa.BinOp)
		if !ok {
			return false
		}
		op := bo.Op
		if !taken { // the false edge of x < K is x ≥ K, …
			switch op {
			case token.LSS:
				op = token.GEQ
			case token.LEQ:
				op = token.GTR
			case token.GTR:
				op = token.LEQ
			case token.GEQ:
				op = token.LSS
			default:
				return false
			}
		}
		bigBound := func(v ssa.Value) bool {
			v = stripConv(v)
			if k, ok := constInt(v); ok {
				return k >= 1024
			}
			if sub, ok := v.(*ssa.BinOp); ok && sub.Op == token.SUB {
				if k, ok := constInt(stripConv(sub.X)); ok && k >= 1024 {
					return true
				}
			}
			return false
		}
		isZero := func(v ssa.Value) bool { k, ok := constInt(stripConv(v)); return ok && k == 0 }
		switch op {
		case token.LSS: // x < 0  |  B < x
			return isZero(bo.Y) || bigBound(bo.X)
		case token.GTR: // x > B  |  0 > x
			return bigBound(bo.Y) || isZero(bo.X)
		case token.GEQ: // x ≥ B
			return bigBound(bo.Y)
		case token.LEQ: // B ≤ x
			return bigBound(bo.X)
		}
		return false
	}
	// a predicate helper (nl.overflows()): its result is true only over range tests
	var trueIsRange func(v ssa.Value, depth int) bool
	trueIsRange = func(v ssa.Value, depth int) bool {
		if depth > 4 {
			return false
		}
		switch x := v.(type) {
		case *ssa.Const:
			return false // a constant true is judged at its phi edge
		case *ssa.BinOp:
			return rangeTest(x, true)
		case *ssa.Phi:
			for i, e := range x.Edges {
				if k, isK := e.(*ssa.Const); isK {
					if k.Value != nil && k.Value.String() == "false" {
						continue
					}
					pr := x.Block().Preds[i]
					iff, isIf := lastInstr(pr).(*ssa.If)
					if !isIf || !rangeTest(iff.Cond, pr.Succs[0] == x.Block()) {
						return false
					}
					continue
				}
				if !trueIsRange(e, depth+1) {
					return false
				}
			}
			return true
		}
		return false
	}
	baseRangeTest := rangeTest
	rangeTest = func(cond ssa.Value, taken bool) bool {
		if baseRangeTest(cond, taken) {
			return true
		}
		call, ok := cond.(*ssa.Call)
		if !ok || !taken {
			return false
		}
		callee := call.Common().StaticCallee()
		if callee == nil || callee.Blocks == nil || pkgPathOfFunc(callee) != pkgReceiver || callee.Signature.Results().Len() != 1 {
			return false
		}
		nret := 0
		for _, b := range callee.Blocks {
			if ret, ok := lastInstr(b).(*ssa.Return); ok {
				nret++
				if !trueIsRange(ret.Results[0], 0) {
					return false
				}
			}
		}
		return nret > 0
	}
	n := 0
	for _, u := range g.unitFuncs(dec) {
		allCalls(u, func(c ssa.CallInstruction) {
			if cn := calleeName(c); cn != "fmt.Errorf" && cn != "errors.New" {
				return
			}
			n++
			// every way into the block of the construction
			bad := ""
			seen := map[*ssa.BasicBlock]bool{}
			var up func(b *ssa.BasicBlock)
			up = func(b *ssa.BasicBlock) {
				if seen[b] || bad != "" {
					return
				}
				seen[b] = true
				if len(b.Preds) == 0 {
					bad = "reached unconditionally"
					return
				}
				for _, pr := range b.Preds {
					iff, isIf := lastInstr(pr).(*ssa.If)
					if !isIf {
						up(pr) // a join or fall-through block
						continue
					}
					taken := pr.Succs[0] == b
					if !rangeTest(iff.Cond, taken) {
						bad = "entered over the branch `" + iff.Cond.String() + "` (" + map[bool]string{true: "true", false: "false"}[taken] + " edge) at " + p.Pos(instrPos(iff))
					}
				}
			}
			up(c.Block())
			r.Cond(bad == "", rule, funcKey(u)+" constructs a protocol error", p.Pos(instrPos(c)), bad+": not a range test on a wire length; the decoder refuses an entry that the protocol may allow")
		})
	}
	if n == 0 {
		r.Unk(rule, "decoder rejections", p.Pos(dec.Pos()), "the decoder no longer constructs any error of its own: the length bounds (C08, C17) may have gone, re-read")
	}
}

// checkSuccessMeansReplaced — C01/SUCCESS-MEANS-REPLACED: the generator asked
// for this file, so a successful return of receiveData has to mean that the
// reconstructed (and verified) bytes were installed: every nil return of
// receiveData is dominated by the atomic replace of the pending file. A path
// that verifies the temporary file and then keeps the old destination
// ("nothing changed, only metadata") reports success for bytes that were
// never compared with anything.
func checkSuccessMeansReplaced(p *Prog, r *Report) {
	rule := "C01/SUCCESS-MEANS-REPLACED"
	r.Rule(rule, "every nil-error return of receiver.(*Transfer).receiveData is dominated by (*renameio.PendingFile).CloseAtomicallyReplace (directly, or by a call of a same-package helper all of whose nil returns are): a file the generator requested is reported as received only when the reconstructed bytes were installed", 1)
	rd := anchorFunc(p, r, pkgReceiver, "Transfer", "receiveData")
	if rd == nil {
		return
	}
	var installs func(fn *ssa.Function, depth int) []ssa.Instruction
	nilRetsDominated := func(fn *ssa.Function, by []ssa.Instruction) (bool, string) {
		n := 0
		for _, b := range fn.Blocks {
			ret, ok := lastInstr(b).(*ssa.Return)
			if !ok || len(retResults(ret)) == 0 {
				continue
			}
			res := retResults(ret)
			last := res[len(res)-1]
			if !isNilConst(last) {
				// `return helper(...)`: fine when the helper is itself an installing call
				isInst := false
				for _, in := range by {
					if v, ok := in.(ssa.Value); ok && v == last {
						isInst = true
					}
				}
				if isInst {
					n++
				}
				continue
			}
			n++
			dom := false
			for _, in := range by {
				if InstrDominates(in, ret) {
					dom = true
				}
			}
			if !dom {
				return false, p.Pos(ret.Pos())
			}
		}
		return n > 0, ""
	}
	installs = func(fn *ssa.Function, depth int) []ssa.Instruction {
		var out []ssa.Instruction
		allCalls(fn, func(c ssa.CallInstruction) {
			if _, isDefer := c.(*ssa.Defer); isDefer {
				return
			}
			if calleeName(c) == fnCloseReplace {
				out = append(out, c)
				return
			}
			if strings.HasSuffix(calleeName(c), ".CloseAtomicallyReplace") {
				out = append(out, c)
				return
			}
			h := c.Common().StaticCallee()
			if h != nil && h.Blocks != nil && pkgPathOfFunc(h) == pkgReceiver && h != fn && depth < 2 {
				if ok, _ := nilRetsDominated(h, installs(h, depth+1)); ok {
					out = append(out, c)
				}
			}
		})
		return out
	}
	inst := installs(rd, 0)
	if len(inst) == 0 {
		r.Bad(rule, "receiveData installs the received file", p.Pos(rd.Pos()), "no CloseAtomicallyReplace reachable in receiveData")
		return
	}
	ok, where := nilRetsDominated(rd, inst)
	r.Cond(ok, rule, "receiveData installs the received file", p.Pos(rd.Pos()), "the nil return at "+where+" is not dominated by the atomic replace: success is reported although the destination still holds its old bytes")
}

// checkAnonNoAmbientWrites — C20/ANON-NO-FS-WRITE: an anonymous SSH session
// may only talk the daemon protocol against the configured modules. What the
// daemon writes on behalf of a module is C07's and C05's subject (package
// rsyncd and below); the code in front of it — anonSSHMain and whatever it
// reaches in packages maincmd, rsyncopts and rsyncdconfig — runs on the
// peer's exec command line and must not create, open for writing, remove or
// rename anything through an ambient path API: a path there can only come from
// the peer's words or from configuration the peer selected with them.
func checkAnonNoAmbientWrites(p *Prog, r *Report) {
	rule := "C20/ANON-NO-FS-WRITE"
	r.Rule(rule, "no function of packages maincmd, rsyncopts or rsyncdconfig that is reachable from the anonymous exec entry (maincmd.anonSSHMain) calls a file-system mutator (create/open-for-write/mkdir/remove/rename/chmod … through os, syscall or unix path APIs): in front of the module code an anonymous peer's command line cannot make the process write outside the modules", 1)
	g := p.ModGraph()
	entry := p.Func(pkgMaincmd, "", "anonSSHMain")
	if entry == nil {
		r.Unk(rule, "anchor", "-", "maincmd.anonSSHMain not found: the anonymous exec path moved, re-anchor")
		return
	}
	reach := g.Reach([]*ssa.Function{entry}, nil)
	var fns []*ssa.Function
	for fn := range reach {
		pk := pkgPathOfFunc(fn)
		if fn.Blocks == nil || (pk != pkgMaincmd && pk != pkgOpts && pk != pkgConfig) {
			continue
		}
		fns = append(fns, fn)
	}
	sort.Slice(fns, func(i, j int) bool { return funcKey(fns[i]) < funcKey(fns[j]) })
	bad := 0
	for _, fn := range fns {
		allCalls(fn, func(c ssa.CallInstruction) {
			if lbl, ok := mutatorLabel(c); ok {
				bad++
				r.Bad(rule, funcKey(fn)+" → "+lbl, p.Pos(instrPos(c)), "a file-system mutation in front of the module code, reachable from an anonymous SSH session: "+g.Chain(reach, fn))
			}
		})
	}
	if bad == 0 {
		r.OK(rule, "anonymous exec path scanned", p.Pos(entry.Pos()), fmt.Sprintf("%d functions of maincmd/rsyncopts/rsyncdconfig reachable from anonSSHMain, no mutator", len(fns)))
	}
}

// checkFlushNotBeforeLastMatch — C02/FLUSH-AFTER-LASTMATCH: inside the offset
// loop hashSearch flushes accumulated literal data early with
// matched(…, offset − D, negative marker). matched computes n = position −
// lastMatch and moves lastMatch to the position; with n < 0 it sends and hashes
// nothing and moves lastMatch backwards, after which already-sent bytes are
// sent and hashed again (the checksum matches the wrong file). So the flush
// must be dominated by a test (offset − lastMatch) ≥ T — directly or as
// max(offset − lastMatch, 0) — with T − D ≥ 0 coefficient-wise over the
// non-negative quantities BlockLength, chunkSize (small affine evaluation, no
// solver).
func checkFlushNotBeforeLastMatch(p *Prog, r *Report) {
	rule := "C02/FLUSH-AFTER-LASTMATCH"
	r.Rule(rule, "every literal flush matched(…, offset − D, negative) inside hashSearch's scan is dominated by (offset − lastMatch) ≥ T (or max(offset − lastMatch, 0) ≥ T) with T − D ≥ 0 for all non-negative BlockLength: the flush position never lies before lastMatch (affine forms over offset, lastMatch, BlockLength and constants)", 1)
	g := p.ModGraph()
	hs := anchorFunc(p, r, pkgSender, "Transfer", "hashSearch")
	matched := anchorFunc(p, r, pkgSender, "Transfer", "matched")
	if hs == nil || matched == nil {
		return
	}
	sym := func(v ssa.Value) (string, bool) {
		v = stripConv(v)
		if ld, ok := v.(*ssa.UnOp); ok && ld.Op == token.MUL {
			if al, ok := ld.X.(*ssa.Alloc); ok && al.Comment != "" {
				return "var " + al.Comment, true
			}
			if fv, ok := ld.X.(*ssa.FreeVar); ok {
				return "var " + fv.Name(), true
			}
			if _, f := fieldOfAddr(ld.X); f != nil {
				return "field " + f.Name(), true
			}
		}
		if fl, ok := v.(*ssa.Field); ok {
			if st, ok := fl.X.Type().Underlying().(*types.Struct); ok {
				return "field " + st.Field(fl.Field).Name(), true
			}
		}
		return "", false
	}
	ev := &affEval{sym: sym, isSel: func(ssa.Value) (bool, bool) { return false, false }}
	sub := func(a, b affForm) affForm {
		out := affForm{}
		for k, c := range a {
			out[k] += c
		}
		for k, c := range b {
			out[k] -= c
		}
		return out
	}
	nonNeg := func(a affForm) bool {
		for k, c := range a {
			if c < 0 {
				return false
			}
			if c > 0 && k != "" && !strings.HasPrefix(k, "field BlockLength") && !strings.HasPrefix(k, "field RemainderLength") {
				return false // only quantities known to be non-negative may remain
			}
		}
		return true
	}
	isDistance := func(f affForm) bool { // offset − lastMatch
		return len(f) == 2 && f["var offset"] == 1 && f["field lastMatch"] == -1
	}
	n := 0
	for _, u := range g.unitFuncs(hs) {
		allCalls(u, func(c ssa.CallInstruction) {
			if c.Common().StaticCallee() != matched {
				return
			}
			a := c.Common().Args
			if k, ok := constInt(a[len(a)-1]); !ok || k >= 0 {
				return
			}
			fx, ok := ev.eval(a[len(a)-2], 0)
			if !ok || fx["var offset"] != 1 {
				return // the final flush at the end of the file, not offset-relative
			}
			n++
			d := sub(affForm{"var offset": 1}, fx) // how far behind offset the flush position lies
			okFlush := false
			for _, f := range FactsAt(c) {
				bo, isB := f.Cond.(*ssa.BinOp)
				if !isB {
					continue
				}
				var lhs, rhs ssa.Value // lhs ≥ rhs
				switch {
				case (bo.Op == token.GEQ && f.Val) || (bo.Op == token.LSS && !f.Val):
					lhs, rhs = bo.X, bo.Y
				case (bo.Op == token.LEQ && f.Val) || (bo.Op == token.GTR && !f.Val):
					lhs, rhs = bo.Y, bo.X
				default:
					continue
				}
				// lhs: offset − lastMatch, or max(offset − lastMatch, 0)
				dist := stripConv(unwrapLocal(lhs))
				if mc, isC := dist.(*ssa.Call); isC {
					if bi, isBi := mc.Common().Value.(*ssa.Builtin); isBi && bi.Name() == "max" && len(mc.Common().Args) == 2 {
						if k, isK := constInt(mc.Common().Args[1]); isK && k == 0 {
							dist = mc.Common().Args[0]
						} else if k, isK := constInt(mc.Common().Args[0]); isK && k == 0 {
							dist = mc.Common().Args[1]
						}
					}
				}
				fd, ok1 := ev.eval(dist, 0)
				ft, ok2 := ev.eval(rhs, 0)
				if ok1 && ok2 && isDistance(fd) && nonNeg(sub(ft, d)) {
					okFlush = true
				}
			}
			r.Cond(okFlush, rule, funcKey(u)+" flushes literal data early", p.Pos(instrPos(c)), "the flush position offset − ("+d.String()+") is not shown to be at or after lastMatch by a dominating test (offset − lastMatch) ≥ T with T ≥ "+d.String()+": for a large enough block length matched() gets a negative count, moves lastMatch backwards and data is sent and hashed twice")
		})
	}
	if n == 0 {
		r.OK(rule, "no early flush in hashSearch", p.Pos(hs.Pos()), "literal data is only flushed at a match and at the end of the file")
	}
}

// checkStrongSumFresh — C16/STRONG-SUM-PER-OFFSET: the strong checksum that
// decides a candidate at offset o has to be the checksum of the window at o.
// hashSearch computes it lazily (once per offset, shared by the candidates of
// that offset); it must not survive the step to the next offset: a stale sum
// makes every later true match look like a false alarm and the rest of the
// file goes out as literal data (the transfer stays correct, C16 breaks).
// Decided: the local operand of the bytes.Equal gate (a) does not flow through
// a phi at the header of the loop that advances the scan offset with anything
// but nil on a back edge, and (b) if it is a load of a variable declared
// outside that loop, a store to the variable inside the loop dominates the
// load (re-established in every iteration).
func checkStrongSumFresh(p *Prog, r *Report) {
	rule := "C16/STRONG-SUM-PER-OFFSET"
	r.Rule(rule, "the strong checksum compared in hashSearch's bytes.Equal gate is computed for the current scan offset: it does not reach the comparison through a phi at the header of the offset-advancing loop carrying a non-nil value around the back edge, nor through a variable that outlives an iteration of that loop without a dominating store in the iteration", 1)
	g := p.ModGraph()
	hs := anchorFunc(p, r, pkgSender, "Transfer", "hashSearch")
	if hs == nil {
		return
	}
	n := 0
	for _, fn := range g.unitFuncs(hs) {
		loops := naturalLoops(fn)
		// loops that advance the scan offset: a store x = x + 1 to a variable named offset
		var adv []*loopInfo
		for _, li := range loops {
			found := false
			for b := range li.body {
				for _, in := range b.Instrs {
					st, ok := in.(*ssa.Store)
					if !ok {
						continue
					}
					name := ""
					if al, ok := st.Addr.(*ssa.Alloc); ok {
						name = al.Comment
					} else if fv, ok := st.Addr.(*ssa.FreeVar); ok {
						name = fv.Name()
					}
					if name != "offset" {
						continue
					}
					if bo, ok := st.Val.(*ssa.BinOp); ok && bo.Op == token.ADD {
						if k, isK := constInt(bo.Y); isK && k == 1 {
							found = true
						}
					}
				}
			}
			if found {
				adv = append(adv, li)
			}
		}
		allCalls(fn, func(c ssa.CallInstruction) {
			if calleeName(c) != "bytes.Equal" {
				return
			}
			// In a helper without an offset loop of its own (findMatch) locals are
			// fresh per call, i.e. per offset; only a captured or field-held value
			// could survive (judged below: a FreeVar cell has no dominating store here).
			helperOnly := len(adv) == 0 && fn != hs
			for _, arg := range c.Common().Args {
				sl, ok := arg.(*ssa.Slice)
				if !ok {
					continue
				}
				v := sl.X
				// only the locally computed side: something that can be a Checksum2 result
				isLocal := false
				seenPhi := map[*ssa.Phi]bool{}
				bad := ""
				var walk func(v ssa.Value, depth int)
				walk = func(v ssa.Value, depth int) {
					if depth > 8 {
						return
					}
					switch x := v.(type) {
					case *ssa.Call:
						if calleeName(x) == pkgChecksum+".Checksum2" {
							isLocal = true
						}
					case *ssa.Phi:
						if seenPhi[x] {
							return
						}
						seenPhi[x] = true
						for _, li := range adv {
							if x.Block() != li.header {
								continue
							}
							for i, e := range x.Edges {
								if li.body[x.Block().Preds[i]] && !isNilConst(e) && e != ssa.Value(x) {
									bad = "it is carried around the offset loop (phi at " + p.Pos(instrPos(x)) + ")"
								}
							}
						}
						for _, e := range x.Edges {
							walk(e, depth+1)
						}
					case *ssa.UnOp:
						if x.Op != token.MUL {
							return
						}
						cell := x.X
						var cellBlock *ssa.BasicBlock
						var stores []*ssa.Store
						switch cl := cell.(type) {
						case *ssa.Alloc:
							cellBlock = cl.Block()
							for _, ref := range *cl.Referrers() {
								if st, ok := ref.(*ssa.Store); ok && st.Addr == ssa.Value(cl) {
									stores = append(stores, st)
								}
							}
						case *ssa.FreeVar:
							// captured from the parent: lives outside this function's loops
							for _, ref := range *cl.Referrers() {
								if st, ok := ref.(*ssa.Store); ok && st.Addr == ssa.Value(cl) {
									stores = append(stores, st)
								}
							}
							if helperOnly {
								dom := false
								for _, st := range stores {
									if InstrDominates(st, x) {
										dom = true
									}
								}
								if !dom {
									bad = "it is kept in a captured variable and no store in this call dominates its use at " + p.Pos(instrPos(x))
								}
							}
						default:
							return
						}
						for _, st := range stores {
							walk(st.Val, depth+1)
						}
						for _, li := range adv {
							if !li.body[x.Block()] || (cellBlock != nil && li.body[cellBlock]) {
								continue // declared inside the iteration
							}
							dom := false
							for _, st := range stores {
								if li.body[st.Block()] && InstrDominates(st, x) {
									dom = true
								}
							}
							if !dom {
								bad = "it is kept in a variable that outlives the step to the next offset and no store inside the iteration dominates its use at " + p.Pos(instrPos(x))
							}
						}
					}
				}
				walk(v, 0)
				if !isLocal {
					continue
				}
				if len(adv) == 0 && !helperOnly {
					continue
				}
				n++
				r.Cond(bad == "", rule, funcKey(fn)+" strong checksum of the current offset", p.Pos(instrPos(c)), "the strong checksum compared here may be the one computed at an earlier offset: "+bad+"; after one false alarm every later match is rejected and the rest of the file is sent as literal data")
			}
		})
	}
	if n == 0 {
		r.Unk(rule, "strong checksum gate", p.Pos(hs.Pos()), "no bytes.Equal on a Checksum2 result inside a loop that advances `offset`: the search was restructured, re-read")
	}
}
