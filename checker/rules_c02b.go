package main

import (
	"fmt"
	"go/token"
	"go/types"

	"golang.org/x/tools/go/ssa"
)

// linForm: v = a·x + b for a designated leaf x (found while descending).
type linForm struct {
	a, b int64
	leaf ssa.Value
}

// linearIn normalises an integer expression built from one non-constant leaf
// by +, −, unary − and constants (conversions between integer types are looked
// through; a parameter is replaced by the argument of its unique direct call
// site). ok=false for anything else (two leaves, multiplication, …).
func linearIn(g *ModGraph, v ssa.Value, depth int) (linForm, bool) {
	if depth > 12 {
		return linForm{}, false
	}
	if k, ok := constInt(v); ok {
		return linForm{0, k, nil}, true
	}
	switch x := v.(type) {
	case *ssa.Convert:
		if isIntType(x.Type()) && isIntType(x.X.Type()) {
			return linearIn(g, x.X, depth+1)
		}
	case *ssa.ChangeType:
		return linearIn(g, x.X, depth+1)
	case *ssa.UnOp:
		if x.Op == token.SUB {
			f, ok := linearIn(g, x.X, depth+1)
			if !ok {
				return f, false
			}
			return linForm{-f.a, -f.b, f.leaf}, true
		}
	case *ssa.BinOp:
		if x.Op == token.ADD || x.Op == token.SUB {
			l, ok1 := linearIn(g, x.X, depth+1)
			r, ok2 := linearIn(g, x.Y, depth+1)
			if !ok1 || !ok2 {
				return linForm{}, false
			}
			if l.leaf != nil && r.leaf != nil && l.leaf != r.leaf {
				return linForm{}, false
			}
			leaf := l.leaf
			if leaf == nil {
				leaf = r.leaf
			}
			if x.Op == token.ADD {
				return linForm{l.a + r.a, l.b + r.b, leaf}, true
			}
			return linForm{l.a - r.a, l.b - r.b, leaf}, true
		}
	case *ssa.Parameter:
		if g != nil {
			roots := g.paramRoots(x, 0)
			if len(roots) == 1 && roots[0] != ssa.Value(x) {
				return linearIn(g, roots[0], depth+1)
			}
		}
	}
	return linForm{1, 0, v}, true
}

// checkTokenCodec — C02/TOKEN-CODEC: the sender writes a block reference i as
// the wire integer e(i), the receiver turns the wire integer w back into the
// block index d(w); both are affine, and d∘e must be the identity.
func checkTokenCodec(p *Prog, r *Report) {
	rule := "C02/TOKEN-CODEC"
	r.Rule(rule, "block references survive the wire: the integer the sender writes for block i (an affine function e of its token parameter, e(i) = −(i+1)) and the block index the receiver derives from the wire integer before multiplying it with the block length (an affine function d) compose to the identity, d(e(i)) = i; both are negative for i ≥ 0 (positive integers are literal lengths, 0 ends the file)", 2)
	g := p.ModGraph()
	sst := p.Func(pkgSender, "Transfer", "simpleSendToken")
	rd := p.Func(pkgReceiver, "Transfer", "receiveData")
	blF := p.Field(modPath, "SumHead", "BlockLength")
	if sst == nil || rd == nil || blF == nil {
		r.Unk(rule, "anchors", "-", "simpleSendToken / receiveData / SumHead.BlockLength not found")
		return
	}
	// encoder: a WriteInt32 whose argument is affine in the `token` parameter with a ≠ 0
	var enc *linForm
	encPos := p.Pos(sst.Pos())
	var tokenParam *ssa.Parameter
	for _, pp := range sst.Params {
		if pp.Name() == "token" {
			tokenParam = pp
		}
	}
	allCalls(sst, func(c ssa.CallInstruction) {
		if calleeName(c) != "(*"+pkgWire+".Conn).WriteInt32" {
			return
		}
		f, ok := linearIn(nil, c.Common().Args[1], 0)
		if ok && f.leaf != nil && f.a != 0 {
			if pp, isP := f.leaf.(*ssa.Parameter); isP && (tokenParam == nil || pp == tokenParam) && isIntType(pp.Type()) {
				// the literal-length write is also affine in a parameter-free value; only the token parameter counts
				if tokenParam != nil || pp.Name() != "n" {
					ff := f
					enc = &ff
					encPos = p.Pos(instrPos(c))
				}
			}
		}
	})
	if enc == nil {
		r.Unk(rule, "sender: wire integer of a block reference", encPos, "no WriteInt32 of an affine function of the token parameter in simpleSendToken: the token encoding changed shape, re-read")
		return
	}
	// decoder: ReadAt offset = conv(T) * conv(BlockLength) in the receiveData unit
	var dec *linForm
	decPos := p.Pos(rd.Pos())
	for _, u := range g.unitFuncs(rd) {
		allCalls(u, func(c ssa.CallInstruction) {
			if calleeName(c) != "(*os.File).ReadAt" {
				return
			}
			off := stripConv(helperResult(c.Common().Args[2]))
			bo, ok := off.(*ssa.BinOp)
			if !ok || bo.Op != token.MUL {
				return
			}
			for _, pr := range [][2]ssa.Value{{bo.X, bo.Y}, {bo.Y, bo.X}} {
				if _, f := loadedField(stripConv(pr[1])); f != blF {
					continue
				}
				if lf, ok := linearIn(g, pr[0], 0); ok && lf.leaf != nil {
					ff := lf
					dec = &ff
					decPos = p.Pos(instrPos(c))
				}
			}
		})
	}
	if dec == nil {
		r.Unk(rule, "receiver: block index of a wire integer", decPos, "the basis offset is not (affine function of the wire integer) × BlockLength: the token decoding changed shape, re-read")
		return
	}
	// the decoder's leaf must be the wire integer: result #0 of recvToken (or of Conn.ReadInt32)
	leafOK := false
	if c, i := extractOf(unwrapLocal(dec.leaf)); c != nil && i == 0 {
		n := calleeName(c)
		if sc := c.Common().StaticCallee(); (sc != nil && sc.Name() == "recvToken") || n == "(*"+pkgWire+".Conn).ReadInt32" {
			leafOK = true
		}
	}
	r.Cond(leafOK, rule, "receiver decodes the integer read from the wire", decPos, "the value the block index is derived from is not the token read from the connection")
	ida := dec.a * enc.a
	idb := dec.a*enc.b + dec.b
	r.Cond(ida == 1 && idb == 0, rule, "decode(encode(i)) = i", encPos,
		fmt.Sprintf("sender writes %d·i%+d, receiver computes %d·w%+d: composition is %d·i%+d, not i — every block reference addresses another block of the basis", enc.a, enc.b, dec.a, dec.b, ida, idb))
	// e(i) < 0 for all i ≥ 0  ⇔  a < 0 and b < 0  (a = −1: e(0) = b)
	r.Cond(enc.a < 0 && enc.b < 0, rule, "block references are negative on the wire", encPos, "a block reference must not collide with literal lengths (> 0) or the end marker (0)")
}

// checkBlockLengthSiblings — C02/BLOCK-LENGTH: sender (receiveSums) and
// receiver (receiveData) attribute the same length to block i.
func checkBlockLengthSiblings(p *Prog, r *Report) {
	rule := "C02/BLOCK-LENGTH"
	r.Rule(rule, "both ends give block i the same length: in sender.receiveSums (SumBuf.Len) and in the receiver's block copy (the buffer handed to ReadAt) the length is SumHead.RemainderLength exactly under i == ChecksumCount−1 ∧ RemainderLength ≠ 0 and SumHead.BlockLength otherwise", 2)
	g := p.ModGraph()
	blF := p.Field(modPath, "SumHead", "BlockLength")
	remF := p.Field(modPath, "SumHead", "RemainderLength")
	cntF := p.Field(modPath, "SumHead", "ChecksumCount")
	lenF := p.Field(modPath, "SumBuf", "Len")
	rs := p.Func(pkgSender, "Transfer", "receiveSums")
	rd := p.Func(pkgReceiver, "Transfer", "receiveData")
	if blF == nil || remF == nil || cntF == nil || lenF == nil || rs == nil || rd == nil {
		r.Unk(rule, "anchors", "-", "SumHead fields / receiveSums / receiveData not found")
		return
	}
	type leaf struct {
		val   ssa.Value
		facts []Fact
		pos   token.Pos
	}
	classify := func(where string, leaves []leaf, pos string) {
		if len(leaves) == 0 {
			r.Unk(rule, where, pos, "no block length found: re-read")
			return
		}
		nRem := 0
		bad := ""
		for _, l := range leaves {
			// a leaf behind a constant-false guard is dead code
			dead := false
			for _, ft := range l.facts {
				if k, ok := ft.Cond.(*ssa.Const); ok && k.Value != nil && (k.Value.String() == "true") != ft.Val {
					dead = true
				}
			}
			if dead {
				continue
			}
			_, f := loadedField(stripConv(l.val))
			switch f {
			case remF:
				nRem++
				last, nz := false, false
				for _, ft := range l.facts {
					bo, ok := ft.Cond.(*ssa.BinOp)
					if !ok {
						continue
					}
					if (bo.Op == token.EQL && ft.Val) || (bo.Op == token.NEQ && !ft.Val) {
						for _, side := range []ssa.Value{bo.X, bo.Y} {
							if sb, ok := stripConv(side).(*ssa.BinOp); ok && sb.Op == token.SUB {
								if _, cf := loadedField(stripConv(sb.X)); cf == cntF {
									if k, isK := constInt(sb.Y); isK && k == 1 {
										last = true
									}
								}
							}
						}
					}
					if (bo.Op == token.NEQ && ft.Val) || (bo.Op == token.EQL && !ft.Val) {
						if _, rf := loadedField(stripConv(bo.X)); rf == remF {
							if k, isK := constInt(bo.Y); isK && k == 0 {
								nz = true
							}
						}
					}
				}
				if !last || !nz {
					bad = "RemainderLength is used without both tests (last block, remainder non-zero)"
				}
			case blF:
			default:
				bad = "a block length that is neither BlockLength nor RemainderLength: `" + l.val.String() + "`"
			}
		}
		if bad == "" && nRem == 0 {
			bad = "the last block never gets RemainderLength: a short last block is read/hashed with the full block length"
		}
		r.Cond(bad == "", rule, where, pos, bad)
	}
	// expand: phis (with the facts of the edge), helper calls (with the facts at each return), conversions
	var expand func(v ssa.Value, ctx []Fact, pos token.Pos, depth int) []leaf
	expand = func(v ssa.Value, ctx []Fact, pos token.Pos, depth int) []leaf {
		if depth > 4 {
			return []leaf{{v, ctx, pos}}
		}
		var out []leaf
		for _, el := range phiEdgeLeaves(v) {
			facts := append([]Fact{}, ctx...)
			if el.pred != nil {
				facts = append(edgeFacts(el), facts...)
			}
			inner := stripConv(el.leaf)
			if c, ok := inner.(*ssa.Call); ok {
				if h := c.Common().StaticCallee(); h != nil && h.Blocks != nil && isModFunc(h) && h.Signature.Results().Len() == 1 {
					for _, hb := range h.Blocks {
						if ret, ok := lastInstr(hb).(*ssa.Return); ok {
							out = append(out, expand(retResults(ret)[0], append(FactsAtBlock(hb), facts...), ret.Pos(), depth+1)...)
						}
					}
					continue
				}
			}
			out = append(out, leaf{el.leaf, facts, pos})
		}
		return out
	}
	// sender: stores to SumBuf.Len in receiveSums (or the sender functions it was split into)
	var sl []leaf
	for _, u := range g.unitFuncs(rs) {
		for _, b := range u.Blocks {
			for _, in := range b.Instrs {
				st, ok := in.(*ssa.Store)
				if !ok {
					continue
				}
				if _, f := fieldOfAddr(st.Addr); f != lenF {
					continue
				}
				sl = append(sl, expand(st.Val, FactsAtBlock(st.Block()), st.Pos(), 0)...)
			}
		}
	}
	classify("sender.receiveSums: SumBuf.Len", sl, p.Pos(rs.Pos()))
	// receiver: length of the buffer handed to ReadAt
	var rl []leaf
	pos := p.Pos(rd.Pos())
	for _, u := range g.unitFuncs(rd) {
		allCalls(u, func(c ssa.CallInstruction) {
			if calleeName(c) != "(*os.File).ReadAt" {
				return
			}
			pos = p.Pos(instrPos(c))
			mk, ok := unwrapLocal(c.Common().Args[1]).(*ssa.MakeSlice)
			if !ok {
				return
			}
			rl = append(rl, expand(stripConv(mk.Len), FactsAtBlock(mk.Block()), mk.Pos(), 0)...)
		})
	}
	classify("receiver block copy: ReadAt buffer length", rl, pos)
	_ = types.Typ
}

// edgeFacts: facts that hold when the leaf travels over its CFG edge into the phi.
func edgeFacts(lf edgeLeaf) []Fact {
	var facts []Fact
	if lf.pred == nil {
		return nil
	}
	facts = append(facts, FactsAtBlock(lf.pred)...)
	if ifi, ok := lastInstr(lf.pred).(*ssa.If); ok && len(lf.pred.Succs) == 2 && lf.pred.Succs[0] != lf.pred.Succs[1] {
		for k, s := range lf.pred.Succs {
			if s == lf.to {
				facts = append(facts, normFact(Fact{Cond: ifi.Cond, Val: k == 0, If: ifi}))
			}
		}
	}
	return facts
}

// ---------------------------------------------------------------------------
// affine forms over a few named symbols, evaluated per case of one selector atom

type affForm map[string]int64 // symbol → coefficient; "" → constant term

func (a affForm) eq(b affForm) bool {
	for k, v := range a {
		if v != b[k] {
			return false
		}
	}
	for k, v := range b {
		if v != a[k] {
			return false
		}
	}
	return true
}

func (a affForm) String() string {
	s := ""
	for _, k := range []string{"offset", "lastMatch", "Len", ""} {
		if v := a[k]; v != 0 {
			if k == "" {
				s += fmt.Sprintf("%+d", v)
			} else {
				s += fmt.Sprintf("%+d·%s", v, k)
			}
		}
	}
	for k, v := range a {
		if v != 0 && k != "offset" && k != "lastMatch" && k != "Len" && k != "" {
			s += fmt.Sprintf("%+d·%s", v, k)
		}
	}
	if s == "" {
		return "0"
	}
	return s
}

type affEval struct {
	sym   func(ssa.Value) (string, bool) // opaque leaf → symbol
	isSel func(ssa.Value) (neg bool, ok bool)
	sel   bool // the case being evaluated: selector atom is true/false
}

func (e *affEval) eval(v ssa.Value, depth int) (affForm, bool) {
	if depth > 14 {
		return nil, false
	}
	if k, ok := constInt(v); ok {
		return affForm{"": k}, true
	}
	if s, ok := e.sym(v); ok {
		return affForm{s: 1}, true
	}
	switch x := v.(type) {
	case *ssa.Convert:
		if isIntType(x.Type()) && isIntType(x.X.Type()) {
			return e.eval(x.X, depth+1)
		}
	case *ssa.ChangeType:
		return e.eval(x.X, depth+1)
	case *ssa.UnOp:
		if x.Op == token.SUB {
			f, ok := e.eval(x.X, depth+1)
			if !ok {
				return nil, false
			}
			out := affForm{}
			for k, c := range f {
				out[k] = -c
			}
			return out, true
		}
		if x.Op == token.MUL {
			if u := unwrapLocal(x); u != ssa.Value(x) {
				return e.eval(u, depth+1)
			}
		}
	case *ssa.BinOp:
		if x.Op == token.ADD || x.Op == token.SUB {
			l, ok1 := e.eval(x.X, depth+1)
			r, ok2 := e.eval(x.Y, depth+1)
			if !ok1 || !ok2 {
				return nil, false
			}
			out := affForm{}
			for k, c := range l {
				out[k] += c
			}
			for k, c := range r {
				if x.Op == token.ADD {
					out[k] += c
				} else {
					out[k] -= c
				}
			}
			return out, true
		}
	case *ssa.Phi:
		var pick ssa.Value
		n := 0
		for i, edge := range x.Edges {
			if e.edgeContradicts(x.Block().Preds[i], x.Block()) {
				continue
			}
			// several surviving edges with the same value are one choice
			if pick != nil && edge == pick {
				continue
			}
			pick = edge
			n++
		}
		if n == 1 {
			return e.eval(pick, depth+1)
		}
		if n > 1 {
			// all surviving edges must evaluate to the same form
			var first affForm
			for i, edge := range x.Edges {
				if e.edgeContradicts(x.Block().Preds[i], x.Block()) {
					continue
				}
				f, ok := e.eval(edge, depth+1)
				if !ok {
					return nil, false
				}
				if first == nil {
					first = f
				} else if !first.eq(f) {
					return nil, false
				}
			}
			return first, first != nil
		}
	}
	return nil, false
}

// edgeContradicts: the CFG edge pred→to is only taken when the selector atom
// has the other truth value.
func (e *affEval) edgeContradicts(pred, to *ssa.BasicBlock) bool {
	facts := append([]Fact{}, FactsAtBlock(pred)...)
	if ifi, ok := lastInstr(pred).(*ssa.If); ok && len(pred.Succs) == 2 && pred.Succs[0] != pred.Succs[1] {
		for k, s := range pred.Succs {
			if s == to {
				facts = append(facts, normFact(Fact{Cond: ifi.Cond, Val: k == 0, If: ifi}))
			}
		}
	}
	for _, f := range facts {
		if neg, ok := e.isSel(f.Cond); ok {
			val := f.Val != neg
			if val != e.sel {
				return true
			}
		}
	}
	return false
}

// checkCoversEveryByte — C02/COVERS-EVERY-BYTE. In sender.matched(offset, i):
// the literal run handed to sendToken is [lastMatch, offset); the bytes fed to
// the whole-file hash are n = offset − lastMatch (+ Sums[i].Len for a block
// reference) starting at lastMatch; and lastMatch advances to offset
// (+ Sums[i].Len). Together: every byte of the file is sent (as literal or as
// a reference) and hashed exactly once, in order.
func checkCoversEveryByte(p *Prog, r *Report) {
	rule := "C02/COVERS-EVERY-BYTE"
	r.Rule(rule, "sender.matched partitions the file: for both cases (i < 0: literal flush; i ≥ 0: block reference) the literal run sent is sendToken(…, i, lastMatch, offset − lastMatch), the number of bytes hashed from lastMatch on is offset − lastMatch (+ Sums[i].Len for a block reference), and lastMatch becomes offset (+ Sums[i].Len): lastMatch' = lastMatch + bytes hashed, so nothing is skipped or hashed twice — checked as affine forms over {offset, lastMatch, Sums[i].Len}", 6)
	m := p.Func(pkgSender, "Transfer", "matched")
	lmF := p.Field(pkgSender, "Transfer", "lastMatch")
	lenF := p.Field(modPath, "SumBuf", "Len")
	if m == nil || lmF == nil || lenF == nil {
		r.Unk(rule, "anchors", "-", "matched / Transfer.lastMatch / SumBuf.Len not found")
		return
	}
	var offP, iP *ssa.Parameter
	for _, pp := range m.Params {
		switch pp.Name() {
		case "offset":
			offP = pp
		case "i":
			iP = pp
		}
	}
	if offP == nil || iP == nil {
		r.Unk(rule, "matched parameters", p.Pos(m.Pos()), "parameters offset / i not found: signature changed, re-read")
		return
	}
	g := p.ModGraph()
	unit := g.unitFuncs(m)
	// stores to lastMatch in the unit
	var stores []*ssa.Store
	for _, u := range unit {
		if u != m {
			continue
		}
		for _, b := range u.Blocks {
			for _, in := range b.Instrs {
				if st, ok := in.(*ssa.Store); ok {
					if _, f := fieldOfAddr(st.Addr); f == lmF {
						stores = append(stores, st)
					}
				}
			}
		}
	}
	sym := func(v ssa.Value) (string, bool) {
		if v == ssa.Value(offP) {
			return "offset", true
		}
		if ld, ok := v.(*ssa.UnOp); ok && ld.Op == token.MUL {
			if _, f := fieldOfAddr(ld.X); f == lmF {
				// only loads that no store to lastMatch can precede
				for _, st := range stores {
					if mayFollow(st, ld) {
						return "", false
					}
				}
				return "lastMatch", true
			}
			if _, f := fieldOfAddr(ld.X); f == lenF {
				return "Len", true
			}
		}
		return "", false
	}
	isSel := func(v ssa.Value) (bool, bool) { // atom: i < 0
		bo, ok := v.(*ssa.BinOp)
		if !ok || stripConv(bo.X) != ssa.Value(iP) {
			return false, false
		}
		k, isK := constInt(bo.Y)
		if !isK {
			return false, false
		}
		switch {
		case bo.Op == token.LSS && k == 0:
			return false, true
		case bo.Op == token.GEQ && k == 0:
			return true, true
		}
		return false, false
	}
	// anchors: sendToken call, the hash loop bound, the stores
	var tok ssa.CallInstruction
	allCalls(m, func(c ssa.CallInstruction) {
		if sc := c.Common().StaticCallee(); sc != nil && (sc.Name() == "sendToken" || sc.Name() == "simpleSendToken") {
			tok = c
		}
	})
	// hash loop: the ptr call whose result is written to the hash; its offset = base + j, bound from the loop condition j < n
	var hashPtr *ssa.Call
	var bound ssa.Value
	for _, u := range unit {
		allCalls(u, func(c ssa.CallInstruction) {
			call, ok := c.(*ssa.Call)
			if !ok || calleeName(c) != "(*"+pkgSender+".mapStruct).ptr" {
				return
			}
			ls := loopsContaining(naturalLoops(u), c.Block())
			if len(ls) == 0 {
				return
			}
			// the loop writes to a hash (invoke Write) with the chunk
			wr := false
			allCalls(u, func(w ssa.CallInstruction) {
				if w.Common().IsInvoke() && w.Common().Method.Name() == "Write" && ls[0].body[w.Block()] && w.Common().Value.Type().String() == "hash.Hash" {
					if ex, i := extractOf(w.Common().Args[0]); ex == call && i == 0 {
						wr = true
					}
				}
			})
			if !wr {
				return
			}
			hashPtr = call
			for b := range ls[0].body {
				if ifi, ok := lastInstr(b).(*ssa.If); ok {
					if bo, ok := ifi.Cond.(*ssa.BinOp); ok && bo.Op == token.LSS {
						if _, isPhi := bo.X.(*ssa.Phi); isPhi {
							bound = bo.Y
						}
					}
				}
			}
		})
	}
	for _, c := range []struct {
		sel  bool
		name string
		len  int64
	}{{true, "literal flush (i < 0)", 0}, {false, "block reference (i ≥ 0)", 1}} {
		ev := &affEval{sym: sym, isSel: isSel, sel: c.sel}
		wantN0 := affForm{"offset": 1, "lastMatch": -1}
		wantN := affForm{"offset": 1, "lastMatch": -1, "Len": c.len}
		wantLM := affForm{"offset": 1, "Len": c.len}
		// (1) sendToken(ms, i, lastMatch, offset − lastMatch)
		if tok == nil {
			r.Unk(rule, c.name+": literal run", p.Pos(m.Pos()), "no sendToken call in matched")
		} else {
			a := tok.Common().Args
			okTok := false
			why := "cannot evaluate the arguments"
			if len(a) >= 4 {
				base, ok1 := ev.eval(a[len(a)-2], 0)
				n0, ok2 := ev.eval(a[len(a)-1], 0)
				if ok1 && ok2 {
					okTok = base.eq(affForm{"lastMatch": 1}) && n0.eq(wantN0)
					why = "literal run is [" + base.String() + ", +" + n0.String() + "), expected [lastMatch, +offset−lastMatch)"
				}
			}
			r.Cond(okTok, rule, c.name+": literal run", p.Pos(instrPos(tok)), why)
		}
		// (2) bytes hashed
		if hashPtr == nil || bound == nil {
			r.Unk(rule, c.name+": bytes hashed", p.Pos(m.Pos()), "no chunked ptr→hash.Write loop found in the matched unit")
		} else {
			okH := false
			why := "cannot evaluate the loop bound / start"
			// bound and base may be parameters of a split-out helper: map to the caller's arguments
			bv, sv := bound, hashPtr.Common().Args[1]
			if hashPtr.Parent() != m {
				if roots := g.paramRoots(bv, 0); len(roots) == 1 {
					bv = roots[0]
				}
			}
			n, ok1 := ev.eval(bv, 0)
			// start: ptr(base + j, …): strip the induction variable (a phi that starts at 0)
			startOK := false
			if bo, ok := stripConv(sv).(*ssa.BinOp); ok && bo.Op == token.ADD {
				for _, pr := range [][2]ssa.Value{{bo.X, bo.Y}, {bo.Y, bo.X}} {
					if _, isPhi := stripConv(pr[1]).(*ssa.Phi); isPhi {
						bs := pr[0]
						if hashPtr.Parent() != m {
							if roots := g.paramRoots(bs, 0); len(roots) == 1 {
								bs = roots[0]
							}
						}
						if b, ok := ev.eval(bs, 0); ok && b.eq(affForm{"lastMatch": 1}) {
							startOK = true
						}
					}
				}
			}
			if ok1 {
				okH = n.eq(wantN) && startOK
				why = "hashes " + n.String() + " bytes (start at lastMatch: " + fmt.Sprint(startOK) + "), expected " + wantN.String() + " from lastMatch"
			}
			r.Cond(okH, rule, c.name+": bytes hashed", p.Pos(instrPos(hashPtr)), why)
		}
		// (3) lastMatch' — the store that this case reaches
		nSt := 0
		okLM := true
		why := ""
		for _, st := range stores {
			contradicted := false
			for _, f := range FactsAtBlock(st.Block()) {
				if neg, ok := isSel(f.Cond); ok && (f.Val != neg) != c.sel {
					contradicted = true
				}
			}
			if contradicted {
				continue
			}
			nSt++
			v, ok := ev.eval(st.Val, 0)
			if !ok || !v.eq(wantLM) {
				okLM = false
				if ok {
					why = "lastMatch becomes " + v.String() + ", expected " + wantLM.String()
				} else {
					why = "cannot evaluate the value stored to lastMatch"
				}
			}
		}
		if nSt == 0 {
			okLM, why = false, "lastMatch is not advanced in this case"
		}
		r.Cond(okLM, rule, c.name+": lastMatch advances by the bytes hashed", p.Pos(m.Pos()), why)
	}
}
