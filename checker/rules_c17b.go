package main

import (
	"go/token"
	"go/types"
	"sort"
	"strings"

	"golang.org/x/tools/go/ssa"
)

// C17/FRAME-ATOMIC (lock discipline, F26).
//
// A daemon session has more than one goroutine writing frames to the one
// MultiplexWriter (the generator goroutine, and handleConn's deferred error
// frame, which is sent without joining the generator: C18/WAITFOR-NONBLOCKING
// requires Do to return without waiting). "Every frame a server emits is well
// formed" for all schedules then needs the header and the payload of a frame
// to be written as one unit. Decided here:
//
//   (1) every call that writes to the value of the field MultiplexWriter.Writer
//       executes with a sync.Mutex held that lives in the MultiplexWriter (or
//       in a package-level variable): forward must-analysis over the CFG,
//       Lock adds, a non-deferred Unlock removes, a deferred Unlock is ignored
//       (it runs at exit), a callee's summary (keys held at all its returns /
//       may unlock) is applied at direct calls, and a function's entry state is
//       the intersection over its call sites (depth ≤ 3);
//   (2) no Unlock executes between a header write (encoding/binary.Write to the
//       underlying writer) and the next write to the underlying writer (the
//       payload): forward may-analysis.
//
// The rule is armed only while some spawned goroutine (go statement or
// errgroup.Go literal) reaches (*MultiplexWriter).WriteMsg in the module call
// graph; otherwise every site is discharged as "single writer context".

type lockKey string

type lockSummary struct {
	exitHeld  map[lockKey]bool
	mayUnlock bool
}

type lockAnalysis struct {
	p        *Prog
	g        *ModGraph
	owner    *types.Named // the struct whose mutex fields count
	sums     map[*ssa.Function]*lockSummary
	entry    map[*ssa.Function]map[lockKey]bool
	inflight map[*ssa.Function]bool
}

func isMutexMethod(c ssa.CallInstruction, names ...string) bool {
	n := calleeName(c)
	for _, m := range names {
		if n == "(*sync.Mutex)."+m || n == "(*sync.RWMutex)."+m {
			return true
		}
	}
	return false
}

// keyOfMutex: the mutex operand is a field of the owner struct (any instance:
// the caller passes its own receiver on, checked at call edges) or a global.
func (la *lockAnalysis) keyOfMutex(v ssa.Value) (lockKey, bool) {
	switch x := v.(type) {
	case *ssa.FieldAddr:
		if _, f := fieldOfAddr(x); f != nil {
			if n := namedOf(x.X.Type()); n != nil && la.owner != nil && n.Obj() == la.owner.Obj() {
				return lockKey("field " + f.Name()), true
			}
		}
	case *ssa.Global:
		return lockKey("global " + x.Name()), true
	}
	return "", false
}

func copyKeys(m map[lockKey]bool) map[lockKey]bool {
	o := map[lockKey]bool{}
	for k, v := range m {
		if v {
			o[k] = true
		}
	}
	return o
}

func intersectKeys(a, b map[lockKey]bool) map[lockKey]bool {
	o := map[lockKey]bool{}
	for k := range a {
		if a[k] && b[k] {
			o[k] = true
		}
	}
	return o
}

func sameKeys(a, b map[lockKey]bool) bool {
	if len(a) != len(b) {
		return false
	}
	for k := range a {
		if !b[k] {
			return false
		}
	}
	return true
}

// step applies one instruction to the held set.
func (la *lockAnalysis) step(held map[lockKey]bool, in ssa.Instruction, depth int) {
	c, ok := in.(ssa.CallInstruction)
	if !ok {
		return
	}
	if _, isDefer := in.(*ssa.Defer); isDefer {
		return // runs at function exit
	}
	if _, isGo := in.(*ssa.Go); isGo {
		return
	}
	if isMutexMethod(c, "Lock") && len(c.Common().Args) > 0 {
		if k, ok := la.keyOfMutex(c.Common().Args[0]); ok {
			held[k] = true
		}
		return
	}
	if isMutexMethod(c, "Unlock") && len(c.Common().Args) > 0 {
		if k, ok := la.keyOfMutex(c.Common().Args[0]); ok {
			delete(held, k)
		} else {
			for k := range held {
				delete(held, k)
			}
		}
		return
	}
	callee := c.Common().StaticCallee()
	if callee == nil || callee.Blocks == nil || !isModFunc(callee) {
		return
	}
	s := la.summary(callee, depth+1)
	if s.mayUnlock {
		for k := range held {
			delete(held, k)
		}
	}
	for k := range s.exitHeld {
		held[k] = true
	}
}

// flow runs the must-analysis over fn from the given entry state and returns
// the state before every instruction.
func (la *lockAnalysis) flow(fn *ssa.Function, entry map[lockKey]bool, depth int) map[ssa.Instruction]map[lockKey]bool {
	in := map[*ssa.BasicBlock]map[lockKey]bool{}
	out := map[*ssa.BasicBlock]map[lockKey]bool{}
	before := map[ssa.Instruction]map[lockKey]bool{}
	if len(fn.Blocks) == 0 {
		return before
	}
	for changed, iter := true, 0; changed && iter < 50; iter++ {
		changed = false
		for _, b := range fn.Blocks {
			var st map[lockKey]bool
			if b == fn.Blocks[0] {
				st = copyKeys(entry)
			} else {
				first := true
				for _, pr := range b.Preds {
					o, seen := out[pr]
					if !seen {
						continue // optimistic: not yet visited
					}
					if first {
						st, first = copyKeys(o), false
					} else {
						st = intersectKeys(st, o)
					}
				}
				if st == nil {
					st = map[lockKey]bool{}
					if first && len(b.Preds) > 0 {
						continue
					}
				}
			}
			in[b] = copyKeys(st)
			for _, ins := range b.Instrs {
				before[ins] = copyKeys(st)
				la.step(st, ins, depth)
			}
			if o, ok := out[b]; !ok || !sameKeys(o, st) {
				out[b] = st
				changed = true
			}
		}
	}
	return before
}

func (la *lockAnalysis) summary(fn *ssa.Function, depth int) *lockSummary {
	if s, ok := la.sums[fn]; ok {
		return s
	}
	s := &lockSummary{exitHeld: map[lockKey]bool{}}
	if depth > 3 || la.inflight[fn] {
		// unknown callee body: assume it may unlock (fails closed)
		s.mayUnlock = true
		return s
	}
	la.inflight[fn] = true
	defer delete(la.inflight, fn)
	allCalls(fn, func(c ssa.CallInstruction) {
		if isMutexMethod(c, "Unlock") {
			s.mayUnlock = true
		}
	})
	before := la.flow(fn, map[lockKey]bool{}, depth)
	first := true
	for _, b := range fn.Blocks {
		for _, ins := range b.Instrs {
			if _, ok := ins.(*ssa.Return); ok {
				if first {
					s.exitHeld, first = copyKeys(before[ins]), false
				} else {
					s.exitHeld = intersectKeys(s.exitHeld, before[ins])
				}
			}
		}
	}
	if s.mayUnlock {
		// a function that both locks and unlocks (critical section inside, or
		// deferred unlock) leaves nothing held
		s.exitHeld = map[lockKey]bool{}
		// … but a pure critical section does not release the caller's lock of a
		// different key; we do not distinguish: callers lose everything
	}
	la.sums[fn] = s
	return s
}

// entryHeld: what every module call site of fn holds (empty for functions
// with no module caller, with escaping uses, or beyond depth 3).
func (la *lockAnalysis) entryHeld(fn *ssa.Function, depth int) map[lockKey]bool {
	if e, ok := la.entry[fn]; ok {
		return e
	}
	la.entry[fn] = map[lockKey]bool{} // recursion: pessimistic
	if depth > 3 {
		return la.entry[fn]
	}
	var res map[lockKey]bool
	n := 0
	for _, e := range la.g.In[fn] {
		if isTestSupport(pkgPathOfFunc(e.From)) {
			continue
		}
		c, isCall := e.Site.(ssa.CallInstruction)
		if !isCall || e.Escape || c.Common().StaticCallee() != fn {
			res = map[lockKey]bool{}
			n++
			break
		}
		if _, isDefer := e.Site.(*ssa.Defer); isDefer {
			res = map[lockKey]bool{}
			n++
			break
		}
		if _, isGo := e.Site.(*ssa.Go); isGo {
			res = map[lockKey]bool{}
			n++
			break
		}
		bf := la.flow(e.From, la.entryHeld(e.From, depth+1), 0)
		h := bf[e.Site]
		// field keys travel only with the same receiver object
		h2 := map[lockKey]bool{}
		for k := range h {
			if strings.HasPrefix(string(k), "field ") {
				if len(e.From.Params) == 0 || len(c.Common().Args) == 0 || c.Common().Args[0] != ssa.Value(e.From.Params[0]) {
					continue
				}
			}
			h2[k] = true
		}
		if n == 0 {
			res = h2
		} else {
			res = intersectKeys(res, h2)
		}
		n++
	}
	if res == nil {
		res = map[lockKey]bool{}
	}
	la.entry[fn] = res
	return res
}

// goroutineLiterals: function values handed to a go statement or to
// errgroup.Group.Go anywhere in production code of the module.
func goroutineLiterals(p *Prog, within map[*ssa.Function]*Edge) []*ssa.Function {
	var lits []*ssa.Function
	add := func(v ssa.Value) {
		switch x := v.(type) {
		case *ssa.MakeClosure:
			if f, ok := x.Fn.(*ssa.Function); ok {
				lits = append(lits, f)
			}
		case *ssa.Function:
			lits = append(lits, x)
		}
	}
	for _, fn := range p.ModFuncs {
		if isTestSupport(pkgPathOfFunc(fn)) {
			continue
		}
		if _, in := within[fn]; within != nil && !in {
			continue
		}
		for _, b := range fn.Blocks {
			for _, in := range b.Instrs {
				switch x := in.(type) {
				case *ssa.Go:
					if x.Call.IsInvoke() {
						continue
					}
					add(x.Call.Value)
				case ssa.CallInstruction:
					if calleeName(x) == "(*golang.org/x/sync/errgroup.Group).Go" && len(x.Common().Args) > 1 {
						add(x.Common().Args[1])
					}
				}
			}
		}
	}
	return lits
}

func checkFrameAtomic(p *Prog, r *Report) {
	rule := "C17/FRAME-ATOMIC"
	r.Rule(rule, "while a spawned goroutine can reach (*MultiplexWriter).WriteMsg (the generator does; handleConn sends its error frame without joining it): every write to the value of MultiplexWriter.Writer executes with a sync.Mutex of the MultiplexWriter (or a package-level one) held on every path — Lock/Unlock must-analysis over the CFG with callee summaries and caller-derived entry states — and no Unlock runs between a frame's header write and its payload write", 3)
	wm := anchorFunc(p, r, pkgWire, "MultiplexWriter", "WriteMsg")
	fw := p.Field(pkgWire, "MultiplexWriter", "Writer")
	if wm == nil || fw == nil {
		r.Bad(rule, "anchors", "-", "MultiplexWriter.WriteMsg or its Writer field not found")
		return
	}
	g := p.ModGraph()
	owner := namedOf(wm.Signature.Recv().Type())
	la := &lockAnalysis{p: p, g: g, owner: owner, sums: map[*ssa.Function]*lockSummary{}, entry: map[*ssa.Function]map[lockKey]bool{}, inflight: map[*ssa.Function]bool{}}

	// armed? Only goroutines spawned inside a session count (the code reachable
	// from a function that sets up a MultiplexWriter); the accept loop's
	// goroutine per connection has a MultiplexWriter of its own.
	var makers []*ssa.Function
	for _, fn := range p.ModFuncs {
		if isTestSupport(pkgPathOfFunc(fn)) {
			continue
		}
		made := false
		for _, b := range fn.Blocks {
			for _, in := range b.Instrs {
				if st, ok := in.(*ssa.Store); ok {
					if _, f := fieldOfAddr(st.Addr); f == fw {
						made = true
					}
				}
			}
		}
		if made {
			makers = append(makers, fn)
		}
	}
	session := g.Reach(makers, nil)
	lits := goroutineLiterals(p, session)
	reach := g.Reach(lits, nil)
	_, armed := reach[wm]
	if armed {
		r.Info("%s armed: a goroutine spawned inside a session reaches WriteMsg: %s", rule, g.Chain(reach, wm))
	} else {
		r.Info("%s not armed: none of the %d goroutine literals spawned in session code (%d functions that set up a MultiplexWriter) reaches WriteMsg", rule, len(lits), len(makers))
	}

	// write sites: calls that take a load of MultiplexWriter.Writer as the
	// invoke receiver or as an argument
	isUnderlying := func(v ssa.Value) bool {
		v = stripConv(v)
		ld, ok := v.(*ssa.UnOp)
		if !ok || ld.Op != token.MUL {
			return false
		}
		_, f := fieldOfAddr(ld.X)
		return f == fw
	}
	type site struct {
		fn     *ssa.Function
		c      ssa.CallInstruction
		header bool
	}
	var sites []site
	for _, fn := range p.ModFuncs {
		if isTestSupport(pkgPathOfFunc(fn)) {
			continue
		}
		allCalls(fn, func(c ssa.CallInstruction) {
			com := c.Common()
			hit := false
			if com.IsInvoke() && isUnderlying(com.Value) {
				hit = true
			}
			for _, a := range com.Args {
				if isUnderlying(a) {
					hit = true
				}
			}
			if hit {
				sites = append(sites, site{fn, c, calleeName(c) == "encoding/binary.Write"})
			}
		})
	}
	sort.SliceStable(sites, func(i, j int) bool { return instrPos(sites[i].c) < instrPos(sites[j].c) })
	if len(sites) == 0 {
		r.Bad(rule, "write sites", p.Pos(wm.Pos()), "no write to MultiplexWriter.Writer found")
		return
	}

	flows := map[*ssa.Function]map[ssa.Instruction]map[lockKey]bool{}
	for _, s := range sites {

		key := funcKey(s.fn) + " write to the underlying writer"
		if !armed {
			r.OK(rule, key, p.Pos(instrPos(s.c)), "single writer context: no goroutine reaches WriteMsg")
			continue
		}
		bf, ok := flows[s.fn]
		if !ok {
			bf = la.flow(s.fn, la.entryHeld(s.fn, 0), 0)
			flows[s.fn] = bf
		}
		held := bf[s.c]
		if _, isDefer := s.c.(*ssa.Defer); isDefer {
			held = nil
		}
		if len(held) > 0 {
			var ks []string
			for k := range held {
				ks = append(ks, string(k))
			}
			sort.Strings(ks)
			r.OK(rule, key, p.Pos(instrPos(s.c)), "held: "+strings.Join(ks, ", "))
		} else {
			r.Bad(rule, key, p.Pos(instrPos(s.c)), "no mutex of the MultiplexWriter is held on every path to this write: frames of concurrent writers (generator goroutine, handleConn's error frame) can interleave")
		}
	}
	if !armed {
		return
	}
	// (2) no Unlock between a header write and the next underlying write
	fnsWithHeader := map[*ssa.Function]bool{}
	isSite := map[ssa.Instruction]bool{}
	isHeader := map[ssa.Instruction]bool{}
	for _, s := range sites {
		isSite[s.c] = true
		if s.header {
			isHeader[s.c] = true
			fnsWithHeader[s.fn] = true
		}
	}
	var fns []*ssa.Function
	for fn := range fnsWithHeader {
		fns = append(fns, fn)
	}
	sort.Slice(fns, func(i, j int) bool { return funcKey(fns[i]) < funcKey(fns[j]) })
	for _, fn := range fns {
		// state at block exit (may, join = max): 0 no frame open, 1 header
		// written in the current critical section, 2 header written and the
		// mutex released since
		open := map[*ssa.BasicBlock]int{}
		bad := ""
		for changed, iter := true, 0; changed && iter < 50; iter++ {
			changed = false
			for _, b := range fn.Blocks {
				st := 0
				for _, pr := range b.Preds {
					st = max(st, open[pr])
				}
				for _, ins := range b.Instrs {
					c, isCall := ins.(ssa.CallInstruction)
					if !isCall {
						continue
					}
					if _, isDefer := ins.(*ssa.Defer); isDefer {
						continue
					}
					switch {
					case isHeader[ins]:
						st = 1
					case isSite[ins]:
						if st == 2 && bad == "" {
							bad = p.Pos(instrPos(c))
						}
						st = 0
					case isMutexMethod(c, "Unlock"):
						if st == 1 {
							st = 2
						}
					default:
						if callee := c.Common().StaticCallee(); callee != nil && callee.Blocks != nil && isModFunc(callee) && st == 1 {
							if la.summary(callee, 1).mayUnlock {
								st = 2
							}
						}
					}
				}
				if open[b] != st {
					open[b] = st
					changed = true
				}
			}
		}
		key := funcKey(fn) + " header and payload in one critical section"
		if bad != "" {
			r.Bad(rule, key, bad, "this payload write can run after the mutex was released since the frame's header write")
		} else {
			r.OK(rule, key, p.Pos(fn.Pos()), "no Unlock between header write and payload write")
		}
	}
}

// checkSingleFramer — C17/SINGLE-FRAMER: the mutex that keeps a frame together
// lives in the MultiplexWriter, so it serialises only writers that share the
// instance. A second MultiplexWriter built on the connection while session
// goroutines may still be running (an error reporter that wraps the raw writer
// again in a deferred call) writes frames that are not serialised with the
// first one's. Decided: no construction site of a MultiplexWriter (a store to
// its Writer field) is "late" — reachable, in its function or through the
// call sites of its function (depth ≤ 4), from a call that can spawn a session
// goroutine, or run by a defer of a function that makes such a call.
func checkSingleFramer(p *Prog, r *Report) {
	rule := "C17/SINGLE-FRAMER"
	r.Rule(rule, "every construction of a MultiplexWriter (store to its Writer field) happens before any session goroutine can exist: neither in its own function nor along its call sites (depth ≤ 4) is it reachable in the CFG from a call that reaches a `go` statement or errgroup.Go of the transfer packages, and it is not run by a defer of a function containing such a call", 2)
	g := p.ModGraph()
	fw := p.Field(pkgWire, "MultiplexWriter", "Writer")
	if fw == nil {
		r.Bad(rule, "anchor", "-", "MultiplexWriter.Writer not found")
		return
	}
	// spawners of the transfer packages
	spawner := map[*ssa.Function]bool{}
	for _, fn := range p.ModFuncs {
		pk := pkgPathOfFunc(fn)
		if pk != pkgReceiver && pk != pkgSender {
			continue
		}
		for _, b := range fn.Blocks {
			for _, in := range b.Instrs {
				switch x := in.(type) {
				case *ssa.Go:
					spawner[fn] = true
				case ssa.CallInstruction:
					if calleeName(x) == "(*golang.org/x/sync/errgroup.Group).Go" {
						spawner[fn] = true
					}
				}
			}
		}
	}
	reachCache := map[*ssa.Function]bool{}
	reachesSpawn := func(fn *ssa.Function) bool {
		if fn == nil {
			return false
		}
		if v, ok := reachCache[fn]; ok {
			return v
		}
		res := false
		for f := range g.Reach([]*ssa.Function{fn}, nil) {
			if spawner[f] {
				res = true
				break
			}
		}
		reachCache[fn] = res
		return res
	}
	callSpawns := func(c ssa.CallInstruction) bool {
		if _, isDefer := c.(*ssa.Defer); isDefer {
			return false
		}
		if sc := c.Common().StaticCallee(); sc != nil {
			return reachesSpawn(sc)
		}
		// dynamic call: the resolved callees of the graph
		for _, e := range g.Out[c.Parent()] {
			if e.Site == ssa.Instruction(c) && reachesSpawn(e.To) {
				return true
			}
		}
		return false
	}
	hasSpawnCall := func(fn *ssa.Function) (string, bool) {
		pos, found := "", false
		allCalls(fn, func(c ssa.CallInstruction) {
			if !found && callSpawns(c) {
				pos, found = p.Pos(instrPos(c)), true
			}
		})
		return pos, found
	}
	// spawnBefore: some spawning call of in's function reaches in in the CFG
	spawnBefore := func(in ssa.Instruction) (string, bool) {
		fn := in.Parent()
		for _, b := range fn.Blocks {
			for i, k := range b.Instrs {
				c, ok := k.(ssa.CallInstruction)
				if !ok || k == in || !callSpawns(c) {
					continue
				}
				if b == in.Block() {
					for _, later := range b.Instrs[i+1:] {
						if later == in {
							return p.Pos(instrPos(c)), true
						}
					}
				}
				if blockReaches(b, in.Block()) {
					return p.Pos(instrPos(c)), true
				}
			}
		}
		return "", false
	}
	var late func(in ssa.Instruction, depth int, seen map[*ssa.Function]bool) string
	late = func(in ssa.Instruction, depth int, seen map[*ssa.Function]bool) string {
		fn := in.Parent()
		if pos, ok := spawnBefore(in); ok {
			return "reachable after the call at " + pos + ", which can start session goroutines"
		}
		if _, isDefer := in.(*ssa.Defer); isDefer {
			if pos, ok := hasSpawnCall(fn); ok {
				return "deferred in " + funcKey(fn) + ", which calls code that starts session goroutines at " + pos
			}
		}
		if depth >= 4 || seen[fn] {
			return ""
		}
		seen[fn] = true
		defer delete(seen, fn)
		for _, e := range g.In[fn] {
			if isTestSupport(pkgPathOfFunc(e.From)) {
				continue
			}
			site := e.Site
			if mc, isMC := site.(*ssa.MakeClosure); isMC {
				// a literal: where is the closure value used? deferred or called
				for _, ref := range *mc.Referrers() {
					if ri, ok := ref.(ssa.Instruction); ok {
						if why := late(ri, depth+1, seen); why != "" {
							return why + " (via " + p.Pos(instrPos(ri)) + ")"
						}
					}
				}
				continue
			}
			if site == nil {
				continue
			}
			if why := late(site, depth+1, seen); why != "" {
				return why + " (via " + p.Pos(instrPos(site)) + ")"
			}
		}
		return ""
	}
	n := 0
	for _, fn := range p.ModFuncs {
		if isTestSupport(pkgPathOfFunc(fn)) {
			continue
		}
		for _, b := range fn.Blocks {
			for _, in := range b.Instrs {
				st, ok := in.(*ssa.Store)
				if !ok {
					continue
				}
				if _, f := fieldOfAddr(st.Addr); f != fw {
					continue
				}
				n++
				why := late(st, 0, map[*ssa.Function]bool{})
				r.Cond(why == "", rule, funcKey(fn)+" builds a MultiplexWriter", p.Pos(st.Pos()), why+": its frames are not serialised with those of the session's MultiplexWriter (separate mutex), so an error frame can land inside another frame")
			}
		}
	}
	if n == 0 {
		r.Bad(rule, "construction sites", "-", "no MultiplexWriter is constructed any more")
	}
}
