package main

import (
	"fmt"
	"go/types"
	"sort"
	"strings"

	"golang.org/x/tools/go/ssa"
)

// ModGraph: nodes are functions; bodies of module functions (and synthetic
// wrappers of module functions) are entered, foreign callees are leaves.
// Edges are VTA-resolved call edges plus "escape edges" (DESIGN A1).
type Edge struct {
	From   *ssa.Function
	To     *ssa.Function
	Site   ssa.Instruction
	Escape bool
}

type ModGraph struct {
	p   *Prog
	Out map[*ssa.Function][]Edge
	In  map[*ssa.Function][]Edge
}

func isModFunc(fn *ssa.Function) bool {
	for f := fn; f != nil; f = f.Parent() {
		if f.Pkg != nil && f.Pkg.Pkg != nil {
			return isModPath(f.Pkg.Pkg.Path())
		}
		if o := f.Object(); o != nil && o.Pkg() != nil {
			return isModPath(o.Pkg().Path())
		}
	}
	// wrappers/bound methods without Pkg: look at the receiver/free var type
	if fn.Signature != nil && fn.Signature.Recv() != nil {
		if n := namedOf(fn.Signature.Recv().Type()); n != nil && n.Obj().Pkg() != nil {
			return isModPath(n.Obj().Pkg().Path())
		}
	}
	if len(fn.FreeVars) == 1 && strings.HasSuffix(fn.Name(), "$bound") {
		if n := namedOf(fn.FreeVars[0].Type()); n != nil && n.Obj().Pkg() != nil {
			return isModPath(n.Obj().Pkg().Path())
		}
	}
	return false
}

func namedOf(t types.Type) *types.Named {
	for {
		switch x := t.(type) {
		case *types.Pointer:
			t = x.Elem()
		case *types.Named:
			return x
		case *types.Alias:
			t = types.Unalias(x)
		default:
			return nil
		}
	}
}

func pkgPathOfFunc(fn *ssa.Function) string {
	for f := fn; f != nil; f = f.Parent() {
		if f.Pkg != nil && f.Pkg.Pkg != nil {
			return f.Pkg.Pkg.Path()
		}
		if o := f.Object(); o != nil && o.Pkg() != nil {
			return o.Pkg().Path()
		}
	}
	if fn.Signature != nil && fn.Signature.Recv() != nil {
		if n := namedOf(fn.Signature.Recv().Type()); n != nil && n.Obj().Pkg() != nil {
			return n.Obj().Pkg().Path()
		}
	}
	if len(fn.FreeVars) == 1 {
		if n := namedOf(fn.FreeVars[0].Type()); n != nil && n.Obj().Pkg() != nil {
			return n.Obj().Pkg().Path()
		}
	}
	return ""
}

func (p *Prog) ModGraph() *ModGraph {
	if p.mg != nil {
		return p.mg
	}
	cg := p.CallGraph()
	g := &ModGraph{p: p, Out: map[*ssa.Function][]Edge{}, In: map[*ssa.Function][]Edge{}}
	add := func(e Edge) {
		for _, x := range g.Out[e.From] {
			if x.To == e.To && x.Site == e.Site {
				return
			}
		}
		g.Out[e.From] = append(g.Out[e.From], e)
		g.In[e.To] = append(g.In[e.To], e)
	}
	for fn, node := range cg.Nodes {
		if fn == nil || !isModFunc(fn) || fn.Blocks == nil {
			continue
		}
		for _, e := range node.Out {
			if e.Callee == nil || e.Callee.Func == nil {
				continue
			}
			var site ssa.Instruction
			if e.Site != nil {
				site = e.Site
			}
			add(Edge{From: fn, To: e.Callee.Func, Site: site})
		}
		// escape edges
		for _, b := range fn.Blocks {
			for _, in := range b.Instrs {
				for _, op := range in.Operands(nil) {
					if op == nil || *op == nil {
						continue
					}
					if f, ok := (*op).(*ssa.Function); ok {
						// skip the callee position of a static call: already a call edge
						if c, isCall := in.(ssa.CallInstruction); isCall && c.Common().Value == f && !c.Common().IsInvoke() {
							continue
						}
						add(Edge{From: fn, To: f, Site: in, Escape: true})
					}
				}
				switch x := in.(type) {
				case *ssa.MakeClosure:
					if f, ok := x.Fn.(*ssa.Function); ok {
						add(Edge{From: fn, To: f, Site: in, Escape: true})
					}
				case *ssa.MakeInterface:
					g.ifaceEscape(fn, in, x.X.Type(), x.Type(), add)
				case *ssa.ChangeInterface:
					// dynamic type unknown here; its methods were made
					// reachable where the concrete value was boxed.
				}
			}
		}
	}
	for f := range g.Out {
		sort.SliceStable(g.Out[f], func(i, j int) bool { return funcKey(g.Out[f][i].To) < funcKey(g.Out[f][j].To) })
	}
	p.mg = g
	factGraph = g
	return g
}

// ifaceEscape: boxing module type T into interface I makes T's methods that
// foreign code can call through I (or, for the empty interface, any exported
// method via a type assertion) reachable from the boxing function.
func (g *ModGraph) ifaceEscape(from *ssa.Function, site ssa.Instruction, conc, iface types.Type, add func(Edge)) {
	n := namedOf(conc)
	if n == nil || n.Obj().Pkg() == nil || !isModPath(n.Obj().Pkg().Path()) {
		return
	}
	it, _ := iface.Underlying().(*types.Interface)
	ms := g.p.SSA.MethodSets.MethodSet(conc)
	for i := 0; i < ms.Len(); i++ {
		sel := ms.At(i)
		m := sel.Obj().(*types.Func)
		want := false
		if it == nil || it.NumMethods() == 0 {
			want = m.Exported()
		} else {
			for j := 0; j < it.NumMethods(); j++ {
				if it.Method(j).Name() == m.Name() {
					want = true
				}
			}
		}
		if !want {
			continue
		}
		if f := g.p.SSA.MethodValue(sel); f != nil {
			add(Edge{From: from, To: f, Site: site, Escape: true})
		}
	}
}

// Reach computes forward reachability from entries. Only module function
// bodies are entered. Returns parent edges for chain reconstruction. The
// optional cut function prunes edges (return true to skip an edge).
func (g *ModGraph) Reach(entries []*ssa.Function, cut func(Edge) bool) map[*ssa.Function]*Edge {
	parent := map[*ssa.Function]*Edge{}
	var queue []*ssa.Function
	for _, e := range entries {
		if e == nil {
			continue
		}
		if _, ok := parent[e]; !ok {
			parent[e] = nil
			queue = append(queue, e)
		}
	}
	for len(queue) > 0 {
		f := queue[0]
		queue = queue[1:]
		if !isModFunc(f) {
			continue
		}
		for i := range g.Out[f] {
			e := g.Out[f][i]
			if cut != nil && cut(e) {
				continue
			}
			if isTestSupport(pkgPathOfFunc(e.To)) {
				continue // test-support packages are never production code paths
			}
			if _, ok := parent[e.To]; ok {
				continue
			}
			parent[e.To] = &e
			queue = append(queue, e.To)
		}
	}
	return parent
}

// Chain renders entry → … → fn using parent edges.
func (g *ModGraph) Chain(parent map[*ssa.Function]*Edge, fn *ssa.Function) string {
	var parts []string
	for f := fn; ; {
		e := parent[f]
		if e == nil {
			parts = append(parts, funcKey(f))
			break
		}
		kind := ""
		if e.Escape {
			kind = "(escape)"
		}
		pos := "?"
		if e.Site != nil {
			pos = g.p.Pos(instrPos(e.Site))
		}
		parts = append(parts, fmt.Sprintf("%s%s@%s", funcKey(f), kind, pos))
		f = e.From
	}
	for i, j := 0, len(parts)-1; i < j; i, j = i+1, j-1 {
		parts[i], parts[j] = parts[j], parts[i]
	}
	return strings.Join(parts, " → ")
}

// ---- lifted guard analysis (DESIGN A2 lifted) ----

type SinkHit struct {
	Fn    *ssa.Function
	Instr ssa.CallInstruction
	Label string
}

type GuardSpec struct {
	// Scope: functions whose bodies are analysed and through which summaries
	// are lifted.
	InScope func(*ssa.Function) bool
	// Sink classification of a call-like instruction.
	IsSink func(ssa.CallInstruction) (label string, ok bool)
	// Guarded: the guard holds at this instruction (local dominance).
	Guarded func(ssa.Instruction) bool
}

type Unguarded struct {
	Sink  SinkHit
	Chain []string // function keys with positions, entry first
}

// Lift computes, for every in-scope function, the sinks that can execute
// without the guard having been established locally or by any caller edge
// below that function. Result: needs[F] = sink → one witness chain.
func (g *ModGraph) Lift(spec GuardSpec, funcs []*ssa.Function) (sinks []SinkHit, needs map[*ssa.Function]map[ssa.CallInstruction][]string) {
	needs = map[*ssa.Function]map[ssa.CallInstruction][]string{}
	for _, fn := range funcs {
		if !spec.InScope(fn) {
			continue
		}
		needs[fn] = map[ssa.CallInstruction][]string{}
		allCalls(fn, func(c ssa.CallInstruction) {
			if l, ok := spec.IsSink(c); ok {
				sinks = append(sinks, SinkHit{Fn: fn, Instr: c, Label: l})
				if !spec.Guarded(c) {
					needs[fn][c] = []string{fmt.Sprintf("%s@%s", funcKey(fn), g.p.Pos(instrPos(c)))}
				}
			}
		})
	}
	for changed := true; changed; {
		changed = false
		for _, fn := range funcs {
			if !spec.InScope(fn) {
				continue
			}
			for _, e := range g.Out[fn] {
				sub, ok := needs[e.To]
				if !ok || len(sub) == 0 || e.To == fn {
					continue
				}
				if e.Site != nil && spec.Guarded(e.Site) {
					continue
				}
				for s, ch := range sub {
					if _, have := needs[fn][s]; have {
						continue
					}
					pos := "?"
					if e.Site != nil {
						pos = g.p.Pos(instrPos(e.Site))
					}
					needs[fn][s] = append([]string{fmt.Sprintf("%s@%s", funcKey(fn), pos)}, ch...)
					changed = true
				}
			}
		}
	}
	return sinks, needs
}

// paramRoots resolves a value through parameters: a Parameter is replaced by
// the arguments passed at every direct call site of its function (depth ≤ 3);
// anything else is its own root. A function that escapes as a value has
// unknown callers: the parameter itself stays a root.
func (g *ModGraph) paramRoots(v ssa.Value, depth int) []ssa.Value {
	v = unwrapLocal(v)
	p, ok := v.(*ssa.Parameter)
	if !ok || depth >= 3 {
		return []ssa.Value{v}
	}
	fn := p.Parent()
	idx := -1
	for i, pp := range fn.Params {
		if pp == p {
			idx = i
		}
	}
	var out []ssa.Value
	for _, e := range g.In[fn] {
		if isTestSupport(pkgPathOfFunc(e.From)) {
			continue
		}
		c, isCall := e.Site.(ssa.CallInstruction)
		if !isCall || e.Escape || c.Common().IsInvoke() || c.Common().StaticCallee() != fn || idx >= len(c.Common().Args) {
			return []ssa.Value{v}
		}
		out = append(out, g.paramRoots(c.Common().Args[idx], depth+1)...)
	}
	if len(out) == 0 {
		return []ssa.Value{v}
	}
	return out
}

// sameRoots: the two values resolve to the same single root.
func (g *ModGraph) sameRoots(a, b ssa.Value) bool {
	ra, rb := g.paramRoots(a, 0), g.paramRoots(b, 0)
	if len(ra) == 0 || len(rb) == 0 {
		return false
	}
	for _, x := range ra {
		if x != ra[0] {
			return false
		}
	}
	for _, y := range rb {
		if y != ra[0] {
			return false
		}
	}
	return true
}

// unitFuncs: fn plus the same-package functions reachable from it through
// direct calls and closures (depth ≤ 3): the code that a refactoring may have
// split out of fn.
func (g *ModGraph) unitFuncs(fn *ssa.Function) []*ssa.Function {
	seen := map[*ssa.Function]bool{fn: true}
	out := []*ssa.Function{fn}
	frontier := []*ssa.Function{fn}
	for d := 0; d < 3; d++ {
		var next []*ssa.Function
		for _, f := range frontier {
			for _, e := range g.Out[f] {
				t := e.To
				if seen[t] || t.Blocks == nil || pkgPathOfFunc(t) != pkgPathOfFunc(fn) {
					continue
				}
				if _, ok := e.Site.(ssa.CallInstruction); !ok && !e.Escape {
					continue
				}
				seen[t] = true
				out = append(out, t)
				next = append(next, t)
			}
		}
		frontier = next
	}
	return out
}
