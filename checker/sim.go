package main

import (
	"fmt"
	"go/types"
	"os"
	"sort"
	"strings"

	"golang.org/x/tools/go/ssa"
)

// Wire-sequence extraction (DESIGN A6) over SSA: for one assignment of a
// finite atom vocabulary, walk the function's CFG, deciding every branch whose
// condition is an atom (or a boolean phi/constant/helper result built from
// atoms) and exploring both successors of every other branch. States are
// merged on (frame stack, block, boolean environment, records so far), so
// branches that do not influence the wire sequence collapse. Loop-free helper
// functions of the same package can be walked in line (Inline). The result is
// the set of distinct record sequences of completed paths; a well-formed
// encoder/decoder has exactly one per assignment. No solver, no execution.

type Sim struct {
	Fn *ssa.Function
	// Atom maps a leaf condition to a truth value under the current assignment;
	// known=false means "don't care" (both successors explored). Recognisers
	// must compare s.C(v) with root-level values.
	Atom func(cond ssa.Value) (val, known bool)
	// Record returns the wire record emitted by an instruction ("" for none).
	Record func(in ssa.Instruction) string
	// Completed classifies a Return of the root: true = normal completion.
	Completed func(ret *ssa.Return) bool
	MaxStates int
	// TrackChoices: remember, for every phi, which incoming edge was taken
	// (available to Record through Resolve).
	TrackChoices bool
	// Inline: helpers that may be walked in line (nil = none).
	Inline func(*ssa.Function) bool

	choice  map[*ssa.Phi]int
	seqs    map[string]bool
	visited map[string]bool
	states  int
	Trunc   bool
	cur     *Frame
	env     *boolEnv
	vals    map[ssa.Value]ssa.Value // results of inlined helpers on the current path
	// booleans kept in fields of local structs, tracked along the path
	mem  map[simMemKey]bool         // (frame, alloc, field) → value, when known
	snap map[ssa.Value]map[int]bool // a whole-struct load → the known boolean fields at that moment
}

type simMemKey struct {
	fr *Frame
	a  *ssa.Alloc
	f  int
}

// boolFieldsRead: boolean struct fields that some function of the module reads
// (computed once per loaded program); only those are worth tracking.
var boolFieldsRead map[*types.Var]bool

func computeBoolFieldsRead(funcs []*ssa.Function) {
	boolFieldsRead = map[*types.Var]bool{}
	for _, fn := range funcs {
		for _, b := range fn.Blocks {
			for _, in := range b.Instrs {
				switch x := in.(type) {
				case *ssa.UnOp:
					if fa, ok := x.X.(*ssa.FieldAddr); ok && x.Op.String() == "*" && isBoolT(x.Type()) {
						if st := structOf(fa.X.Type()); st != nil {
							boolFieldsRead[st.Field(fa.Field)] = true
						}
					}
				case *ssa.Field:
					if isBoolT(x.Type()) {
						if st := structOf(x.X.Type()); st != nil {
							boolFieldsRead[st.Field(x.Field)] = true
						}
					}
				}
			}
		}
	}
}

func trackedField(st *types.Struct, i int) bool {
	return isBoolT(st.Field(i).Type()) && (boolFieldsRead == nil || boolFieldsRead[st.Field(i)])
}

func (s *Sim) memSet(k simMemKey, val, known bool) {
	old, had := s.mem[k]
	s.env.undo = append(s.env.undo, func() {
		if had {
			s.mem[k] = old
		} else {
			delete(s.mem, k)
		}
	})
	if known {
		s.mem[k] = val
	} else {
		delete(s.mem, k)
	}
}

func structOf(t types.Type) *types.Struct {
	if pt, ok := t.Underlying().(*types.Pointer); ok {
		t = pt.Elem()
	}
	st, _ := t.Underlying().(*types.Struct)
	return st
}

// memStep interprets the instructions that move booleans through fields of
// local structs: zero initialisation, field stores, whole-struct copies
// (value receivers, results returned by value), field loads.
var simNoMem = os.Getenv("RV_NOMEM") != ""

func (s *Sim) memStep(fr *Frame, in ssa.Instruction) {
	if simNoMem {
		return
	}
	switch x := in.(type) {
	case *ssa.Alloc:
		if st := structOf(x.Type()); st != nil {
			for i := 0; i < st.NumFields(); i++ {
				if trackedField(st, i) {
					s.memSet(simMemKey{fr, x, i}, false, true)
				}
			}
		}
	case *ssa.Store:
		if fa, ok := x.Addr.(*ssa.FieldAddr); ok {
			if a, ok := fa.X.(*ssa.Alloc); ok && isBoolT(x.Val.Type()) {
				if st := structOf(a.Type()); st != nil && trackedField(st, fa.Field) {
					v, k := s.evalCond(fr, x.Val)
					s.memSet(simMemKey{fr, a, fa.Field}, v, k)
				}
			}
			return
		}
		if b, ok := x.Addr.(*ssa.Alloc); ok {
			if st := structOf(b.Type()); st != nil {
				s.cur = fr
				sn := s.snap[s.Resolve(x.Val)]
				for i := 0; i < st.NumFields(); i++ {
					if !trackedField(st, i) {
						continue
					}
					v, k := sn[i]
					s.memSet(simMemKey{fr, b, i}, v, k)
				}
			}
		}
	case *ssa.UnOp:
		if x.Op.String() != "*" {
			return
		}
		if fa, ok := x.X.(*ssa.FieldAddr); ok {
			if a, ok := fa.X.(*ssa.Alloc); ok && isBoolT(x.Type()) {
				if v, k := s.mem[simMemKey{fr, a, fa.Field}]; k {
					s.env.set(x, v)
				}
			}
			return
		}
		if a, ok := x.X.(*ssa.Alloc); ok {
			if st := structOf(a.Type()); st != nil {
				sn := map[int]bool{}
				for i := 0; i < st.NumFields(); i++ {
					if v, k := s.mem[simMemKey{fr, a, i}]; k {
						sn[i] = v
					}
				}
				old, had := s.snap[x]
				s.env.undo = append(s.env.undo, func() {
					if had {
						s.snap[x] = old
					} else {
						delete(s.snap, x)
					}
				})
				s.snap[x] = sn
			}
		}
	case *ssa.Field:
		if isBoolT(x.Type()) {
			s.cur = fr
			if sn, ok := s.snap[s.Resolve(x.X)]; ok {
				if v, k := sn[x.Field]; k {
					s.env.set(x, v)
				}
			}
		}
	}
}

// C canonicalises a value of the current (possibly inlined) frame.
func (s *Sim) C(v ssa.Value) ssa.Value {
	if s.cur != nil {
		v = s.cur.Canon(v)
	}
	return structResolver{s.vals}.resolveField(s.cur, v)
}

func (s *Sim) Run() []string {
	s.seqs = map[string]bool{}
	s.visited = map[string]bool{}
	s.env = newBoolEnv()
	s.choice = map[*ssa.Phi]int{}
	s.vals = map[ssa.Value]ssa.Value{}
	s.mem = map[simMemKey]bool{}
	s.snap = map[ssa.Value]map[int]bool{}
	s.states = 0
	s.Trunc = false
	if s.MaxStates == 0 {
		s.MaxStates = 200000
	}
	if len(s.Fn.Blocks) > 0 {
		root := &Frame{fn: s.Fn}
		s.walk(root, s.Fn.Blocks[0], 0, nil, nil, map[peBlockKey]bool{}, nil, "")
	}
	var out []string
	for k := range s.seqs {
		out = append(out, k)
	}
	sort.Strings(out)
	s.cur = nil
	return out
}

func (s *Sim) envKey() string {
	var parts []string
	for v, b := range s.env.m {
		c := "0"
		if b {
			c = "1"
		}
		parts = append(parts, fmt.Sprintf("%p%s", v, c))
	}
	for v, b := range s.env.isNil {
		c := "n"
		if !b {
			c = "N"
		}
		parts = append(parts, fmt.Sprintf("%p%s", v, c))
	}
	for k, b := range s.mem {
		c := "0"
		if b {
			c = "1"
		}
		parts = append(parts, fmt.Sprintf("m%p.%p.%d=%s", k.fr, k.a, k.f, c))
	}
	sort.Strings(parts)
	return strings.Join(parts, ",")
}

// evalCond evaluates a condition: known booleans first, then the atom table.
func (s *Sim) evalCond(fr *Frame, v ssa.Value) (val, known bool) {
	neg := false
	for {
		if b, k := s.env.eval(fr, v); k {
			return b != neg, true
		}
		u, ok := v.(*ssa.UnOp)
		if !ok || u.Op.String() != "!" {
			break
		}
		v, neg = u.X, !neg
	}
	// a helper's parameter used as a condition: continue with the caller's value
	if fr != nil {
		for i := 0; i < 4; i++ {
			p, isParam := v.(*ssa.Parameter)
			if !isParam {
				break
			}
			c := fr.Canon(p)
			if c == ssa.Value(p) {
				break
			}
			for f2 := fr; f2 != nil; f2 = f2.parent {
				if f2.fn == p.Parent() {
					fr = f2.parent
					break
				}
			}
			v = c
			if b, k := s.evalCond(fr, v); k {
				return b != neg, true
			}
			return false, false
		}
	}
	s.cur = fr
	b, k := s.Atom(v)
	return b != neg, k
}

func (s *Sim) walk(fr *Frame, b *ssa.BasicBlock, idx int, pred *ssa.BasicBlock, recs []string, onPath map[peBlockKey]bool, resume func(recs []string), stackKey string) {
	if s.states >= s.MaxStates {
		s.Trunc = true
		return
	}
	key := peBlockKey{fr, b}
	if idx == 0 {
		if onPath[key] {
			return // loops are not expected in encoder/decoder bodies; cut
		}
		m := s.env.mark()
		defer s.env.rollback(m)
		// phis: evaluate boolean ones; bind leaf atoms lazily through eval
		if pred != nil {
			pi := -1
			for i, p := range b.Preds {
				if p == pred {
					pi = i
				}
			}
			var saved map[*ssa.Phi]int
			if s.TrackChoices {
				saved = s.choice
				nc := map[*ssa.Phi]int{}
				for k, v := range s.choice {
					nc[k] = v
				}
				s.choice = nc
				defer func() { s.choice = saved }()
			}
			type pv struct {
				phi *ssa.Phi
				val bool
				ok  bool
			}
			var vals []pv
			for _, in := range b.Instrs {
				phi, ok := in.(*ssa.Phi)
				if !ok {
					break
				}
				if s.TrackChoices && pi >= 0 {
					s.choice[phi] = pi
				}
				if pi >= 0 && isBoolT(phi.Type()) {
					v, k := s.evalCond(fr, phi.Edges[pi])
					vals = append(vals, pv{phi, v, k})
				}
			}
			for _, x := range vals {
				if x.ok {
					s.env.set(x.phi, x.val)
				} else {
					s.env.unset(x.phi)
				}
			}
		}
		sk := fmt.Sprintf("%s|%p|%d|%s|%s", stackKey, b, idx, s.envKey(), strings.Join(recs, " "))
		if s.TrackChoices {
			var cs []string
			for ph, i := range s.choice {
				cs = append(cs, fmt.Sprintf("%p=%d", ph, i))
			}
			sort.Strings(cs)
			sk += "|" + strings.Join(cs, ",")
		}
		if s.visited[sk] {
			return
		}
		s.visited[sk] = true
		s.states++
		onPath[key] = true
		defer func() { onPath[key] = false }()
	}
	for i := idx; i < len(b.Instrs)-1; i++ {
		in := b.Instrs[i]
		s.cur = fr
		if s.Inline != nil {
			if callee := inlinableCall(s.Fn, fr, in, s.Inline); callee != nil {
				sub := &Frame{call: in.(*ssa.Call), fn: callee, parent: fr, depth: fr.depth + 1}
				bb, ii := b, i
				s.walk(sub, callee.Blocks[0], 0, nil, recs, onPath, func(r2 []string) {
					s.walk(fr, bb, ii+1, nil, r2, onPath, resume, stackKey)
				}, fmt.Sprintf("%s>%p", stackKey, in))
				return
			}
		}
		s.memStep(fr, in)
		s.cur = fr
		if r := s.Record(in); r != "" {
			recs = append(recs[:len(recs):len(recs)], r)
		}
	}
	s.cur = fr
	switch x := lastInstr(b).(type) {
	case *ssa.If:
		val, known := s.evalCond(fr, x.Cond)
		if known {
			k := 1
			if val {
				k = 0
			}
			s.walk(fr, b.Succs[k], 0, b, recs, onPath, resume, stackKey)
			return
		}
		// an undecided nil test: remember the outcome along each branch
		cond, neg := x.Cond, false
		for {
			u, ok := cond.(*ssa.UnOp)
			if !ok || u.Op.String() != "!" {
				break
			}
			cond, neg = u.X, !neg
		}
		nx, trueMeansNil, isNilCmp := nilCompare(cond)
		for k := 0; k < 2; k++ {
			m := s.env.mark()
			if isNilCmp {
				condTrue := (k == 0) != neg
				s.env.setNil(nx, condTrue == trueMeansNil)
			}
			s.walk(fr, b.Succs[k], 0, b, recs, onPath, resume, stackKey)
			s.env.rollback(m)
		}
	case *ssa.Jump:
		s.walk(fr, b.Succs[0], 0, b, recs, onPath, resume, stackKey)
	case *ssa.Return:
		if fr.call != nil && resume != nil {
			m := s.env.mark()
			s.env.bindResults(fr, x)
			s.env.bindNilness(fr, x)
			// non-constant boolean results: evaluate through the atom table
			results := retResults(x)
			bind := func(target ssa.Value, rv ssa.Value) {
				if !isBoolT(rv.Type()) {
					return
				}
				if _, k := s.env.eval(fr.parent, target); k {
					return
				}
				if v, k := s.evalCond(fr, rv); k {
					s.env.set(target, v)
				}
			}
			if len(results) == 1 {
				bind(fr.call, results[0])
			} else {
				for _, ref := range *fr.call.Referrers() {
					if ex, ok := ref.(*ssa.Extract); ok && ex.Index < len(results) {
						bind(ex, results[ex.Index])
					}
				}
			}
			// remember which value each result carries on this path
			savedVals := map[ssa.Value]ssa.Value{}
			setVal := func(target, rv ssa.Value) {
				if old, ok := s.vals[target]; ok {
					savedVals[target] = old
				} else {
					savedVals[target] = nil
				}
				s.cur = fr
				s.vals[target] = fr.Canon(s.Resolve(rv))
			}
			if len(results) == 1 {
				setVal(fr.call, results[0])
			} else {
				for _, ref := range *fr.call.Referrers() {
					if ex, ok := ref.(*ssa.Extract); ok && ex.Index < len(results) {
						setVal(ex, results[ex.Index])
					}
				}
			}
			resume(recs)
			for k, v := range savedVals {
				if v == nil {
					delete(s.vals, k)
				} else {
					s.vals[k] = v
				}
			}
			s.env.rollback(m)
			return
		}
		if s.Completed(x) {
			s.seqs[strings.Join(recs, " ")] = true
		}
	}
}

// Resolve follows phi choices (and value-preserving conversions) of the
// current path down to a non-phi value.
func (s *Sim) Resolve(v ssa.Value) ssa.Value {
	for i := 0; i < 16; i++ {
		v = stripConv(v)
		if rv, ok := s.vals[v]; ok && rv != nil {
			v = rv
			continue
		}
		if p, ok := v.(*ssa.Parameter); ok && s.cur != nil {
			if c := s.cur.Canon(p); c != ssa.Value(p) {
				v = c
				continue
			}
		}
		phi, ok := v.(*ssa.Phi)
		if !ok {
			return v
		}
		idx, ok := s.choice[phi]
		if !ok {
			return v
		}
		v = phi.Edges[idx]
	}
	return v
}

func isBoolType(v ssa.Value) bool { return isBoolT(v.Type()) }
