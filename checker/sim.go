package main

import (
	"go/token"
	"sort"
	"strings"

	"golang.org/x/tools/go/ssa"
)

// Wire-sequence extraction (DESIGN A6) over SSA: for one assignment of a
// finite atom vocabulary, walk the function's CFG, deciding every branch whose
// condition is an atom (or a boolean phi/constant built from atoms) and
// exploring both successors of every other branch. States are merged on
// (block, boolean-phi environment, records so far), so branches that do not
// influence the wire sequence collapse. The result is the set of distinct
// record sequences of completed paths; a well-formed encoder/decoder has
// exactly one per assignment. No solver, no execution: a table walk.

type Sim struct {
	Fn *ssa.Function
	// Atom maps a leaf condition to a truth value under the current assignment;
	// known=false means "don't care" (both successors explored).
	Atom func(cond ssa.Value) (val, known bool)
	// Record returns the wire record emitted by an instruction ("" for none).
	Record func(in ssa.Instruction) string
	// Completed classifies a Return: true = normal completion, false = abort.
	Completed func(ret *ssa.Return) bool
	MaxStates int
	// TrackChoices: remember, for every phi, which incoming edge was taken
	// (available to Record through Resolve).
	TrackChoices bool
	choice       map[*ssa.Phi]int

	seqs    map[string]bool
	visited map[string]bool
	states  int
	Trunc   bool
}

func (s *Sim) Run() []string {
	s.seqs = map[string]bool{}
	s.visited = map[string]bool{}
	if s.MaxStates == 0 {
		s.MaxStates = 200000
	}
	if len(s.Fn.Blocks) > 0 {
		s.walk(s.Fn.Blocks[0], nil, map[ssa.Value]bool{}, nil, map[*ssa.BasicBlock]bool{})
	}
	var out []string
	for k := range s.seqs {
		out = append(out, k)
	}
	sort.Strings(out)
	return out
}

func envKey(env map[ssa.Value]bool) string {
	var parts []string
	for v, b := range env {
		c := "0"
		if b {
			c = "1"
		}
		parts = append(parts, v.Name()+c)
	}
	sort.Strings(parts)
	return strings.Join(parts, ",")
}

// evalBool evaluates a boolean SSA value under env/atoms.
func (s *Sim) evalBool(v ssa.Value, env map[ssa.Value]bool) (val, known bool) {
	switch x := v.(type) {
	case *ssa.Const:
		if x.Value != nil && x.Value.String() == "true" {
			return true, true
		}
		if x.Value != nil && x.Value.String() == "false" {
			return false, true
		}
		return false, false
	case *ssa.UnOp:
		if x.Op == token.NOT {
			b, k := s.evalBool(x.X, env)
			return !b, k
		}
	case *ssa.Phi:
		if b, ok := env[x]; ok {
			return b, true
		}
		return false, false
	}
	return s.Atom(v)
}

func (s *Sim) walk(b, pred *ssa.BasicBlock, env map[ssa.Value]bool, recs []string, onPath map[*ssa.BasicBlock]bool) {
	if s.states >= s.MaxStates {
		s.Trunc = true
		return
	}
	if onPath[b] {
		return // loops are not expected in encoder/decoder bodies; cut
	}
	// remember phi choices
	var savedChoice map[*ssa.Phi]int
	if s.TrackChoices && pred != nil {
		savedChoice = s.choice
		nc := map[*ssa.Phi]int{}
		for k, v := range s.choice {
			nc[k] = v
		}
		for _, in := range b.Instrs {
			phi, ok := in.(*ssa.Phi)
			if !ok {
				break
			}
			for i, pp := range b.Preds {
				if pp == pred {
					nc[phi] = i
				}
			}
		}
		s.choice = nc
		defer func() { s.choice = savedChoice }()
	}
	// evaluate boolean phis on entry
	env2 := env
	copied := false
	for _, in := range b.Instrs {
		phi, ok := in.(*ssa.Phi)
		if !ok {
			break
		}
		if pred == nil {
			continue
		}
		idx := -1
		for i, p := range b.Preds {
			if p == pred {
				idx = i
			}
		}
		if idx < 0 {
			continue
		}
		if val, known := s.evalBool(phi.Edges[idx], env); isBoolType(phi) {
			if !copied {
				env2 = map[ssa.Value]bool{}
				for k, v := range env {
					env2[k] = v
				}
				copied = true
			}
			if known {
				env2[phi] = val
			} else {
				delete(env2, phi)
			}
		}
	}
	key := b.String() + "|" + envKey(env2) + "|" + strings.Join(recs, " ")
	if s.TrackChoices {
		var cs []string
		for ph, i := range s.choice {
			cs = append(cs, ph.Name()+"="+string(rune('0'+i)))
		}
		sort.Strings(cs)
		key += "|" + strings.Join(cs, ",")
	}
	if s.visited[key] {
		return
	}
	s.visited[key] = true
	s.states++
	onPath[b] = true
	defer func() { onPath[b] = false }()
	for _, in := range b.Instrs {
		if r := s.Record(in); r != "" {
			recs = append(recs[:len(recs):len(recs)], r)
		}
	}
	switch x := lastInstr(b).(type) {
	case *ssa.If:
		val, known := s.evalBool(x.Cond, env2)
		if known {
			if val {
				s.walk(b.Succs[0], b, env2, recs, onPath)
			} else {
				s.walk(b.Succs[1], b, env2, recs, onPath)
			}
			return
		}
		s.walk(b.Succs[0], b, env2, recs, onPath)
		s.walk(b.Succs[1], b, env2, recs, onPath)
	case *ssa.Jump:
		s.walk(b.Succs[0], b, env2, recs, onPath)
	case *ssa.Return:
		if s.Completed(x) {
			s.seqs[strings.Join(recs, " ")] = true
		}
	}
}

func isBoolType(v ssa.Value) bool {
	return v.Type().Underlying().String() == "bool"
}

// Resolve follows phi choices (and value-preserving conversions) of the
// current path down to a non-phi value.
func (s *Sim) Resolve(v ssa.Value) ssa.Value {
	for i := 0; i < 16; i++ {
		v = stripConv(v)
		phi, ok := v.(*ssa.Phi)
		if !ok {
			return v
		}
		idx, ok := s.choice[phi]
		if !ok {
			return v
		}
		v = phi.Edges[idx]
	}
	return v
}
