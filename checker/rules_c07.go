package main

import (
	"go/token"
	"go/types"
	"strings"

	"golang.org/x/tools/go/ssa"
)

func init() { register("C07", checkC07) }

func checkC07(p *Prog, r *Report) {
	g := p.ModGraph()
	writable := p.Field(pkgRsyncd, "Module", "Writable")
	modulesF := p.Field(pkgRsyncd, "Server", "modules")
	fsF := p.Field(pkgRsyncd, "Module", "FS")
	if writable == nil || modulesF == nil || fsF == nil {
		r.Fatalf("anchor unresolved: rsyncd.Module.Writable / Module.FS / Server.modules")
		return
	}
	dFuncs := p.FuncsInPkg(pkgRsyncd)
	for _, fn := range dFuncs {
		r.FuncsSeen[funcKey(fn)] = true
	}
	scope := inPkg(pkgRsyncd)

	// ---- WRITABLE-GATE ----
	r.Rule("C07/WRITABLE-GATE", "in package rsyncd every call with a write effect (mutating os/*os.Root/renameio/unix APIs, os.OpenRoot, (*os.Root).OpenRoot), every call into package receiver and sender.RecvFilterList on the receive path is dominated by the true edge of a load of Module.Writable, locally or on every call chain from every package entry", 8)
	isSink := func(c ssa.CallInstruction) (string, bool) {
		if l, ok := mutatorLabel(c); ok {
			return l, true
		}
		n := calleeName(c)
		switch n {
		case "os.OpenRoot", "(*os.Root).OpenRoot":
			return n, true
		}
		if f := calleeOf(c); f != nil && f.Pkg() != nil && f.Pkg().Path() == pkgReceiver {
			return "receiver." + f.Name(), true
		}
		return "", false
	}
	wTrue := func(in ssa.Instruction) bool { return HasFact(in, true, isFieldLoadPred(writable)) }
	sinks, needs := g.Lift(GuardSpec{InScope: scope, IsSink: isSink, Guarded: wTrue}, dFuncs)
	entries := entriesOf(g, dFuncs, scope)
	for _, s := range sinks {
		var bad string
		for _, e := range entries {
			if ch, ok := needs[e][s.Instr]; ok {
				bad = strings.Join(ch, " → ")
				break
			}
		}
		r.Cond(bad == "", "C07/WRITABLE-GATE", funcKey(s.Fn)+" → "+s.Label, p.Pos(instrPos(s.Instr)),
			"write effect / receiving engine reachable without a dominating Module.Writable==true test: "+bad)
	}
	// the filter-list read on the receive path (reads from the peer, then the engine would delete)
	recvFn := anchorFunc(p, r, pkgRsyncd, "Server", "handleConnReceiver")
	if recvFn != nil {
		allCalls(recvFn, func(c ssa.CallInstruction) {
			if calleeName(c) == pkgSender+".RecvFilterList" {
				r.Cond(wTrue(c), "C07/WRITABLE-GATE", funcKey(recvFn)+" → sender.RecvFilterList", p.Pos(instrPos(c)), "receive path proceeds before the writability test")
			}
		})
	}

	// ---- SEND-PATH-PURE ----
	r.Rule("C07/SEND-PATH-PURE", "no module function reachable from rsyncd.handleConnSender calls a file-system mutator (so a read-only module served in send mode is never written)", 1)
	sendFn := anchorFunc(p, r, pkgRsyncd, "Server", "handleConnSender")
	if sendFn != nil {
		reach := g.Reach([]*ssa.Function{sendFn}, nil)
		n := 0
		for fn := range reach {
			if !isModFunc(fn) || fn.Blocks == nil || isTestSupport(pkgPathOfFunc(fn)) {
				continue
			}
			n++
			r.FuncsSeen[funcKey(fn)] = true
			allCalls(fn, func(c ssa.CallInstruction) {
				if l, ok := mutatorLabel(c); ok {
					r.Bad("C07/SEND-PATH-PURE", funcKey(fn)+" → "+l, p.Pos(instrPos(c)), "mutator reachable from the send path: "+g.Chain(reach, fn))
				}
			})
		}
		r.OK("C07/SEND-PATH-PURE", "reachable set scanned", p.Pos(sendFn.Pos()), "")
		r.Info("C07/SEND-PATH-PURE scanned %d reachable module functions [%s]", n, p.Config)
	}

	// ---- FLAG-IMMUTABLE ----
	r.Rule("C07/FLAG-IMMUTABLE", "Module.Writable is stored (in production code) only while building the implicit module under module==nil; Server.modules is stored only in NewServer", 2)
	for _, st := range storesToField(p, writable) {
		sf := st.Parent()
		if isTestSupport(pkgPathOfFunc(sf)) {
			continue
		}
		ok := false
		if isFreshAllocBase(st.Addr) {
			ok = HasFact(st, true, isModuleParamNil)
		}
		r.Cond(ok, "C07/FLAG-IMMUTABLE", funcKey(sf)+" store Module.Writable", p.Pos(st.Pos()), "Writable may only be set on a fresh implicit module when no module was given (command mode)")
	}
	newServer := anchorFunc(p, r, pkgRsyncd, "", "NewServer")
	for _, st := range storesToField(p, modulesF) {
		r.Cond(st.Parent() == newServer, "C07/FLAG-IMMUTABLE", funcKey(st.Parent())+" store Server.modules", p.Pos(st.Pos()), "module table must be fixed at construction")
	}
	// Server literals only in NewServer
	serverT := p.Obj(pkgRsyncd, "Server")
	for _, fn := range p.ModFuncs {
		if isTestSupport(pkgPathOfFunc(fn)) {
			continue
		}
		for _, b := range fn.Blocks {
			for _, in := range b.Instrs {
				if a, ok := in.(*ssa.Alloc); ok && serverT != nil {
					if pt, ok := a.Type().(*types.Pointer); ok && types.Identical(pt.Elem(), serverT.Type()) {
						r.Cond(fn == newServer, "C07/FLAG-IMMUTABLE", funcKey(fn)+" allocates rsyncd.Server", p.Pos(a.Pos()), "Server values must be built by NewServer (which validates modules)")
					}
				}
			}
		}
	}

	// ---- FS-NOT-WRITABLE ----
	r.Rule("C07/FS-NOT-WRITABLE", "validateModule returns a non-nil error on FS!=nil && Writable; NewServer validates every element of the module slice it stores and returns the error", 3)
	vm := anchorFunc(p, r, pkgRsyncd, "", "validateModule")
	if vm != nil {
		found := false
		for _, b := range vm.Blocks {
			ret, ok := lastInstr(b).(*ssa.Return)
			if !ok || len(ret.Results) != 1 || isNilConst(retResults(ret)[0]) {
				continue
			}
			fsNonNil := false
			for _, f := range FactsAt(ret) {
				bo, ok := f.Cond.(*ssa.BinOp)
				if !ok || !isFieldLoad(bo.X, fsF) || !isNilConst(bo.Y) {
					continue
				}
				if (bo.Op == token.NEQ && f.Val) || (bo.Op == token.EQL && !f.Val) {
					fsNonNil = true
				}
			}
			if fsNonNil && HasFact(ret, true, isFieldLoadPred(writable)) {
				found = true
			}
		}
		r.Cond(found, "C07/FS-NOT-WRITABLE", "validateModule rejects FS∧Writable", p.Pos(vm.Pos()), "no error return dominated by FS != nil and Writable")
	}
	if newServer != nil && vm != nil {
		var modsParam *ssa.Parameter
		if len(newServer.Params) > 0 {
			modsParam = newServer.Params[0]
		}
		okCall := false
		gNS := p.ModGraph()
		errReturned := func(c ssa.CallInstruction) bool {
			if c.Value() == nil {
				return false
			}
			for _, ref := range *c.Value().Referrers() {
				if ret, ok := ref.(*ssa.Return); ok {
					if known, isNil := errIsNilAt(ret, c.Value()); known && !isNil {
						return true
					}
				}
			}
			return false
		}
		for _, u := range gNS.unitFuncs(newServer) {
			u := u
			allCalls(u, func(c ssa.CallInstruction) {
				if c.Common().StaticCallee() != vm {
					return
				}
				// argument is an element of the modules parameter (of NewServer, or of
				// a helper that every caller hands NewServer's parameter)
				arg := c.Common().Args[0]
				elemOfParam := false
				if ld, ok := arg.(*ssa.UnOp); ok && ld.Op == token.MUL {
					if ia, ok := ld.X.(*ssa.IndexAddr); ok {
						elemOfParam = modsParam != nil && unwrapLocal(ia.X) == ssa.Value(modsParam)
						if hp, isP := unwrapLocal(ia.X).(*ssa.Parameter); isP && !elemOfParam && u != newServer {
							// a helper's parameter: every call site passes NewServer's parameter
							idx := -1
							for i, pp := range u.Params {
								if pp == hp {
									idx = i
								}
							}
							n := 0
							elemOfParam = true
							for _, e := range gNS.In[u] {
								cs, ok := e.Site.(ssa.CallInstruction)
								if isTestSupport(pkgPathOfFunc(e.From)) {
									continue
								}
								n++
								if !ok || e.Escape || cs.Common().StaticCallee() != u || idx < 0 || idx >= len(cs.Common().Args) || unwrapLocal(cs.Common().Args[idx]) != ssa.Value(modsParam) {
									elemOfParam = false
								}
							}
							if n == 0 {
								elemOfParam = false
							}
						}
					}
				}
				// error result returned on the non-nil edge, up to NewServer
				returned := errReturned(c)
				if returned && u != newServer {
					nSites := 0
					for _, e := range gNS.In[u] {
						cs, ok := e.Site.(ssa.CallInstruction)
						if !ok || e.Escape || cs.Common().StaticCallee() != u || isTestSupport(pkgPathOfFunc(e.From)) {
							continue
						}
						nSites++
						if e.From != newServer || !errReturned(cs) {
							returned = false
						}
					}
					if nSites == 0 {
						returned = false
					}
				}
				if elemOfParam && returned {
					okCall = true
				}
			})
		}
		r.Cond(okCall, "C07/FS-NOT-WRITABLE", "NewServer validates each module", p.Pos(newServer.Pos()), "validateModule(modules[i]) must be called and its error returned")
		for _, st := range storesToField(p, modulesF) {
			r.Cond(st.Val == modsParam, "C07/FS-NOT-WRITABLE", "NewServer stores the validated slice", p.Pos(st.Pos()), "Server.modules must be the validated parameter")
		}
	}
	r.Assume("module configuration (rsyncdconfig TOML decoding, -gokr.modulemap) happens before any session and is trusted; HandleConnArgs/InternalHandleConn are library/command-mode APIs whose caller chooses the module")
	r.Assume("foreign code calls only function values and interface methods it was handed")
	r.Uncovered("landlock/namespace sandboxing (defence in depth); two modules with overlapping paths")
}
