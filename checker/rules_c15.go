package main

import (
	"fmt"
	"go/constant"
	"go/token"
	"go/types"
	"strings"

	"golang.org/x/tools/go/ssa"
)

func init() { register("C15", checkC15) }

// compareSeqs runs extractor over assignments grouped by file type and emits
// one obligation per (rule, type).
func compareSeqs(r *Report, rule, what string, assigns []entryAssign, got func(entryAssign) ([]string, bool), want func(entryAssign) string) {
	type agg struct {
		n, bad int
		first  string
		undec  string
	}
	byType := map[string]*agg{}
	for _, a := range assigns {
		g := byType[a.typ]
		if g == nil {
			g = &agg{}
			byType[a.typ] = g
		}
		g.n++
		seqs, trunc := got(a)
		w := want(a)
		switch {
		case trunc:
			g.undec = "state budget exhausted for " + a.String()
		case len(seqs) != 1:
			if g.undec == "" {
				g.undec = fmt.Sprintf("%d distinct record sequences for one assignment (%s): %q — a branch outside the atom vocabulary changes the wire layout", len(seqs), a.String(), seqs)
			}
		case seqs[0] != w:
			g.bad++
			if g.first == "" {
				g.first = fmt.Sprintf("%s: %s is [%s], expected [%s]", a.String(), what, seqs[0], w)
			}
		}
	}
	for _, t := range fileTypes {
		g := byType[t]
		if g == nil {
			continue
		}
		key := what + " type=" + t
		switch {
		case g.undec != "":
			r.Unk(rule, key, "-", g.undec)
		case g.bad > 0:
			r.Bad(rule, key, "-", fmt.Sprintf("%d of %d assignments differ; first: %s", g.bad, g.n, g.first))
		default:
			r.OK(rule, key, "-", fmt.Sprintf("%d assignments", g.n))
		}
	}
}

func checkC15(p *Prog, r *Report) {
	w := newWireExtractor(p, r)
	if w == nil {
		return
	}
	r.Rule("C15/W1-ENCODER-TABLE", "for every (file type × option subset) the record sequence the entry encoder (*scopedWalker).walkFn emits equals the protocol-27 table restricted to the sender's flag choice (XMIT_LONG_NAME only): u8 flags, i32 name length, name, i64 length, i32 mtime, i32 mode, [i32 uid], [i32 gid], [i32 rdev iff (devices∧dev)∨(specials∧special)], [i32+bytes link iff links∧LNK], [16 bytes iff checksum]", 7)
	compareSeqs(r, "C15/W1-ENCODER-TABLE", "encoder", allAssignments(false), w.encoderSeqs, func(a entryAssign) string { return specSeq(a, true) })

	r.Rule("C15/W2-DECODER-TABLE", "for every (file type × option subset × XMIT flag subset) the record sequence the entry decoder receiveFileEntry consumes equals the full protocol-27 table incl. the flag-controlled alternatives (SAME_NAME prefix byte, LONG_NAME, SAME_TIME/MODE/UID/GID/RDEV); each SAME_x branch copies field x from the previous entry; the previous entry advances after every entry", 12)
	compareSeqs(r, "C15/W2-DECODER-TABLE", "decoder", allAssignments(true), w.decoderSeqs, func(a entryAssign) string { return specSeq(a, false) })
	checkSameCopies(p, r, w.dec)

	checkConstants(p, r)
	checkLongintSiblings(p, r)
	checkDecoderRejects(p, r)
	checkNumbering(p, r, w)
	r.Trust("the protocol-27 table in wireseq.go:specSeq and rules_c15.go:checkConstants is a transcription of rsync 2.6.x flist.c/io.c/rsync.h as cited by the repository's own comments; the rdev row uses the split --devices/--specials condition of rsync ≥ 2.6.7 speaking protocol < 31")
	r.Assume("Go fs.FileMode type bits per file type (char devices carry ModeDevice|ModeCharDevice)")
	r.Uncovered("byte-level output for concrete trees; names for which filepath.Clean is not the identity; duplicate names (unstable sort); last.Name being the cleaned previous name in prefix decompression; an independent protocol-27 implementation is not available in the sandbox and could not be run by a static check anyway")
}

// checkSameCopies: for every flag/option/type assignment the decoder fills
// File.{ModTime,Mode,Uid,Gid,Rdev} from the previous entry exactly when the
// corresponding XMIT_SAME_x flag is set, and from the wire otherwise
// (walked with phi-choice tracking, helpers in line); ReceiveFileList
// advances lastFileEntry to the entry just decoded.
func checkSameCopies(p *Prog, r *Report, dec *ssa.Function) {
	rule := "C15/W2-DECODER-TABLE"
	w := &wireExtractor{p: p, dec: dec, optFld: map[string]string{"PreserveUid": "uid", "PreserveGid": "gid", "PreserveDevices": "devices", "PreserveSpecials": "specials", "PreserveLinks": "links", "AlwaysChecksum": "checksum"}}
	last := dec.Params[2]
	fields := []struct{ name, flag, opt string }{{"ModTime", "SAME_TIME", ""}, {"Mode", "SAME_MODE", ""}, {"Uid", "SAME_UID", "uid"}, {"Gid", "SAME_GID", "gid"}, {"Rdev", "SAME_RDEV", "rdev"}}
	fvars := map[*types.Var]string{}
	for _, f := range fields {
		if fv := p.Field(pkgReceiver, "File", f.name); fv != nil {
			fvars[fv] = f.name
		}
	}
	bad := map[string]string{}
	seen := map[string]int{}
	for _, a := range allAssignments(true) {
		var sim *Sim
		sim = &Sim{Fn: dec, TrackChoices: true, Inline: w.inlineHelpers, Completed: func(ret *ssa.Return) bool {
			rr := retResults(ret)
			return isNilConst(rr[len(rr)-1])
		}}
		sim.Atom = w.decAtom(a, sim.C)
		sim.Record = func(in ssa.Instruction) string {
			st, ok := in.(*ssa.Store)
			if !ok {
				return ""
			}
			_, f := fieldOfAddr(st.Addr)
			name, tracked := fvars[f]
			if !tracked {
				return ""
			}
			v := sim.Resolve(st.Val)
			// time.Unix(int64(x), 0) wraps the wire value for ModTime
			if c, isC := v.(*ssa.Call); isC && calleeName(c) == "time.Unix" {
				v = sim.Resolve(c.Common().Args[0])
			}
			if base, lf := loadedField(v); lf == f && sim.Resolve(base) == ssa.Value(last) {
				return name + "=prev"
			}
			if rc, idx := extractOf(v); rc != nil && idx == 0 && strings.HasSuffix(calleeName(rc), ".Conn).ReadInt32") {
				return name + "=wire"
			}
			return name + "=?"
		}
		seqs := sim.Run()
		isDev := a.typ == "CHR" || a.typ == "BLK"
		isSpecial := a.typ == "FIFO" || a.typ == "SOCK"
		var want []string
		for _, f := range fields {
			applies := true
			switch f.opt {
			case "uid", "gid":
				applies = a.opts[f.opt]
			case "rdev":
				applies = (a.opts["devices"] && isDev) || (a.opts["specials"] && isSpecial)
			}
			if !applies {
				continue
			}
			if a.flags[f.flag] {
				want = append(want, f.name+"=prev")
			} else {
				want = append(want, f.name+"=wire")
			}
		}
		ws := strings.Join(want, " ")
		for _, f := range fields {
			seen[f.name]++
		}
		if len(seqs) != 1 || seqs[0] != ws {
			for _, f := range fields {
				if _, have := bad[f.name]; !have && (len(seqs) != 1 || !sameFieldVerdict(seqs[0], ws, f.name)) {
					bad[f.name] = fmt.Sprintf("%s: decoder does %q, expected %q", a.String(), seqs, ws)
				}
			}
		}
	}
	for _, f := range fields {
		r.Cond(bad[f.name] == "", rule, "decoder "+f.flag+" copies "+f.name+" from previous entry", p.Pos(dec.Pos()), bad[f.name])
	}
	rfl := anchorFunc(p, r, pkgReceiver, "Transfer", "ReceiveFileList")
	if rfl != nil {
		ok := false
		for _, u := range p.ModGraph().unitFuncs(rfl) {
			allCalls(u, func(c ssa.CallInstruction) {
				if c.Common().StaticCallee() != dec {
					return
				}
				// last argument is a phi whose loop edge is the previous call's result
				if phi, isPhi := c.Common().Args[2].(*ssa.Phi); isPhi {
					for _, e := range phi.Edges {
						if ec, idx := extractOf(e); ec != nil && idx == 0 && ec.Common().StaticCallee() == dec {
							ok = true
						}
					}
				}
			})
		}
		r.Cond(ok, rule, "ReceiveFileList advances the previous entry", p.Pos(rfl.Pos()), "the `last` argument must be the entry decoded in the previous iteration")
	}
}

// sameFieldVerdict: do two record strings agree on field `name`?
func sameFieldVerdict(got, want, name string) bool {
	pick := func(s string) string {
		for _, f := range strings.Fields(s) {
			if strings.HasPrefix(f, name+"=") {
				return f
			}
		}
		return ""
	}
	return pick(got) == pick(want)
}

func checkConstants(p *Prog, r *Report) {
	rule := "C15/W3-CONSTANTS"
	r.Rule(rule, "protocol constants equal the frozen protocol-27 table: XMIT_* bits, S_IF* values, ProtocolVersion, multiplex base and tags, handshake strings", 30)
	ints := []struct {
		pkg, name string
		want      int64
	}{
		{modPath, "XMIT_TOP_DIR", 1}, {modPath, "XMIT_SAME_MODE", 2}, {modPath, "XMIT_EXTENDED_FLAGS", 4}, {modPath, "XMIT_SAME_RDEV_pre28", 4},
		{modPath, "XMIT_SAME_UID", 8}, {modPath, "XMIT_SAME_GID", 16}, {modPath, "XMIT_SAME_NAME", 32}, {modPath, "XMIT_LONG_NAME", 64}, {modPath, "XMIT_SAME_TIME", 128},
		{modPath, "S_IFMT", 0o170000}, {modPath, "S_IFDIR", 0o040000}, {modPath, "S_IFCHR", 0o020000}, {modPath, "S_IFBLK", 0o060000}, {modPath, "S_IFREG", 0o100000},
		{modPath, "S_IFIFO", 0o010000}, {modPath, "S_IFLNK", 0o120000}, {modPath, "S_IFSOCK", 0o140000},
		{modPath, "ProtocolVersion", 27}, {pkgWire, "mplexBase", 7}, {pkgWire, "MsgData", 0}, {pkgWire, "MsgError", 1}, {pkgWire, "MsgInfo", 2},
		{pkgChecksum, "Size", 16},
	}
	for _, c := range ints {
		v, ok := scopeConstInt(p, c.pkg, c.name)
		r.Cond(ok && v == c.want, rule, shortKey(c.pkg)+"."+c.name, "-", fmt.Sprintf("want %d, got %d (resolved=%v)", c.want, v, ok))
	}
	// handshake strings: every string constant starting with "@RSYNCD:" or "@ERROR" used in production code
	want := map[string]bool{"@RSYNCD: %d\n": true, "@RSYNCD: OK\n": true, "@RSYNCD: EXIT\n": true, "@RSYNCD: ": true, "@RSYNCD: OK": true, "@RSYNCD: EXIT": true, "@RSYNCD: AUTHREQD ": true, "@ERROR": true, "@ERROR: %v\n": true, "@ERROR: Unknown module %q\n": true}
	seen := map[string]bool{}
	for _, fn := range p.ModFuncs {
		if isTestSupport(pkgPathOfFunc(fn)) {
			continue
		}
		for _, b := range fn.Blocks {
			for _, in := range b.Instrs {
				for _, op := range in.Operands(nil) {
					if *op == nil {
						continue
					}
					if s, ok := constStr(*op); ok && (strings.HasPrefix(s, "@RSYNCD") || strings.HasPrefix(s, "@ERROR")) && !seen[s] {
						seen[s] = true
						r.Cond(want[s], rule, fmt.Sprintf("handshake literal %q", s), p.Pos(instrPos(in)), "not a protocol-27 daemon handshake string")
					}
				}
			}
		}
	}
	for _, must := range []string{"@RSYNCD: %d\n", "@RSYNCD: OK\n", "@RSYNCD: EXIT\n", "@RSYNCD: OK", "@RSYNCD: EXIT"} {
		if !seen[must] {
			r.Bad(rule, fmt.Sprintf("handshake literal %q", must), "-", "expected literal no longer used")
		}
	}
	// little-endian only
	for _, fn := range p.ModFuncs {
		if pk := pkgPathOfFunc(fn); pk != pkgWire && pk != modPath && pk != pkgSender && pk != pkgReceiver && pk != pkgChecksum {
			continue
		}
		for _, b := range fn.Blocks {
			for _, in := range b.Instrs {
				for _, op := range in.Operands(nil) {
					if g, ok := (*op).(*ssa.Global); ok && g.Pkg != nil && g.Pkg.Pkg.Path() == "encoding/binary" && g.Name() != "LittleEndian" {
						r.Bad(rule, funcKey(fn)+" uses binary."+g.Name(), p.Pos(instrPos(in)), "all protocol integers are little-endian")
					}
				}
			}
		}
	}
	_ = constant.Int
	_ = types.Typ
}

// checkLongintSiblings: Buffer.WriteInt64, Conn.WriteInt64 and Conn.ReadInt64
// agree on the longint encoding; SumHead.WriteTo and ReadFrom agree on order.
func checkLongintSiblings(p *Prog, r *Report) {
	rule := "C15/W4-SIBLINGS"
	r.Rule(rule, "longint: Buffer.WriteInt64 and Conn.WriteInt64 send int32(v) iff 0 ≤ v ≤ 0x7FFFFFFF, else int32(-1) followed by 8 bytes; Conn.ReadInt64 returns the int32 unless it is -1, then reads 8 bytes; SumHead.WriteTo and ReadFrom use the order count, block length, checksum length, remainder", 5)
	for _, recv := range []string{"Buffer", "Conn"} {
		fn := anchorFunc(p, r, pkgWire, recv, "WriteInt64")
		if fn == nil {
			continue
		}
		data := fn.Params[1]
		var pe *PathEnum
		atom := func(cond ssa.Value) (string, bool, bool) {
			bo, ok := cond.(*ssa.BinOp)
			if !ok || pe.C(bo.X) != ssa.Value(data) {
				return "", false, false
			}
			k, isK := constInt(bo.Y)
			switch {
			case bo.Op == token.LEQ && isK && k == 0x7FFFFFFF:
				return "LE31", false, true
			case bo.Op == token.GEQ && isK && k == 0:
				return "GE0", false, true
			case bo.Op == token.NEQ || bo.Op == token.EQL:
				return "", false, false
			}
			return "", false, false
		}
		pe = &PathEnum{Atom: atom, IgnoreUnknown: true, BackEdge: "loop",
			Inline: func(f *ssa.Function) bool { return f.Name() != "WriteInt32" && f.Name() != "WriteInt64" },
			Event: func(in ssa.Instruction) string {
				c, ok := in.(ssa.CallInstruction)
				if !ok {
					return ""
				}
				n := calleeName(c)
				if strings.HasSuffix(n, ").WriteInt32") {
					a := c.Common().Args[1]
					if k, isK := constInt(a); isK && k == -1 {
						return "i32(-1)"
					}
					if cv, isCv := a.(*ssa.Convert); isCv && pe.C(cv.X) == ssa.Value(data) {
						return "i32(v)"
					}
					return "i32(?)"
				}
				if n == "encoding/binary.Write" {
					a2 := c.Common().Args[2]
					if _, isMI := a2.(*ssa.MakeInterface); !isMI {
						a2 = pe.C(a2) // writeLE(data any): the helper's parameter → the caller's boxed value
					}
					if mi, ok := a2.(*ssa.MakeInterface); ok && pe.C(mi.X) == ssa.Value(data) {
						return "i64(v)"
					}
					return "bin(?)"
				}
				return ""
			},
			Outcome: func(last ssa.Instruction, ev []string) string { return strings.Join(ev, " ") }}
		pe.Run(fn)
		// error-abort prefixes are acceptable: compare by prefix
		CheckTable(p, r, rule, recv+".WriteInt64", pe, func(ask func(string) bool) string {
			if ask("LE31") && ask("GE0") {
				return "i32(v)"
			}
			return "i32(-1) i64(v)"
		}, func(got, want string) bool {
			return strings.HasPrefix(want, got) && got != "" && got != want && want == "i32(-1) i64(v)" && got == "i32(-1)"
		})
	}
	// ReadInt64
	if fn := anchorFunc(p, r, pkgWire, "Conn", "ReadInt64"); fn != nil {
		isR32 := func(v ssa.Value, idx int) bool {
			c, i := extractOf(v)
			return c != nil && i == idx && strings.HasSuffix(calleeName(c), ".Conn).ReadInt32")
		}
		atom := func(cond ssa.Value) (string, bool, bool) {
			bo, ok := cond.(*ssa.BinOp)
			if !ok {
				return "", false, false
			}
			if (bo.Op == token.NEQ || bo.Op == token.EQL) && isR32(bo.X, 0) {
				if k, isK := constInt(bo.Y); isK && k == -1 {
					return "ESC", bo.Op == token.NEQ, true
				}
			}
			if (bo.Op == token.NEQ || bo.Op == token.EQL) && isNilConst(bo.Y) {
				if isR32(bo.X, 1) {
					return "E1", bo.Op == token.EQL, true
				}
				return "E2", bo.Op == token.EQL, true
			}
			return "", false, false
		}
		pe := &PathEnum{Atom: atom, BackEdge: "loop",
			Event: func(in ssa.Instruction) string {
				if c, ok := in.(ssa.CallInstruction); ok && calleeName(c) == "encoding/binary.Read" {
					if a, ok := stripConv(c.Common().Args[2]).(*ssa.Alloc); ok {
						if pt, ok := a.Type().(*types.Pointer); ok {
							if b, ok := pt.Elem().Underlying().(*types.Basic); ok && b.Kind() == types.Int64 {
								return "read8"
							}
						}
					}
					return "read?"
				}
				return ""
			},
			Outcome: func(last ssa.Instruction, ev []string) string {
				ret, ok := last.(*ssa.Return)
				if !ok {
					return "panic"
				}
				rr := retResults(ret)
				if !isNilConst(rr[1]) {
					return "error"
				}
				if cv, ok := rr[0].(*ssa.Convert); ok && isR32(cv.X, 0) && len(ev) == 0 {
					return "value32"
				}
				if len(ev) == 1 && ev[0] == "read8" {
					return "value64"
				}
				return "?"
			}}
		pe.Run(fn)
		CheckTable(p, r, rule, "Conn.ReadInt64", pe, func(ask func(string) bool) string {
			if ask("E1") {
				return "error"
			}
			if !ask("ESC") {
				return "value32"
			}
			if ask("E2") {
				return "error"
			}
			return "value64"
		})
	}
	// SumHead order
	order := []string{"ChecksumCount", "BlockLength", "ChecksumLength", "RemainderLength"}
	fieldOf := func(v ssa.Value) string {
		_, f := loadedField(v)
		if f != nil {
			return f.Name()
		}
		return "?"
	}
	if wt := anchorFunc(p, r, modPath, "SumHead", "WriteTo"); wt != nil {
		var got []string
		for _, b := range wt.Blocks {
			for _, in := range b.Instrs {
				if c, ok := in.(ssa.CallInstruction); ok && strings.HasSuffix(calleeName(c), ".Buffer).WriteInt32") {
					got = append(got, fieldOf(c.Common().Args[1]))
				}
			}
		}
		r.Cond(strings.Join(got, ",") == strings.Join(order, ","), rule, "SumHead.WriteTo field order", p.Pos(wt.Pos()), "got "+strings.Join(got, ","))
	}
	if rf := anchorFunc(p, r, modPath, "SumHead", "ReadFrom"); rf != nil {
		var got []string
		// stores of ReadInt32 results in block order (straight-line with error exits)
		s := &Sim{Fn: rf, Atom: func(ssa.Value) (bool, bool) { return false, false }, Completed: func(ret *ssa.Return) bool { return isNilConst(retResults(ret)[0]) },
			Record: func(in ssa.Instruction) string {
				if st, ok := in.(*ssa.Store); ok {
					if isWireInt32(st.Val) {
						_, f := fieldOfAddr(st.Addr)
						if f != nil {
							return f.Name()
						}
					}
				}
				return ""
			}}
		seqs := s.Run()
		if len(seqs) == 1 {
			got = strings.Fields(seqs[0])
		}
		r.Cond(strings.Join(got, ",") == strings.Join(order, ","), rule, "SumHead.ReadFrom field order", p.Pos(rf.Pos()), fmt.Sprintf("got %q", seqs))
	}
}

// checkNumbering: both ends number files identically.
func checkNumbering(p *Prog, r *Report, w *wireExtractor) {
	rule := "C15/W5-NUMBERING"
	r.Rule(rule, "sender sorts fileList.Files by Wpath with < after SendFileList and before SendFiles; Wpath is the very string written as the entry name; receiver sorts by Name with < (checked as C09/LOOKUP-MATCHES-SORT shape) before returning the list; indices on the wire are positions in these slices; walkFn appends to the list exactly the entries it sends", 5)
	do := anchorFunc(p, r, pkgSender, "Transfer", "Do")
	wpathF := p.Field(pkgSender, "file", "Wpath")
	filesF := p.Field(pkgSender, "fileList", "Files")
	if do == nil || wpathF == nil || filesF == nil {
		r.Fatalf("anchor unresolved for %s", rule)
		return
	}
	var sfl, sortc, sf ssa.CallInstruction
	allCalls(do, func(c ssa.CallInstruction) {
		switch {
		case c.Common().StaticCallee() != nil && c.Common().StaticCallee().Name() == "SendFileList":
			sfl = c
		case c.Common().StaticCallee() != nil && c.Common().StaticCallee().Name() == "SendFiles":
			sf = c
		case calleeName(c) == "sort.Slice":
			sortc = c
		}
	})
	okOrder := sfl != nil && sortc != nil && sf != nil && InstrDominates(sfl, sortc) && InstrDominates(sortc, sf)
	r.Cond(okOrder, rule, "sender.Do: SendFileList → sort → SendFiles", p.Pos(do.Pos()), "the list must be sorted after it was sent and before requests are served")
	okCmp := false
	for _, lit := range do.AnonFuncs {
		for _, b := range lit.Blocks {
			ret, ok := lastInstr(b).(*ssa.Return)
			if !ok || len(ret.Results) != 1 {
				continue
			}
			bo, ok := retResults(ret)[0].(*ssa.BinOp)
			if !ok || bo.Op != token.LSS {
				continue
			}
			idxOf := func(v ssa.Value) ssa.Value {
				ld, ok := v.(*ssa.UnOp)
				if !ok || ld.Op != token.MUL {
					return nil
				}
				base, f := fieldOfAddr(ld.X)
				if f != wpathF {
					return nil
				}
				ia, ok := base.(*ssa.IndexAddr)
				if !ok || !isFieldLoad(ia.X, filesF) {
					return nil
				}
				return ia.Index
			}
			if len(lit.Params) == 2 && idxOf(bo.X) == ssa.Value(lit.Params[0]) && idxOf(bo.Y) == ssa.Value(lit.Params[1]) {
				okCmp = true
			}
		}
	}
	r.Cond(okCmp, rule, "sender comparator Files[i].Wpath < Files[j].Wpath", p.Pos(do.Pos()), "")
	// Wpath == the name written (walkFn and the helpers split out of it)
	g := p.ModGraph()
	okName := false
	var nameWritten ssa.Value
	unit := g.unitFuncs(w.enc)
	for _, fn := range unit {
		for _, b := range fn.DomPreorder() {
			for _, in := range b.Instrs {
				if c, ok := in.(ssa.CallInstruction); ok && strings.HasSuffix(calleeName(c), ".Buffer).WriteString") && nameWritten == nil {
					nameWritten = c.Common().Args[1]
				}
			}
		}
		if nameWritten != nil {
			break
		}
	}
	for _, fn := range unit {
		for _, b := range fn.Blocks {
			for _, in := range b.Instrs {
				if st, ok := in.(*ssa.Store); ok {
					if _, f := fieldOfAddr(st.Addr); f == wpathF && nameWritten != nil && g.sameRoots(st.Val, nameWritten) {
						okName = true
					}
				}
			}
		}
	}
	r.Cond(okName, rule, "walkFn: Wpath is the string written as the entry name", p.Pos(w.enc.Pos()), "sort key and wire name must be the same value")
	// list entry and wire entry are created together: on every completed path of
	// walkFn, an append to fileList.Files is followed by the write of the entry
	// to the connection, and no entry is written without having been appended
	{
		s := &Sim{Fn: w.enc, Atom: func(ssa.Value) (bool, bool) { return false, false }, Inline: w.inlineHelpers,
			Completed: func(ret *ssa.Return) bool {
				v := retResults(ret)[0]
				return isNilConst(v) || isSkipDirLoad(v)
			},
			Record: func(in ssa.Instruction) string {
				if st, ok := in.(*ssa.Store); ok {
					if _, f := fieldOfAddr(st.Addr); f == filesF {
						return "APPEND"
					}
				}
				if c, ok := in.(ssa.CallInstruction); ok && strings.HasSuffix(calleeName(c), ".Conn).WriteString") {
					return "SEND"
				}
				return ""
			}}
		okPair := true
		var badSeq string
		for _, q := range s.Run() {
			if q != "" && q != "APPEND SEND" {
				okPair, badSeq = false, q
			}
		}
		r.Cond(okPair && !s.Trunc, rule, "walkFn: every listed entry is sent and every sent entry is listed", p.Pos(w.enc.Pos()), "a completed path of walkFn does ["+badSeq+"]: the sender's list and the wire list differ, so indices after that entry name different files on the two ends")
	}
	// indices are positions: SendFiles indexes fileList.Files with the wire index
	sff := anchorFunc(p, r, pkgSender, "Transfer", "SendFiles")
	okIdx := false
	if sff != nil {
		for _, b := range sff.Blocks {
			for _, in := range b.Instrs {
				if ia, ok := in.(*ssa.IndexAddr); ok && isFieldLoad(ia.X, filesF) {
					if c, idx := extractOf(stripConv(ia.Index)); c != nil && idx == 0 && strings.HasSuffix(calleeName(c), ".Conn).ReadInt32") {
						okIdx = true
					}
				}
			}
		}
	}
	r.Cond(okIdx, rule, "SendFiles: Files[wire index]", "-", "the requested index must address the sorted list directly")
	// receiver side: sort in ReceiveFileList (shape checked here too)
	nameF := p.Field(pkgReceiver, "File", "Name")
	find := p.Func(pkgReceiver, "", "findInFileList")
	if nameF != nil && find != nil {
		sub := NewReport(r.Prop, r.Tier)
		sub.curConfig = r.curConfig
		sub.Rule("C09/LOOKUP-MATCHES-SORT", "", 0)
		checkSortLookup(p, sub, nameF, find)
		okR := true
		for _, o := range sub.Obls {
			if o.Verdict != Discharged && (strings.Contains(o.Key, "sortFileList") || strings.Contains(o.Key, "ReceiveFileList")) {
				okR = false
			}
		}
		r.Cond(okR, rule, "receiver sorts by Name with < before returning the list", "-", "see C09/LOOKUP-MATCHES-SORT")
	}
}

// isWireInt32: v is the value of one Conn.ReadInt32, read directly or by a
// helper that performs exactly that one read and returns its value whenever it
// returns a nil error.
func isWireInt32(v ssa.Value) bool {
	isRead := func(x ssa.Value) bool {
		c, idx := extractOf(x)
		return c != nil && idx == 0 && strings.HasSuffix(calleeName(c), ".Conn).ReadInt32")
	}
	if isRead(v) {
		return true
	}
	call, h, i, _, rets := helperOKReturns(v)
	if call == nil || len(rets) == 0 {
		return false
	}
	for _, ret := range rets {
		if !isRead(retResults(ret)[i]) {
			return false
		}
	}
	reads := 0
	allCalls(h, func(c ssa.CallInstruction) {
		n := calleeName(c)
		if strings.Contains(n, ".Conn).Read") || n == "io.ReadFull" || n == "encoding/binary.Read" {
			reads++
		}
	})
	return reads == 1
}
