package main

import (
	"go/token"
	"go/types"
	"sort"

	"golang.org/x/tools/go/ssa"
)

const pkgRsyncos = modPath + "/internal/rsyncos"

// checkEnvStreams — C08/ENV-STREAMS-SET.
//
// Session code prints through rt.Env.Stdout / st.Env.Stdout (progress, file
// names, listings) under options the peer controls. fmt.Fprint* on a nil
// io.Writer is a nil-pointer dereference, which in a daemon kills the process.
// So: for every session struct field of type *rsyncos.Env (receiver.Transfer.Env,
// sender.Transfer.Env, …) and every stream field S of Env that production code
// reads through that field, every value stored into the struct field must be an
// Env that has S set: a composite literal with a store to S of a non-nil value,
// or a value traced through parameters to such literals. Reads that are
// themselves dominated by a nil test of the stream do not count as uses.
func checkEnvStreams(p *Prog, r *Report) {
	rule := "C08/ENV-STREAMS-SET"
	r.Rule(rule, "every *rsyncos.Env stored into a session object (receiver.Transfer.Env, sender.Transfer.Env) has each stream field (Stdout/Stderr/Stdin) set that production code reads through that session field: a composite literal must store a non-nil value to it (fmt.Fprint* on a nil io.Writer is a nil dereference that kills a daemon when the peer turns on progress or listing output)", 2)
	g := p.ModGraph()
	envObj, _ := p.Obj(pkgRsyncos, "Env").(*types.TypeName)
	if envObj == nil {
		r.Unk(rule, "rsyncos.Env", "-", "type not found: the environment plumbing changed, re-read it")
		return
	}
	envT := envObj.Type()
	isEnvPtr := func(t types.Type) bool {
		pt, ok := t.Underlying().(*types.Pointer)
		return ok && types.Identical(pt.Elem(), envT)
	}
	isStream := func(f *types.Var) bool {
		_, isIface := f.Type().Underlying().(*types.Interface)
		return isIface
	}
	// 1. uses: x.<F>.<S> where F is a struct field of type *Env
	used := map[*types.Var]map[string]string{} // session field -> stream name -> first use position
	for _, fn := range p.ModFuncs {
		if fn.Blocks == nil || isTestSupport(pkgPathOfFunc(fn)) {
			continue
		}
		for _, b := range fn.Blocks {
			for _, in := range b.Instrs {
				fa, ok := in.(*ssa.FieldAddr)
				if !ok || !isEnvPtr(fa.X.Type()) {
					continue
				}
				st := fa.X.Type().Underlying().(*types.Pointer).Elem().Underlying().(*types.Struct)
				sf := st.Field(fa.Field)
				if !isStream(sf) {
					continue
				}
				_, holder := loadedField(fa.X)
				if holder == nil {
					continue // a parameter or local: provenance is the caller's business
				}
				// is the loaded stream only nil-tested / used under a nil test?
				if streamUsesAllNilGuarded(fa) {
					continue
				}
				if used[holder] == nil {
					used[holder] = map[string]string{}
				}
				if _, seen := used[holder][sf.Name()]; !seen {
					used[holder][sf.Name()] = p.Pos(fa.Pos())
				}
			}
		}
	}
	if len(used) == 0 {
		r.Unk(rule, "uses of Env streams", "-", "no read of an Env stream through a session field found: the output plumbing changed, re-read it")
		return
	}
	// 2. stores into those session fields
	var holders []*types.Var
	for h := range used {
		holders = append(holders, h)
	}
	sort.Slice(holders, func(i, j int) bool {
		return holders[i].Pkg().Path()+holders[i].Name() < holders[j].Pkg().Path()+holders[j].Name()
	})
	for _, h := range holders {
		var need []string
		for s := range used[h] {
			need = append(need, s)
		}
		sort.Strings(need)
		nStores := 0
		for _, fn := range p.ModFuncs {
			if fn.Blocks == nil || isTestSupport(pkgPathOfFunc(fn)) {
				continue
			}
			for _, b := range fn.Blocks {
				for _, in := range b.Instrs {
					st, ok := in.(*ssa.Store)
					if !ok {
						continue
					}
					if _, f := fieldOfAddr(st.Addr); f != h {
						continue
					}
					nStores++
					key := funcKey(fn) + " stores " + h.Pkg().Name() + "." + holderTypeName(h) + h.Name()
					for _, root := range g.paramRoots(st.Val, 0) {
						for _, leaf := range phiLeaves(root) {
							missing := envLiteralMissing(leaf, need)
							if missing == nil {
								continue
							}
							for _, s := range missing {
								r.Bad(rule, key+" without "+s, p.Pos(instrPos(st)), "the Env stored here (literal at "+p.Pos(leaf.Pos())+") leaves "+s+" nil, but session code writes to it (e.g. "+used[h][s]+"): a peer that turns that output on crashes the process")
							}
						}
					}
					r.OK(rule, key, p.Pos(instrPos(st)), "")
				}
			}
		}
		if nStores == 0 {
			r.Unk(rule, "stores to "+h.Name(), "-", "session field is read but never stored in production code")
		}
	}
}

func holderTypeName(h *types.Var) string { return "" }

// envLiteralMissing: if v is a composite literal (&Env{…}: an Alloc with field
// stores in its function), the stream names of `need` that get no non-nil
// store; nil when v is not a literal (unknown provenance is not reported) .
func envLiteralMissing(v ssa.Value, need []string) []string {
	a, ok := v.(*ssa.Alloc)
	if !ok {
		return nil
	}
	set := map[string]bool{}
	for _, ref := range *a.Referrers() {
		fa, ok := ref.(*ssa.FieldAddr)
		if !ok {
			continue
		}
		st := fa.X.Type().Underlying().(*types.Pointer).Elem().Underlying().(*types.Struct)
		name := st.Field(fa.Field).Name()
		for _, r2 := range *fa.Referrers() {
			if s, ok := r2.(*ssa.Store); ok && s.Addr == ssa.Value(fa) && !isNilConst(s.Val) {
				set[name] = true
			}
		}
	}
	var missing []string
	for _, s := range need {
		if !set[s] {
			missing = append(missing, s)
		}
	}
	if missing == nil {
		return []string{}[:0:0]
	}
	return missing
}

// streamUsesAllNilGuarded: every load of the stream field address is either
// only compared with nil, or its other uses are dominated by a `!= nil` fact
// about a load of the same field.
func streamUsesAllNilGuarded(fa *ssa.FieldAddr) bool {
	for _, ref := range *fa.Referrers() {
		ld, ok := ref.(*ssa.UnOp)
		if !ok || ld.Op != token.MUL {
			return false
		}
		for _, u := range *ld.Referrers() {
			if bo, ok := u.(*ssa.BinOp); ok && (bo.Op == token.EQL || bo.Op == token.NEQ) && (isNilConst(bo.X) || isNilConst(bo.Y)) {
				continue
			}
			ui, ok := u.(ssa.Instruction)
			if !ok {
				return false
			}
			guarded := false
			for _, f := range FactsAt(ui) {
				bo, ok := f.Cond.(*ssa.BinOp)
				if !ok {
					continue
				}
				var x ssa.Value
				switch {
				case isNilConst(bo.Y):
					x = bo.X
				case isNilConst(bo.X):
					x = bo.Y
				default:
					continue
				}
				nonNil := (bo.Op == token.NEQ && f.Val) || (bo.Op == token.EQL && !f.Val)
				if !nonNil {
					continue
				}
				if l2, ok := x.(*ssa.UnOp); ok && l2.Op == token.MUL {
					if fa2, ok := l2.X.(*ssa.FieldAddr); ok && fa2.Field == fa.Field && sameShape(fa2.X, fa.X, 0) {
						guarded = true
					}
				}
			}
			if !guarded {
				return false
			}
		}
	}
	return true
}
