package main

import (
	"go/token"
	"go/types"

	"golang.org/x/tools/go/ssa"
)

func init() { register("C06", checkC06) }

func checkC06(p *Prog, r *Report) {
	g := p.ModGraph()
	sFuncs := p.FuncsInPkg(pkgSender)
	reach := g.Reach(sFuncs, nil)
	var scopeFuncs []*ssa.Function
	for fn := range reach {
		if isModFunc(fn) && fn.Blocks != nil && !isTestSupport(pkgPathOfFunc(fn)) {
			scopeFuncs = append(scopeFuncs, fn)
			r.FuncsSeen[funcKey(fn)] = true
		}
	}
	localDirF := p.Field(pkgSender, "scopedWalker", "localDir")
	sourceF := p.Field(pkgSender, "scopedWalker", "source")
	rootF := p.Field(pkgSender, "osRootSource", "root")
	modPathF := p.Field(pkgRsyncd, "Module", "Path")
	if localDirF == nil || sourceF == nil || rootF == nil || modPathF == nil {
		r.Fatalf("anchor unresolved: sender.scopedWalker.localDir/source, osRootSource.root, rsyncd.Module.Path")
		return
	}

	// ---- NO-AMBIENT ----
	r.Rule("C06/NO-AMBIENT", "no function of package sender, nor any module function reachable from it, calls an ambient-authority file API; allow-table: the single os.OpenRoot(s.localDir) in (*scopedWalker).walk (argument checked by C06/ROOT-ARG)", 1)
	nOpenRoot := 0
	for _, fn := range scopeFuncs {
		allCalls(fn, func(c ssa.CallInstruction) {
			lbl, ok := ambientLabel(c)
			if !ok {
				return
			}
			key := funcKey(fn) + " → " + lbl
			pos := p.Pos(instrPos(c))
			if lbl == "os.OpenRoot" && pkgPathOfFunc(fn) == pkgSender && fn.Name() == "walk" {
				nOpenRoot++
				r.OK("C06/NO-AMBIENT", key, pos, "allow-table: module root handle")
				return
			}
			r.Bad("C06/NO-AMBIENT", key, pos, "ambient-authority file API reachable from the sender: "+g.Chain(reach, fn))
		})
	}

	// ---- ROOT-ARG ----
	r.Rule("C06/ROOT-ARG", "the argument of os.OpenRoot in the sender is exactly the field scopedWalker.localDir; its only store holds SendFileList's localDir parameter, or a value derived from the requested path only on the edge localDir==\"/\" (implicit module); every production call of (*sender.Transfer).Do passes Module.Path or the constant \"/\"", 4)
	sfl := anchorFunc(p, r, pkgSender, "Transfer", "SendFileList")
	for _, fn := range scopeFuncs {
		allCalls(fn, func(c ssa.CallInstruction) {
			if calleeName(c) != "os.OpenRoot" {
				return
			}
			r.Cond(isFieldLoad(c.Common().Args[0], localDirF), "C06/ROOT-ARG", funcKey(fn)+" → os.OpenRoot(arg)", p.Pos(instrPos(c)), "root must be opened on scopedWalker.localDir itself, not on a path computed from the request (os.OpenRoot follows symlinks in its argument)")
		})
	}
	if sfl != nil && len(sfl.Params) >= 2 {
		ldParam := sfl.Params[1]
		n := 0
		for _, st := range storesToField(p, localDirF) {
			n++
			ok := st.Parent() == sfl
			why := "store outside SendFileList"
			if ok {
				ok, why = localDirValueOK(st.Val, ldParam, map[ssa.Value]bool{})
			}
			r.Cond(ok, "C06/ROOT-ARG", funcKey(st.Parent())+" store scopedWalker.localDir", p.Pos(st.Pos()), why)
		}
		if n == 0 {
			r.Bad("C06/ROOT-ARG", "store scopedWalker.localDir", p.Pos(sfl.Pos()), "no store found")
		}
		// localDir param is passed through unchanged from Do's modPath
		do := anchorFunc(p, r, pkgSender, "Transfer", "Do")
		if do != nil {
			allCalls(do, func(c ssa.CallInstruction) {
				if c.Common().StaticCallee() == sfl {
					r.Cond(c.Common().Args[1] == ssa.Value(do.Params[3]), "C06/ROOT-ARG", "Do → SendFileList(modPath)", p.Pos(instrPos(c)), "module path must be forwarded unchanged")
				}
			})
			for _, fn := range p.ModFuncs {
				if isTestSupport(pkgPathOfFunc(fn)) {
					continue
				}
				allCalls(fn, func(c ssa.CallInstruction) {
					if c.Common().StaticCallee() != do {
						return
					}
					a := c.Common().Args[3]
					s, isC := constStr(a)
					ok := isFieldLoad(a, modPathF) || (isC && s == "/")
					r.Cond(ok, "C06/ROOT-ARG", funcKey(fn)+" → sender.Do(modPath)", p.Pos(instrPos(c)), "module path argument must be Module.Path (daemon) or the constant \"/\" (client/command mode)")
				})
			}
		}
	}

	// ---- SOURCE-ONLY ----
	r.Rule("C06/SOURCE-ONLY", "in package sender *os.Root is used only inside osRootSource's methods on its root field (filled from os.OpenRoot by newOSRootSource); fs.WalkDir walks s.source.FS(); the FileSource implementations in the module are exactly osRootSource and fsSource; every Open/Readlink in the sender is an interface call on FileSource", 8)
	for _, fn := range sFuncs {
		allCalls(fn, func(c ssa.CallInstruction) {
			f := calleeOf(c)
			if f == nil {
				return
			}
			rp, rtn := recvTypeName(f)
			pos := p.Pos(instrPos(c))
			if rp == "os" && rtn == "Root" && !c.Common().IsInvoke() {
				inSrc := fn.Signature.Recv() != nil && namedOf(fn.Signature.Recv().Type()) != nil && namedOf(fn.Signature.Recv().Type()).Obj().Name() == "osRootSource"
				ok := inSrc && isFieldLoad(c.Common().Args[0], rootF)
				r.Cond(ok, "C06/SOURCE-ONLY", funcKey(fn)+" → (*os.Root)."+f.Name(), pos, "*os.Root may only be used by osRootSource through its root field")
			}
			if f.FullName() == "io/fs.WalkDir" || f.FullName() == "path/filepath.WalkDir" || f.FullName() == "path/filepath.Walk" {
				ok := false
				if fc, isC := stripConv(c.Common().Args[0]).(*ssa.Call); isC && fc.Common().IsInvoke() && fc.Common().Method.Name() == "FS" && isFieldLoad(fc.Common().Value, sourceF) {
					ok = f.FullName() == "io/fs.WalkDir"
				}
				r.Cond(ok, "C06/SOURCE-ONLY", funcKey(fn)+" → "+f.Name(), pos, "the walk must be fs.WalkDir over s.source.FS()")
			}
			if c.Common().IsInvoke() && (f.Name() == "Open" || f.Name() == "Readlink" || f.Name() == "ReadLink") {
				n := namedOf(c.Common().Value.Type())
				okT := n != nil && n.Obj().Pkg() != nil && ((n.Obj().Pkg().Path() == pkgSender && n.Obj().Name() == "FileSource") || (n.Obj().Pkg().Path() == "io/fs"))
				inFsSource := fn.Signature.Recv() != nil && namedOf(fn.Signature.Recv().Type()) != nil && namedOf(fn.Signature.Recv().Type()).Obj().Name() == "fsSource"
				if n != nil && n.Obj().Pkg() != nil && n.Obj().Pkg().Path() == "io/fs" && !inFsSource {
					okT = false
				}
				r.Cond(okT, "C06/SOURCE-ONLY", funcKey(fn)+" → "+f.Name()+" (interface)", pos, "file reads in the sender must go through FileSource")
			}
		})
	}
	for _, st := range storesToField(p, rootF) {
		fn := st.Parent()
		ok := pkgPathOfFunc(fn) == pkgSender && fn.Name() == "newOSRootSource" && len(fn.Params) == 1 && st.Val == ssa.Value(fn.Params[0])
		r.Cond(ok, "C06/SOURCE-ONLY", funcKey(fn)+" store osRootSource.root", p.Pos(st.Pos()), "root handle must come from newOSRootSource's parameter")
	}
	if nrs := p.Func(pkgSender, "", "newOSRootSource"); nrs != nil {
		for _, e := range g.In[nrs] {
			c, ok := e.Site.(ssa.CallInstruction)
			if !ok || e.Escape {
				r.Bad("C06/SOURCE-ONLY", funcKey(e.From)+" uses newOSRootSource as a value", p.Pos(instrPos(e.Site)), "")
				continue
			}
			oc, idx := extractOf(c.Common().Args[0])
			r.Cond(oc != nil && idx == 0 && calleeName(oc) == "os.OpenRoot", "C06/SOURCE-ONLY", funcKey(e.From)+" → newOSRootSource(os.OpenRoot result)", p.Pos(instrPos(c)), "")
		}
	} else {
		r.Fatalf("anchor unresolved: sender.newOSRootSource")
	}
	// implementations of FileSource in the module
	if fsObj := p.Obj(pkgSender, "FileSource"); fsObj != nil {
		iface, _ := fsObj.Type().Underlying().(*types.Interface)
		for _, pk := range p.Pkgs {
			if isTestSupport(pk.PkgPath) || pk.Types == nil {
				continue
			}
			sc := pk.Types.Scope()
			for _, nm := range sc.Names() {
				tn, ok := sc.Lookup(nm).(*types.TypeName)
				if !ok || tn.IsAlias() {
					continue
				}
				if _, isI := tn.Type().Underlying().(*types.Interface); isI {
					continue
				}
				if iface != nil && (types.Implements(types.NewPointer(tn.Type()), iface) || types.Implements(tn.Type(), iface)) {
					ok := pk.PkgPath == pkgSender && (nm == "osRootSource" || nm == "fsSource")
					r.Cond(ok, "C06/SOURCE-ONLY", "FileSource implementation "+shortKey(pk.PkgPath)+"."+nm, p.Pos(tn.Pos()), "unexpected FileSource implementation (its reads are not confined by these rules)")
				}
			}
		}
	}

	// ---- NO-CROSS-SESSION-STATE ----
	r.Rule("C06/NO-CROSS-SESSION-STATE", "code reachable from package sender references no process-wide mutable state (buffer pools, caches) beyond the reviewed allow-table: bytes read for one session can never be handed to another", 2)
	checkSharedStateUse(p, r, "C06/NO-CROSS-SESSION-STATE", scopeFuncs)

	// ---- MODULE-FROM-TABLE ----
	r.Rule("C06/MODULE-FROM-TABLE", "getModule returns (with nil error) only elements of Server.modules; HandleDaemonConn hands handleConn the address of that result", 2)
	gm := anchorFunc(p, r, pkgRsyncd, "Server", "getModule")
	modsF := p.Field(pkgRsyncd, "Server", "modules")
	if gm != nil && modsF != nil {
		for _, b := range gm.Blocks {
			ret, ok := lastInstr(b).(*ssa.Return)
			if !ok {
				continue
			}
			rr := retResults(ret)
			if !isNilConst(rr[1]) {
				continue
			}
			ok2 := false
			if ld, isLd := unwrapLocal(rr[0]).(*ssa.UnOp); isLd && ld.Op == token.MUL {
				if ia, isIA := ld.X.(*ssa.IndexAddr); isIA && isFieldLoad(ia.X, modsF) {
					ok2 = true
				}
			}
			r.Cond(ok2, "C06/MODULE-FROM-TABLE", "getModule nil-error return", p.Pos(ret.Pos()), "must return an element of s.modules")
		}
	}
	hd := anchorFunc(p, r, pkgRsyncd, "Server", "HandleDaemonConn")
	hc := anchorFunc(p, r, pkgRsyncd, "Server", "handleConn")
	if hd != nil && hc != nil && gm != nil {
		allCalls(hd, func(c ssa.CallInstruction) {
			if c.Common().StaticCallee() != hc {
				return
			}
			ok := false
			if al, isAl := c.Common().Args[3].(*ssa.Alloc); isAl {
				for _, ref := range *al.Referrers() {
					if st, isSt := ref.(*ssa.Store); isSt && st.Addr == ssa.Value(al) {
						if gc, idx := extractOf(st.Val); gc != nil && idx == 0 && gc.Common().StaticCallee() == gm {
							ok = true
						} else {
							ok = false
							break
						}
					}
				}
			}
			r.Cond(ok, "C06/MODULE-FROM-TABLE", "HandleDaemonConn → handleConn(&module)", p.Pos(instrPos(c)), "module must be the getModule result")
		})
	}
	// ---- SOURCE-PROVENANCE ----
	r.Rule("C06/SOURCE-PROVENANCE", "sender.Transfer.Source is only ever set to sender.NewFSSource(<load of Module.FS>) (the file system the embedding program configured); every production call of NewFSSource has that argument; no production code builds an ambient fs.FS (os.DirFS, os.CopyFS): such a file system follows symlinks out of its directory", 2)
	srcF := p.Field(pkgSender, "Transfer", "Source")
	modFSF := p.Field(pkgRsyncd, "Module", "FS")
	nfs := p.Func(pkgSender, "", "NewFSSource")
	if srcF == nil || modFSF == nil || nfs == nil {
		r.Fatalf("anchor unresolved: sender.Transfer.Source / rsyncd.Module.FS / sender.NewFSSource")
	} else {
		isModFS := func(v ssa.Value) bool { return isFieldLoad(stripConv(v), modFSF) }
		for _, st := range storesToField(p, srcF) {
			fn := st.Parent()
			if isTestSupport(pkgPathOfFunc(fn)) {
				continue
			}
			ok := false
			if c, isC := stripConv(st.Val).(*ssa.Call); isC && c.Common().StaticCallee() == nfs && len(c.Common().Args) == 1 && isModFS(c.Common().Args[0]) {
				ok = true
			}
			r.Cond(ok, "C06/SOURCE-PROVENANCE", funcKey(fn)+" store sender.Transfer.Source", p.Pos(st.Pos()), "the sender's file source must be NewFSSource(module.FS) or stay unset (os.Root on the module path)")
		}
		for _, fn := range p.ModFuncs {
			if isTestSupport(pkgPathOfFunc(fn)) {
				continue
			}
			allCalls(fn, func(c ssa.CallInstruction) {
				switch {
				case c.Common().StaticCallee() == nfs:
					r.Cond(len(c.Common().Args) == 1 && isModFS(c.Common().Args[0]), "C06/SOURCE-PROVENANCE", funcKey(fn)+" → NewFSSource(arg)", p.Pos(instrPos(c)), "argument must be the configured Module.FS")
				case calleeName(c) == "os.DirFS" || calleeName(c) == "os.CopyFS":
					r.Bad("C06/SOURCE-PROVENANCE", funcKey(fn)+" → "+calleeName(c), p.Pos(instrPos(c)), "ambient fs.FS over a directory: symlinks inside it are followed to anywhere on the host")
				}
			})
		}
	}

	r.Trust("os.Root refuses to follow symlinks that leave the root; fs.WalkDir over root.FS() stays inside the root")
	r.Assume("fs.FS implementations supplied by library users are trusted; os/user lookups are not disclosure of module-external files")
	r.Assume("module lookup and ACL are decided under C19/ORDER")
	r.Uncovered("the module-name prefix trimming (a wrong trim selects a different path inside the root, never outside data)")
}

// localDirValueOK: v is the localDir parameter, or a phi whose non-parameter
// edges all arrive from blocks where localDir=="/" is known true.
// isRootFact: the fact says param == "/" (the implicit module).
func isRootFact(f Fact, param *ssa.Parameter) bool {
	b, ok := f.Cond.(*ssa.BinOp)
	if !ok || !((b.Op == token.EQL && f.Val) || (b.Op == token.NEQ && !f.Val)) {
		return false
	}
	s, isC := constStr(b.Y)
	// `local` at the comparison is the parameter itself (fresh copy per iteration)
	return isC && s == "/" && (b.X == ssa.Value(param) || derivesFrom(b.X, param))
}

func underRootFact(b *ssa.BasicBlock, param *ssa.Parameter) bool {
	for _, f := range FactsAtBlock(b) {
		if isRootFact(f, param) {
			return true
		}
	}
	return false
}

// localDirValueOK: v is param itself, or differs from it only on paths where
// param == "/" holds; v may be the result of a same-package helper that gets
// param as an argument (checked on each of the helper's returns).
func localDirValueOK(v ssa.Value, param *ssa.Parameter, seen map[ssa.Value]bool) (bool, string) {
	if v == ssa.Value(param) || seen[v] {
		return true, ""
	}
	seen[v] = true
	if call, idx := extractOf(v); call != nil || isCallValue(v) {
		if call == nil {
			call, idx = v.(*ssa.Call), 0
		}
		h := call.Common().StaticCallee()
		if h != nil && h.Blocks != nil && pkgPathOfFunc(h) == pkgPathOfFunc(param.Parent()) && h != param.Parent() {
			var hp *ssa.Parameter
			for i, a := range call.Common().Args {
				if a == ssa.Value(param) && i < len(h.Params) {
					hp = h.Params[i]
				}
			}
			if hp == nil {
				return false, "helper " + funcKey(h) + " computes localDir without the module path"
			}
			for _, b := range h.Blocks {
				ret, ok := lastInstr(b).(*ssa.Return)
				if !ok {
					continue
				}
				rr := retResults(ret)
				if idx >= len(rr) {
					return false, "helper result index"
				}
				if rr[idx] == ssa.Value(hp) {
					continue
				}
				if _, isPhi := rr[idx].(*ssa.Phi); isPhi {
					if ok, why := localDirValueOK(rr[idx], hp, seen); !ok {
						return false, why
					}
					continue
				}
				if !underRootFact(b, hp) {
					return false, "helper " + funcKey(h) + " returns a request-derived localDir outside the localDir==\"/\" branch"
				}
			}
			return true, ""
		}
	}
	phi, ok := v.(*ssa.Phi)
	if !ok {
		// a non-phi, non-param value: its defining block must be under localDir=="/"
		if in, isIn := v.(ssa.Instruction); isIn && in.Parent() == param.Parent() && underRootFact(in.Block(), param) {
			return true, ""
		}
		return false, "localDir receives a value other than the module path outside the localDir==\"/\" branch"
	}
	for i, e := range phi.Edges {
		if e == ssa.Value(param) {
			continue
		}
		if _, isPhi := e.(*ssa.Phi); isPhi {
			if ok, why := localDirValueOK(e, param, seen); !ok {
				return false, why
			}
			continue
		}
		if !underRootFact(phi.Block().Preds[i], param) {
			return false, "a request-derived value reaches localDir without the localDir==\"/\" guard"
		}
	}
	return true, ""
}

func isCallValue(v ssa.Value) bool { _, ok := v.(*ssa.Call); return ok }
