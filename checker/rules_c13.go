package main

import (
	"fmt"
	"go/constant"
	"go/token"
	"go/types"
	"sort"
	"strings"

	"golang.org/x/tools/go/ssa"
)

func init() { register("C13", checkC13) }

func checkC13(p *Prog, r *Report) {
	g := p.ModGraph()
	sFuncs := p.FuncsInPkg(pkgSender)
	for _, fn := range sFuncs {
		r.FuncsSeen[funcKey(fn)] = true
	}
	flagF := p.Field(pkgSender, "filterRule", "flag")
	listMatches := anchorFunc(p, r, pkgSender, "filterRuleList", "matches")
	ruleMatches := anchorFunc(p, r, pkgSender, "filterRule", "matches")
	if flagF == nil || listMatches == nil || ruleMatches == nil {
		r.Fatalf("anchor unresolved: sender.filterRule.flag / matches")
		return
	}

	r.Rule("C13/SKIPDIR-ONLY-DIRS", "in every fs.WalkDirFunc of package sender each `return SkipDir` is dominated by a directory test on the walked entry (excluding a file must not drop its later siblings)", 3)
	checkSkipDir(p, r, "C13/SKIPDIR-ONLY-DIRS", pkgSender)

	// ---- FLAGS-HONOURED ----
	r.Rule("C13/FLAGS-HONOURED", "every filtrule* flag that rule parsing can set is either read (flag & c) by a function reachable from (*filterRuleList).matches, or every path that sets it ends in a non-nil error return (syntax that cannot be honoured is rejected)", 3)
	flagConsts := map[int64]string{}
	if pk := p.ByPath[pkgSender]; pk != nil {
		for _, nm := range pk.Types.Scope().Names() {
			if c, ok := pk.Types.Scope().Lookup(nm).(*types.Const); ok && len(nm) > 8 && nm[:8] == "filtrule" {
				if v, ok := constant.Int64Val(c.Val()); ok {
					flagConsts[v] = nm
				}
			}
		}
	}
	if len(flagConsts) < 2 {
		r.Fatalf("C13/FLAGS-HONOURED: filtrule* constants not found")
	}
	matchReach := g.Reach([]*ssa.Function{listMatches}, nil)
	reads := map[int64]bool{}
	for fn := range matchReach {
		if !isModFunc(fn) || fn.Blocks == nil {
			continue
		}
		for _, b := range fn.Blocks {
			for _, in := range b.Instrs {
				bo, ok := in.(*ssa.BinOp)
				if !ok || bo.Op != token.AND || !isFieldLoad(bo.X, flagF) {
					continue
				}
				if k, ok := constInt(bo.Y); ok {
					if _, isFlag := flagConsts[k]; isFlag {
						reads[k] = true
					}
				}
			}
		}
	}
	type setSite struct {
		fn *ssa.Function
		in ssa.Instruction
	}
	sets := map[int64][]setSite{}
	for _, fn := range sFuncs {
		for _, b := range fn.Blocks {
			for _, in := range b.Instrs {
				bo, ok := in.(*ssa.BinOp)
				if !ok || bo.Op != token.OR || !isFieldLoad(bo.X, flagF) {
					continue
				}
				if k, ok := constInt(bo.Y); ok {
					if _, isFlag := flagConsts[k]; isFlag {
						sets[k] = append(sets[k], setSite{fn, in})
					}
				}
			}
		}
	}
	var ks []int64
	for k := range sets {
		ks = append(ks, k)
	}
	sort.Slice(ks, func(i, j int) bool { return ks[i] < ks[j] })
	for _, k := range ks {
		name := flagConsts[k]
		for _, s := range sets[k] {
			key := fmt.Sprintf("%s sets %s", funcKey(s.fn), name)
			if reads[k] {
				r.OK("C13/FLAGS-HONOURED", key, p.Pos(instrPos(s.in)), "read by the matcher")
				continue
			}
			// every return reachable after the set must carry a non-nil error
			rejected := s.fn.Signature.Results().Len() > 0
			nret := 0
			if rejected {
				after := reachableFrom(s.in.Block())
				for _, b := range s.fn.Blocks {
					ret, ok := lastInstr(b).(*ssa.Return)
					if !ok || !after[b] {
						continue
					}
					nret++
					rr := retResults(ret)
					if isNilConst(rr[len(rr)-1]) {
						rejected = false
					}
				}
			}
			r.Cond(rejected && nret > 0, "C13/FLAGS-HONOURED", key, p.Pos(instrPos(s.in)), "flag is set by parsing but never consulted by matching and not rejected with an error: the rule silently means something else")
		}
	}

	// ---- NO-PANIC-IN-MATCH ----
	r.Rule("C13/NO-PANIC-IN-MATCH", "no explicit panic is reachable from (*filterRuleList).matches or RecvFilterList (unsupported syntax must be an error, not a crash)", 1)
	recvFL := anchorFunc(p, r, pkgSender, "", "RecvFilterList")
	reach2 := g.Reach([]*ssa.Function{listMatches, recvFL}, nil)
	nP := 0
	for fn := range reach2 {
		if !isModFunc(fn) || fn.Blocks == nil {
			continue
		}
		for _, b := range fn.Blocks {
			if pn, ok := lastInstr(b).(*ssa.Panic); ok && pn.Pos().IsValid() {
				nP++
				r.Bad("C13/NO-PANIC-IN-MATCH", funcKey(fn)+" panic", p.Pos(pn.Pos()), "explicit panic reachable from rule matching: "+g.Chain(reach2, fn))
			}
		}
	}
	r.OK("C13/NO-PANIC-IN-MATCH", "matcher call tree scanned", p.Pos(listMatches.Pos()), "")

	// ---- FIRST-MATCH ----
	checkFirstMatch(p, r, listMatches, ruleMatches, flagF, flagConsts)

	// ---- EXACT-MATCH ----
	r.Rule("C13/EXACT-MATCH", "(*filterRule).matches decides a plain-name rule by string equality of the rule's pattern with the entry's name or base name (not prefix/suffix/substring tests): every non-constant result is `pattern == name'` with name' the name parameter or filepath.Base of it", 1)
	{
		patF := p.Field(pkgSender, "filterRule", "pattern")
		nameP := ruleMatches.Params[1]
		n := 0
		for _, b := range ruleMatches.Blocks {
			ret, ok := lastInstr(b).(*ssa.Return)
			if !ok {
				continue
			}
			rv := retResults(ret)[0]
			if _, isConst := rv.(*ssa.Const); isConst {
				continue
			}
			n++
			okEq := false
			if bo, isB := rv.(*ssa.BinOp); isB && bo.Op == token.EQL {
				for _, pr := range [][2]ssa.Value{{bo.X, bo.Y}, {bo.Y, bo.X}} {
					if !isFieldLoad(pr[0], patF) {
						continue
					}
					all := true
					for _, leaf := range phiLeaves(pr[1]) {
						if leaf == ssa.Value(nameP) {
							continue
						}
						if c, isC := leaf.(*ssa.Call); isC && calleeName(c) == "path/filepath.Base" && c.Common().Args[0] == ssa.Value(nameP) {
							continue
						}
						all = false
					}
					if all {
						okEq = true
					}
				}
			}
			r.Cond(okEq, "C13/EXACT-MATCH", "filterRule.matches result", p.Pos(ret.Pos()), "the match result is not an equality of pattern and (base) name: entries other than the named ones would be filtered")
		}
		if n == 0 {
			r.Bad("C13/EXACT-MATCH", "filterRule.matches result", p.Pos(ruleMatches.Pos()), "no comparison result returned")
		}
	}

	// ---- PREFIX-STRIP ----
	r.Rule("C13/PREFIX-STRIP", "in parseFilter the only string surgery on a rule line is strings.TrimPrefix(line, K) dominated by strings.HasPrefix(line, K)==true for the same constant K (the prefix tested is the prefix removed; character-set trims would eat leading '-', '+' or spaces of the name)", 2)
	pf := anchorFunc(p, r, pkgSender, "", "parseFilter")
	if pf != nil {
		n := 0
		allCalls(pf, func(c ssa.CallInstruction) {
			f := calleeOf(c)
			if f == nil || f.Pkg() == nil || f.Pkg().Path() != "strings" {
				return
			}
			name := f.Name()
			if !strings.HasPrefix(name, "Trim") && !strings.HasPrefix(name, "Cut") && !strings.HasPrefix(name, "Replace") && name != "Fields" && name != "Split" {
				return
			}
			n++
			ok := false
			if name == "TrimPrefix" {
				k, isK := constStr(c.Common().Args[1])
				line := c.Common().Args[0]
				ok = isK && HasFact(c, true, func(v ssa.Value) bool {
					hc, isCall := v.(*ssa.Call)
					if !isCall || calleeName(hc) != "strings.HasPrefix" {
						return false
					}
					k2, isK2 := constStr(hc.Common().Args[1])
					return isK2 && k2 == k && hc.Common().Args[0] == line
				})
			}
			r.Cond(ok, "C13/PREFIX-STRIP", "parseFilter → strings."+name, p.Pos(instrPos(c)), "rule text must only lose exactly the prefix that was tested")
		})
		// slicing of the line is not expected either
		for _, b := range pf.Blocks {
			for _, in := range b.Instrs {
				if sl, ok := in.(*ssa.Slice); ok {
					if bt, ok := sl.X.Type().Underlying().(*types.Basic); ok && bt.Kind() == types.String {
						r.Unk("C13/PREFIX-STRIP", "parseFilter slices the rule line", p.Pos(sl.Pos()), "manual slicing of the rule text: re-read and extend the rule")
					}
				}
			}
		}
		if n == 0 {
			r.Bad("C13/PREFIX-STRIP", "parseFilter strips prefixes", p.Pos(pf.Pos()), "no TrimPrefix found")
		}
	}

	// ---- RULES-REACH-SENDER ----
	r.Rule("C13/RULES-REACH-SENDER", "every production call of (*sender.Transfer).Do passes a rule list derived from sender.RecvFilterList(conn) or from the user's opts.FilterRules(); a nil constant means the user's rules are ignored", 2)
	do := anchorFunc(p, r, pkgSender, "Transfer", "Do")
	if do != nil {
		for _, fn := range p.ModFuncs {
			if isTestSupport(pkgPathOfFunc(fn)) {
				continue
			}
			allCalls(fn, func(c ssa.CallInstruction) {
				if c.Common().StaticCallee() != do {
					return
				}
				arg := c.Common().Args[len(c.Common().Args)-1]
				ok := false
				why := "rule list argument is not derived from RecvFilterList or opts.FilterRules()"
				if isNilConst(arg) {
					why = "nil rule list: --exclude/--include/--filter are ignored when this side sends"
				}
				for _, leaf := range phiLeaves(arg) {
					if call, idx := extractOf(leaf); call != nil && idx == 0 {
						if sc := call.Common().StaticCallee(); sc != nil && pkgPathOfFunc(sc) == pkgSender {
							if sc.Name() == "RecvFilterList" {
								ok = true
							} else {
								// a constructor fed with opts.FilterRules()
								for _, a := range call.Common().Args {
									if isCallTo(a, "(*"+pkgOpts+".Options).FilterRules") {
										ok = true
									}
								}
							}
						}
					}
				}
				r.Cond(ok, "C13/RULES-REACH-SENDER", funcKey(fn)+" → sender.Do(rules)", p.Pos(instrPos(c)), why)
			})
		}
	}

	// ---- RULES-SENT ----
	r.Rule("C13/RULES-SENT", "in ClientRun (receiving side) every rule of opts.FilterRules() is written (length, text) in a loop followed by the terminating WriteInt32(0) — inline or through a helper that gets opts.FilterRules() — and that write sequence dominates ReceiveFileList", 1)
	cr := anchorFunc(p, r, pkgMaincmd, "", "ClientRun")
	rfl := anchorFunc(p, r, pkgReceiver, "Transfer", "ReceiveFileList")
	if cr != nil && rfl != nil {
		// the part of ClientRun that receives may have been split into a helper
		// of the same package: work in the function that calls ReceiveFileList
		var recv ssa.CallInstruction
		entry := cr
		for _, fn := range p.ModGraph().unitFuncs(entry) {
			allCalls(fn, func(c ssa.CallInstruction) {
				if c.Common().StaticCallee() == rfl {
					recv = c
					cr = fn
				}
			})
		}
		// writesRules: fn writes every element of `rules` then a 0 terminator on every nil-error path
		writesRules := func(fn *ssa.Function, rules ssa.Value) bool {
			var ws ssa.CallInstruction
			var term ssa.CallInstruction
			allCalls(fn, func(c ssa.CallInstruction) {
				switch calleeName(c) {
				case "(*" + pkgWire + ".Conn).WriteString":
					if ld, ok := c.Common().Args[1].(*ssa.UnOp); ok && ld.Op == token.MUL {
						if ia, ok := ld.X.(*ssa.IndexAddr); ok && ia.X == rules {
							ws = c
						}
					}
				case "(*" + pkgWire + ".Conn).WriteInt32":
					if k, ok := constInt(c.Common().Args[1]); ok && k == 0 {
						term = c
					}
				default:
					// a per-rule helper: called with rules[i], writes its parameter with WriteString
					h := c.Common().StaticCallee()
					if h == nil || h.Blocks == nil || !isModFunc(h) {
						return
					}
					for k, a := range c.Common().Args {
						ld, ok := a.(*ssa.UnOp)
						if !ok || ld.Op != token.MUL || k >= len(h.Params) {
							continue
						}
						if ia, ok := ld.X.(*ssa.IndexAddr); !ok || ia.X != rules {
							continue
						}
						allCalls(h, func(hc ssa.CallInstruction) {
							if calleeName(hc) == "(*"+pkgWire+".Conn).WriteString" && hc.Common().Args[1] == ssa.Value(h.Params[k]) {
								ws = c
							}
						})
					}
				}
			})
			inLoop := false
			if ws != nil {
				for _, sc := range ws.Block().Succs {
					if reachableFrom(sc)[ws.Block()] {
						inLoop = true
					}
				}
			}
			if ws == nil || term == nil || !mayFollow(ws, term) || !inLoop {
				return false
			}
			if fn == cr {
				return recv != nil && InstrDominates(term, recv)
			}
			// helper: every return is the terminator's result or a non-nil error
			for _, b := range fn.Blocks {
				ret, ok := lastInstr(b).(*ssa.Return)
				if !ok {
					continue
				}
				rv := retResults(ret)[0]
				if rv == term.Value() {
					continue
				}
				if isNilConst(rv) && !InstrDominates(term, ret) {
					return false
				}
			}
			return true
		}
		ok := false
		allCalls(cr, func(c ssa.CallInstruction) {
			if calleeName(c) != "(*"+pkgOpts+".Options).FilterRules" || recv == nil || !InstrDominates(c, recv) {
				return
			}
			if writesRules(cr, c.Value()) {
				ok = true
			}
			// passed to a helper that dominates ReceiveFileList and whose error is checked
			for _, ref := range *c.Value().Referrers() {
				hc, isCall := ref.(*ssa.Call)
				if !isCall || hc.Common().StaticCallee() == nil || !InstrDominates(hc, recv) {
					continue
				}
				h := hc.Common().StaticCallee()
				for i, a := range hc.Common().Args {
					if a == c.Value() && i < len(h.Params) && writesRules(h, h.Params[i]) {
						if prop, _ := errPropagated(hc); prop {
							ok = true
						}
					}
				}
			}
		})
		r.Cond(ok, "C13/RULES-SENT", "ClientRun sends filter rules before the list terminator", p.Pos(entry.Pos()), "rules loop / terminator / ReceiveFileList ordering not established")
	}
	checkListFraming(p, r, "C13/LIST-FRAMING")
	checkExcludedLeavesNoTrace(p, r)
	checkUserRuleSyntax(p, r)
	checkAnchoredDecided(p, r)
	_ = nP
	r.Uncovered("string semantics of the match (pattern == filepath.Base(name)), anchored patterns, rule grammar beyond the three prefixes")
	r.Assume("foreign code calls only function values and interface methods it was handed")
}

func checkFirstMatch(p *Prog, r *Report, listMatches, ruleMatches *ssa.Function, flagF *types.Var, flagConsts map[int64]string) {
	rule := "C13/FIRST-MATCH"
	r.Rule(rule, "decision table of (*filterRuleList).matches: rules are tried in list order; the first rule whose matches(name) is true decides, excluded iff that rule is not an include rule; no rule matches → not excluded", 3)
	var incConst int64 = -1
	for k, n := range flagConsts {
		if n == "filtruleInclude" {
			incConst = k
		}
	}
	if len(listMatches.Params) < 2 {
		r.Fatalf("%s: signature changed", rule)
		return
	}
	isIncTest := func(v ssa.Value) (neg, ok bool) { // (flag & Include) != 0
		bo, isB := v.(*ssa.BinOp)
		if !isB || (bo.Op != token.NEQ && bo.Op != token.EQL) {
			return false, false
		}
		and, isA := bo.X.(*ssa.BinOp)
		if !isA || and.Op != token.AND || !isFieldLoad(and.X, flagF) {
			return false, false
		}
		k, isK := constInt(and.Y)
		z, isZ := constInt(bo.Y)
		if !isK || k != incConst || !isZ || z != 0 {
			return false, false
		}
		return bo.Op == token.EQL, true
	}
	atom := func(cond ssa.Value) (string, bool, bool) {
		switch x := cond.(type) {
		case *ssa.BinOp:
			if x.Op == token.LSS {
				if add, ok := x.X.(*ssa.BinOp); ok && add.Op == token.ADD {
					if _, isPhi := add.X.(*ssa.Phi); isPhi {
						return "MORE", false, true
					}
				}
			}
			if neg, ok := isIncTest(x); ok {
				return "INC", neg, true
			}
		case *ssa.Call:
			if x.Common().StaticCallee() == ruleMatches {
				return "M", false, true
			}
		}
		return "", false, false
	}
	var pe *PathEnum
	pe = &PathEnum{Atom: atom, BackEdge: "next-rule", Outcome: func(last ssa.Instruction, _ []string) string {
		ret, ok := last.(*ssa.Return)
		if !ok {
			return "panic"
		}
		v := retResults(ret)[0]
		flip := false
		for {
			u, isU := v.(*ssa.UnOp)
			if !isU || u.Op != token.NOT {
				break
			}
			v, flip = u.X, !flip
		}
		if c, ok := v.(*ssa.Const); ok && c.Value != nil {
			if constant.BoolVal(c.Value) != flip {
				return "excluded"
			}
			return "kept"
		}
		if b, known := pe.Known(v); known {
			if b != flip {
				return "excluded"
			}
			return "kept"
		}
		if neg, ok := isIncTest(v); ok {
			if neg != flip {
				return "excluded-iff-not-include"
			}
			return "excluded-iff-include"
		}
		return "?unrecognised-result"
	}}
	pe.Inline = func(f *ssa.Function) bool { return f != ruleMatches }
	pe.Run(listMatches)
	spec := func(ask func(string) bool) string {
		if !ask("MORE") {
			return "kept"
		}
		if !ask("M") {
			return "next-rule"
		}
		return "decided-by-include-flag"
	}
	accept := func(got, want string) bool {
		return want == "decided-by-include-flag" && got == "excluded-iff-not-include"
	}
	// a path that tested INC explicitly
	for i := range pe.Rows {
		row := &pe.Rows[i]
		if v, ok := row.Facts["INC"]; ok && row.Facts["M"] {
			if (v && row.Outcome == "kept") || (!v && row.Outcome == "excluded") {
				row.Outcome = "excluded-iff-not-include"
			}
		}
	}
	CheckTable(p, r, rule, "filterRuleList.matches", pe, spec, accept)
}

// checkExcludedLeavesNoTrace — C13/EXCLUDED-NO-TRACE: an entry the rules
// exclude must leave no trace in what is sent afterwards. In the walk callback
// the filter decision for the entry dominates every write to state that
// outlives the callback (fields of the walker, of the file list, of anything
// reached through a pointer) and every write to the wire buffer: a "previous
// entry" (name prefix, mode, mtime) updated before the decision makes the
// sender and the receiver disagree about the entry that follows an excluded one.
func checkExcludedLeavesNoTrace(p *Prog, r *Report) {
	rule := "C13/EXCLUDED-NO-TRACE"
	r.Rule(rule, "in the sender's walk callback the filter decision (filterRuleList.matches for this entry) dominates every store to memory that outlives the callback (walker, file list, anything behind a pointer) and every write to the wire buffer: nothing about an entry is recorded before it is known to be transmitted", 1)
	wf := p.Func(pkgSender, "scopedWalker", "walkFn")
	if wf == nil {
		r.Unk(rule, "walkFn", "-", "anchor not found")
		return
	}
	var decide ssa.CallInstruction
	allCalls(wf, func(c ssa.CallInstruction) {
		if sc := c.Common().StaticCallee(); sc != nil && sc.Name() == "matches" && pkgPathOfFunc(sc) == pkgSender {
			if decide == nil {
				decide = c
			}
		}
	})
	if decide == nil {
		r.Unk(rule, "filter decision", p.Pos(wf.Pos()), "walkFn does not call the rule matcher any more: re-read where entries are filtered")
		return
	}
	localBase := func(a ssa.Value) bool {
		for i := 0; i < 8; i++ {
			switch x := a.(type) {
			case *ssa.FieldAddr:
				a = x.X
			case *ssa.IndexAddr:
				a = x.X
			case *ssa.Alloc:
				return true
			default:
				return false
			}
		}
		return false
	}
	bad := 0
	for _, b := range wf.Blocks {
		for _, in := range b.Instrs {
			switch x := in.(type) {
			case *ssa.Store:
				if localBase(x.Addr) {
					continue
				}
				if !InstrDominates(decide, x) {
					bad++
					r.Bad(rule, "walkFn store before the filter decision", p.Pos(x.Pos()), "state that outlives the callback is written before the rules were consulted for this entry: an excluded entry changes what is sent for the next one")
				}
			case ssa.CallInstruction:
				n := calleeName(x)
				if len(n) > 0 && (hasPrefixAny(n, "(*"+pkgWire+".Buffer).Write", "(*"+pkgWire+".Conn).Write")) && !InstrDominates(decide, x) {
					bad++
					r.Bad(rule, "walkFn wire write before the filter decision", p.Pos(instrPos(x)), "bytes of an entry are buffered before the rules were consulted for it")
				}
			}
		}
	}
	if bad == 0 {
		r.OK(rule, "walkFn: decision first", p.Pos(instrPos(decide)), "")
	}
}

func hasPrefixAny(s string, ps ...string) bool {
	for _, q := range ps {
		if len(s) >= len(q) && s[:len(q)] == q {
			return true
		}
	}
	return false
}
