package main

import (
	"go/token"
	"go/types"

	"golang.org/x/tools/go/ssa"
)

func init() { register("C02", checkC02) }

func checkC02(p *Prog, r *Report) {
	hs := anchorFunc(p, r, pkgSender, "Transfer", "hashSearch")
	matched := anchorFunc(p, r, pkgSender, "Transfer", "matched")
	seedS := p.Field(pkgSender, "Transfer", "Seed")
	seedR := p.Field(pkgReceiver, "Transfer", "Seed")
	sum1F := p.Field(modPath, "SumBuf", "Sum1")
	sum2F := p.Field(modPath, "SumBuf", "Sum2")
	lenF := p.Field(modPath, "SumBuf", "Len")
	sumsF := p.Field(modPath, "SumHead", "Sums")
	cklenF := p.Field(modPath, "SumHead", "ChecksumLength")
	if hs == nil || matched == nil || seedS == nil || seedR == nil || sum1F == nil || sum2F == nil || lenF == nil || sumsF == nil || cklenF == nil {
		r.Fatalf("anchor unresolved for C02")
		return
	}

	// ---- STRONG-GATE ----
	r.Rule("C02/STRONG-GATE", "in sender.hashSearch every block-reference emission matched(…, i) (i not a negative constant) is dominated by: weak sum == head.Sums[i].Sum1, length == head.Sums[i].Len, and bytes.Equal(Checksum2(st.Seed, ms.ptr(…))[:ChecksumLength], head.Sums[i].Sum2[:ChecksumLength]) == true, all for the same i", 1)
	// field-of-Sums[i]: returns index value when v is (addr or load) of head.Sums[idx].<field>
	sumsElemField := func(addr ssa.Value) (idx ssa.Value, fld *types.Var) {
		base, f := fieldOfAddr(addr)
		if f == nil {
			return nil, nil
		}
		ia, ok := base.(*ssa.IndexAddr)
		if !ok || !isFieldLoad(ia.X, sumsF) {
			return nil, nil
		}
		return ia.Index, f
	}
	loadSumsElemField := func(v ssa.Value) (ssa.Value, *types.Var) {
		ld, ok := v.(*ssa.UnOp)
		if !ok || ld.Op != token.MUL {
			return nil, nil
		}
		return sumsElemField(ld.X)
	}
	isStrongOf := func(v ssa.Value) bool { // Checksum2(st.Seed, <ms.ptr result>) possibly via phi with nil
		leaves := phiLeaves(v)
		n := 0
		for _, l := range leaves {
			if isNilConst(l) {
				continue
			}
			c, ok := l.(*ssa.Call)
			if !ok || calleeName(c) != pkgChecksum+".Checksum2" {
				return false
			}
			a := c.Common().Args
			if !isFieldLoad(a[0], seedS) {
				return false
			}
			buf := a[1]
			if sl, ok := buf.(*ssa.Slice); ok {
				buf = sl.X
			}
			pc, idx := extractOf(buf)
			if pc == nil || idx != 0 || calleeName(pc) != "(*"+pkgSender+".mapStruct).ptr" {
				return false
			}
			n++
		}
		return n > 0
	}
	emissions := 0
	g := p.ModGraph()
	hsUnit := g.unitFuncs(hs) // hashSearch, its closures and the sender functions it is split into
	for _, fn := range hsUnit {
		allCalls(fn, func(c ssa.CallInstruction) {
			if c.Common().StaticCallee() != matched {
				return
			}
			a := c.Common().Args
			i := a[len(a)-1]
			if k, ok := constInt(i); ok && k < 0 {
				return // flush of literal data, not a block reference
			}
			emissions++
			var okWeak, okLen, okStrong bool
			gateAt := func(at ssa.Instruction, i ssa.Value) (okWeak, okLen, okStrong bool) {
				for _, f := range FactsAt(at) {
					switch x := f.Cond.(type) {
					case *ssa.BinOp:
						if (x.Op == token.NEQ && !f.Val) || (x.Op == token.EQL && f.Val) {
							for _, side := range []ssa.Value{x.X, x.Y} {
								idx, fld := loadSumsElemField(side)
								if idx == i && fld == sum1F {
									okWeak = true
								}
								if idx == i && fld == lenF {
									okLen = true
								}
							}
						}
					case *ssa.Call:
						if !f.Val || calleeName(x) != "bytes.Equal" {
							continue
						}
						ea := x.Common().Args
						for _, pr := range [][2]ssa.Value{{ea[0], ea[1]}, {ea[1], ea[0]}} {
							ls, ok1 := pr[0].(*ssa.Slice)
							rs, ok2 := pr[1].(*ssa.Slice)
							if !ok1 || !ok2 || ls.Low != nil || rs.Low != nil || ls.High == nil || rs.High == nil {
								continue
							}
							if !isFieldLoad(ls.High, cklenF) || !isFieldLoad(rs.High, cklenF) {
								continue
							}
							idx, fld := sumsElemField(rs.X)
							if idx == i && fld == sum2F && isStrongOf(ls.X) {
								okStrong = true
							}
						}
					}
				}
				return
			}
			okWeak, okLen, okStrong = gateAt(c, i)
			// i, found := st.findMatch(…): the gate may sit in a helper that returns the
			// block index together with a flag; the emission is then guarded by the flag
			if ex, isEx := i.(*ssa.Extract); isEx && !(okWeak && okLen && okStrong) {
				if hcall, isCall := ex.Tuple.(*ssa.Call); isCall {
					h := hcall.Common().StaticCallee()
					flag := -1
					for _, f := range FactsAt(c) {
						if fe, ok := f.Cond.(*ssa.Extract); ok && f.Val && fe.Tuple == ex.Tuple && fe.Index != ex.Index {
							flag = fe.Index
						}
					}
					if h != nil && h.Blocks != nil && flag >= 0 {
						all, n := true, 0
						for _, b := range h.Blocks {
							ret, ok := lastInstr(b).(*ssa.Return)
							if !ok || flag >= len(ret.Results) || ex.Index >= len(ret.Results) {
								continue
							}
							if k, isK := ret.Results[flag].(*ssa.Const); isK && k.Value != nil && k.Value.String() == "false" {
								continue
							}
							n++
							w, l, st := gateAt(ret, ret.Results[ex.Index])
							if !(w && l && st) {
								all = false
							}
						}
						if all && n > 0 {
							okWeak, okLen, okStrong = true, true, true
						}
					}
				}
			}
			why := ""
			if !okWeak {
				why += "weak-sum comparison with Sums[i].Sum1 does not dominate; "
			}
			if !okLen {
				why += "length comparison with Sums[i].Len does not dominate; "
			}
			if !okStrong {
				why += "strong comparison bytes.Equal(Checksum2(seed, window)[:n], Sums[i].Sum2[:n]) for this i does not dominate"
			}
			r.Cond(okWeak && okLen && okStrong, "C02/STRONG-GATE", funcKey(fn)+" → matched(block reference)", p.Pos(instrPos(c)), why)
		})
	}
	if emissions == 0 {
		r.Fatalf("C02/STRONG-GATE: no block-reference emission found in hashSearch")
	}

	// ---- ONE-DEFINITION ----
	r.Rule("C02/ONE-DEFINITION", "block checksums have one definition: md4.New is called only in rsyncchecksum and the three whole-file hash sites; Checksum1/Checksum2 are called by the generator (with rt.Seed) and the sender's search (with st.Seed); in hashSearch no file byte is widened except through rsyncchecksum.SignExtend", 8)
	md4Allowed := map[string]bool{
		"rsync/internal/rsyncchecksum.Checksum2": true, "rsync/internal/rsyncchecksum.ReaderChecksum": true,
		"(*rsync/internal/sender.Transfer).sendFile": true, "(*rsync/internal/sender.Transfer).hashSearch": true,
		"(*rsync/internal/receiver.Transfer).receiveData": true,
	}
	sumCallers := map[string]bool{}
	inHsUnit, genUnit := map[*ssa.Function]bool{}, map[*ssa.Function]bool{}
	for _, fn := range hsUnit {
		inHsUnit[fn] = true
	}
	if gen := p.Func(pkgReceiver, "Transfer", "generateAndSendSums"); gen != nil {
		for _, fn := range g.unitFuncs(gen) {
			genUnit[fn] = true
		}
	}
	for _, fn := range p.ModFuncs {
		if isTestSupport(pkgPathOfFunc(fn)) {
			continue
		}
		allCalls(fn, func(c ssa.CallInstruction) {
			n := calleeName(c)
			pos := p.Pos(instrPos(c))
			switch n {
			case fnMD4New:
				r.Cond(md4Allowed[funcKey(fn)], "C02/ONE-DEFINITION", funcKey(fn)+" → md4.New", pos, "a second strong-checksum definition outside rsyncchecksum / the whole-file hash sites")
			case pkgChecksum + ".Checksum1", pkgChecksum + ".Checksum2":
				root := ""
				ok := false
				switch {
				case genUnit[fn]:
					root = "(*rsync/internal/receiver.Transfer).generateAndSendSums"
					ok = n == pkgChecksum+".Checksum1" || isFieldLoad(c.Common().Args[0], seedR)
				case inHsUnit[fn]:
					root = "(*rsync/internal/sender.Transfer).hashSearch"
					ok = n == pkgChecksum+".Checksum1" || isFieldLoad(c.Common().Args[0], seedS)
				}
				sumCallers[root+"/"+n[len(pkgChecksum)+1:]] = true
				r.Cond(ok, "C02/ONE-DEFINITION", funcKey(fn)+" → "+n[len(pkgChecksum)+1:], pos, "block checksum must be computed by generator/sender with their Transfer.Seed")
			}
		})
	}
	for _, want := range []string{"(*rsync/internal/receiver.Transfer).generateAndSendSums/Checksum1", "(*rsync/internal/receiver.Transfer).generateAndSendSums/Checksum2",
		"(*rsync/internal/sender.Transfer).hashSearch/Checksum1", "(*rsync/internal/sender.Transfer).hashSearch/Checksum2"} {
		if !sumCallers[want] {
			r.Bad("C02/ONE-DEFINITION", "expected caller "+want, "-", "generator and sender must both use the shared definitions")
		}
	}
	nSE := 0
	// the rolling-checksum code: hashSearch, its closures, and any function of its unit
	// that widens through SignExtend
	rolling := append([]*ssa.Function{hs}, hs.AnonFuncs...)
	for _, fn := range hsUnit {
		if fn == hs || fn.Parent() == hs {
			continue
		}
		uses := false
		allCalls(fn, func(c ssa.CallInstruction) {
			if calleeName(c) == pkgChecksum+".SignExtend" {
				uses = true
			}
		})
		if uses {
			rolling = append(rolling, fn)
		}
	}
	for _, fn := range rolling {
		for _, b := range fn.Blocks {
			for _, in := range b.Instrs {
				if cv, ok := in.(*ssa.Convert); ok {
					if bt, ok := cv.X.Type().Underlying().(*types.Basic); ok && bt.Kind() == types.Uint8 {
						r.Bad("C02/ONE-DEFINITION", funcKey(fn)+" widens a byte without SignExtend", p.Pos(cv.Pos()), "rolling checksum must widen bytes exactly like Checksum1 (signed char semantics)")
					}
				}
				if c, ok := in.(ssa.CallInstruction); ok && calleeName(c) == pkgChecksum+".SignExtend" {
					nSE++
				}
			}
		}
	}
	r.Cond(nSE >= 3, "C02/ONE-DEFINITION", "hashSearch rolling update uses SignExtend", p.Pos(hs.Pos()), "expected the oldest/newest byte of the window to be widened by SignExtend (3 sites)")

	checkWideOffsets(p, r)

	// ---- SEED ----
	r.Rule("C02/SEED", "Transfer.Seed on both ends is the session seed: on the server the value written to the wire by handleConn; on the client the int32 read from the connection", 4)
	hc := anchorFunc(p, r, pkgRsyncd, "Server", "handleConn")
	// seedOK: v (used at instruction at) is the session seed: read from the wire, or
	// already written to the peer by this function before at, or a parameter every
	// caller binds to such a value (≤ 3 levels).
	var seedOK func(v ssa.Value, at ssa.Instruction, depth int) (bool, string)
	seedOK = func(v ssa.Value, at ssa.Instruction, depth int) (bool, string) {
		if rc, idx := extractOf(v); rc != nil && idx == 0 && calleeName(rc) == "(*"+pkgWire+".Conn).ReadInt32" {
			return true, ""
		}
		fn := at.Parent()
		wrote := false
		allCalls(fn, func(w ssa.CallInstruction) {
			if calleeName(w) == "(*"+pkgWire+".Conn).WriteInt32" && w.Common().Args[1] == v && InstrDominates(w, at) {
				wrote = true
			}
		})
		if wrote {
			return true, ""
		}
		prm, isP := v.(*ssa.Parameter)
		if !isP || depth >= 3 {
			return false, "seed in " + funcKey(fn) + " is neither the value sent to the peer nor the value read from the wire"
		}
		idx := -1
		for i, pp := range fn.Params {
			if pp == prm {
				idx = i
			}
		}
		n := 0
		for _, e := range p.ModGraph().In[fn] {
			if isTestSupport(pkgPathOfFunc(e.From)) {
				continue
			}
			c, isC := e.Site.(ssa.CallInstruction)
			if !isC || e.Escape || idx < 0 || c.Common().StaticCallee() != fn {
				return false, funcKey(fn) + " is used as a value; callers unknown"
			}
			n++
			if ok, why := seedOK(c.Common().Args[idx], c, depth+1); !ok {
				return false, why
			}
		}
		if n == 0 {
			return false, funcKey(fn) + " has no callers"
		}
		return true, ""
	}
	for _, sf := range []*types.Var{seedS, seedR} {
		for _, st := range storesToField(p, sf) {
			fn := st.Parent()
			if isTestSupport(pkgPathOfFunc(fn)) {
				continue
			}
			key := funcKey(fn) + " store " + sf.Pkg().Name() + ".Transfer.Seed"
			ok, why := seedOK(st.Val, st, 0)
			r.Cond(ok && hc != nil, "C02/SEED", key, p.Pos(st.Pos()), why)
		}
	}

	// ---- TRAILER ----
	r.Rule("C02/TRAILER", "in sendFile and hashSearch every nil-error return is dominated by Conn.Writer.Write(h.Sum(nil)) for the seeded whole-file hash h", 2)
	for _, name := range []string{"sendFile", "hashSearch"} {
		fn := anchorFunc(p, r, pkgSender, "Transfer", name)
		if fn == nil {
			continue
		}
		seeding := findHashSeeding(p, fn, seedS)
		if !seeding.ok {
			r.Bad("C02/TRAILER", funcKey(fn)+" trailer", p.Pos(fn.Pos()), "whole-file hash not identified: "+seeding.why)
			continue
		}
		var trailer ssa.Instruction
		allCalls(fn, func(c ssa.CallInstruction) {
			if !c.Common().IsInvoke() || c.Common().Method.Name() != "Write" {
				return
			}
			sc, ok := c.Common().Args[0].(*ssa.Call)
			if ok && sc.Common().IsInvoke() && sc.Common().Method.Name() == "Sum" && derivesFrom(sc.Common().Value, seeding.newCall) {
				if wf, f := loadedField(c.Common().Value); f != nil && f.Name() == "Writer" && wf != nil {
					trailer = c
				}
			}
		})
		// … or a helper that gets the hash and writes its sum (sendFileSum(h)):
		// the helper's own nil returns must be dominated by that write
		if trailer == nil {
			allCalls(fn, func(c ssa.CallInstruction) {
				h := c.Common().StaticCallee()
				if h == nil || h.Blocks == nil || pkgPathOfFunc(h) != pkgSender || trailer != nil {
					return
				}
				for k, pp := range h.Params {
					if k >= len(c.Common().Args) || !derivesFrom(c.Common().Args[k], seeding.newCall) {
						continue
					}
					var w ssa.Instruction
					allCalls(h, func(hc ssa.CallInstruction) {
						if !hc.Common().IsInvoke() || hc.Common().Method.Name() != "Write" {
							return
						}
						sc, ok := hc.Common().Args[0].(*ssa.Call)
						if ok && sc.Common().IsInvoke() && sc.Common().Method.Name() == "Sum" && (sc.Common().Value == ssa.Value(pp) || derivesFrom(sc.Common().Value, pp)) {
							if wf, f := loadedField(hc.Common().Value); f != nil && f.Name() == "Writer" && wf != nil {
								w = hc
							}
						}
					})
					if w == nil {
						continue
					}
					inner := true
					for _, b := range h.Blocks {
						if ret, ok := lastInstr(b).(*ssa.Return); ok && len(ret.Results) > 0 && isNilConst(ret.Results[len(ret.Results)-1]) && !InstrDominates(w, ret) {
							inner = false
						}
					}
					if inner {
						trailer = c
					}
				}
			})
		}
		okAll := trailer != nil
		why := "no Conn.Writer.Write(h.Sum(nil))"
		if trailer != nil {
			for _, b := range fn.Blocks {
				ret, ok := lastInstr(b).(*ssa.Return)
				if !ok {
					continue
				}
				if isNilConst(retResults(ret)[0]) && !InstrDominates(trailer, ret) {
					okAll = false
					why = "a nil-error return at " + p.Pos(ret.Pos()) + " is not dominated by the trailer write"
				}
			}
		}
		r.Cond(okAll, "C02/TRAILER", funcKey(fn)+" trailer", p.Pos(fn.Pos()), why)
	}
	// ---- WINDOW-PRESERVED ----
	r.Rule("C02/WINDOW-PRESERVED", "in (*mapStruct).ptr a newly allocated window replaces ms.window only after copy(new, ms.window): the overlap-reuse step below keeps bytes of the old window instead of re-reading them", 1)
	ptrFn := anchorFunc(p, r, pkgSender, "mapStruct", "ptr")
	winF := p.Field(pkgSender, "mapStruct", "window")
	if ptrFn != nil && winF != nil {
		n := 0
		for _, b := range ptrFn.Blocks {
			for _, in := range b.Instrs {
				st, ok := in.(*ssa.Store)
				if !ok {
					continue
				}
				if _, f := fieldOfAddr(st.Addr); f != winF {
					continue
				}
				mk, isMk := st.Val.(*ssa.MakeSlice)
				if !isMk {
					continue
				}
				n++
				copied := false
				allCalls(ptrFn, func(c ssa.CallInstruction) {
					if bi, ok := c.Common().Value.(*ssa.Builtin); ok && bi.Name() == "copy" {
						a := c.Common().Args
						if a[0] == ssa.Value(mk) && isFieldLoad(a[1], winF) && InstrDominates(c, st) {
							copied = true
						}
					}
				})
				r.Cond(copied, "C02/WINDOW-PRESERVED", "mapStruct.ptr window reallocation", p.Pos(st.Pos()), "the enlarged window is installed without the old contents; reused bytes become zeros that are sent and hashed")
			}
		}
		if n == 0 {
			r.Unk("C02/WINDOW-PRESERVED", "mapStruct.ptr window reallocation", p.Pos(ptrFn.Pos()), "no `ms.window = make(...)` found: the window management changed shape, re-read it")
		}
	}
	checkWindowWithinFile(p, r, ptrFn)
	checkTokenCodec(p, r)
	checkBlockLengthSiblings(p, r)
	checkFlushNotBeforeLastMatch(p, r)
	checkCoversEveryByte(p, r)
	checkWindowNotCached(p, r, "C02/WINDOW-NOT-CACHED")
	if r.Prop != "C03" {
		importShared(p, r, checkC03, "C03/HASH-SEES-ALL", "C02/OUTPUT-IS-STREAM", "the receiver writes exactly the bytes the token stream denotes, in order: every Write of receiveData goes to the one io.MultiWriter(out, h) and the pending file has no other use (no Seek, Truncate, WriteAt, no second writer) — the same clause as C03/HASH-SEES-ALL, here as a necessary condition of exact decoding", 4)
	}
	r.Trust("MD4 collision resistance (a strong match is taken as content equality, as in rsync)")
	r.Uncovered("offset/length arithmetic of the window (mapStruct), the receiver's token*BlockLength arithmetic, chunking, rolling-checksum algebra: value-level, out of reach of structural rules")
}

// checkWideOffsets: file offsets and lengths are 64-bit quantities; a product
// or sum of peer-supplied 32-bit values (token × block length, block index ×
// block length) must be computed after widening, never widened after the
// arithmetic: int64(a*b) wraps at 2 GiB and then addresses different bytes of
// the basis than the token denotes.
func checkWideOffsets(p *Prog, r *Report) {
	rule := "C02/OFFSET-64BIT"
	r.Rule(rule, "in the delta path (packages receiver, sender, rsyncchecksum and the root package) no arithmetic result of a 32-bit-or-narrower integer type with a non-constant operand is converted to a wider integer type afterwards (widen-after-multiply/add/shift); and the ReadAt offset of a block reference in receiveData is a 64-bit product", 1)
	n := 0
	for _, pk := range []string{pkgReceiver, pkgSender, pkgChecksum, modPath} {
		for _, fn := range p.FuncsInPkg(pk) {
			for _, b := range fn.Blocks {
				for _, in := range b.Instrs {
					cv, ok := in.(*ssa.Convert)
					if !ok {
						continue
					}
					src, okS := cv.X.Type().Underlying().(*types.Basic)
					dst, okD := cv.Type().Underlying().(*types.Basic)
					if !okS || !okD || src.Info()&types.IsInteger == 0 || dst.Info()&types.IsInteger == 0 {
						continue
					}
					if sizeofBasic(dst) <= sizeofBasic(src) || sizeofBasic(src) > 4 {
						continue
					}
					bo, isB := cv.X.(*ssa.BinOp)
					if !isB {
						continue
					}
					switch bo.Op {
					case token.MUL, token.SHL:
					default:
						continue // sums/differences of two 32-bit values overflow only by one bit; products are the hazard
					}
					if _, kx := constInt(bo.X); kx {
						if _, ky := constInt(bo.Y); ky {
							continue
						}
					}
					n++
					r.Bad(rule, funcKey(fn)+" widens a "+src.Name()+" "+bo.Op.String()+" result to "+dst.Name(), p.Pos(cv.Pos()), "the product is computed in "+src.Name()+" and wraps before it is widened")
				}
			}
		}
	}
	// the block-reference offset in receiveData
	rd := anchorFunc(p, r, pkgReceiver, "Transfer", "receiveData")
	if rd != nil {
		found := 0
		// receiveData and the receiver functions it was split into
		for _, u := range p.ModGraph().unitFuncs(rd) {
			allCalls(u, func(c ssa.CallInstruction) {
				if calleeName(c) != "(*os.File).ReadAt" {
					return
				}
				found++
				off := stripConv(helperResult(c.Common().Args[2]))
				bo, ok := off.(*ssa.BinOp)
				wide := false
				if ok && bo.Op == token.MUL {
					if b, isB := bo.Type().Underlying().(*types.Basic); isB && sizeofBasic(b) == 8 {
						wide = true
					}
				}
				r.Cond(wide, rule, "receiveData → ReadAt(offset)", p.Pos(instrPos(c)), "the basis offset of a block reference must be a 64-bit product of the block index and the block length")
			})
		}
		if found == 0 {
			r.Bad(rule, "receiveData → ReadAt(offset)", p.Pos(rd.Pos()), "no ReadAt of the basis file found: re-read how block references are resolved")
		}
	}
}

// checkWindowWithinFile: (*mapStruct).ptr turns a failed Read (EOF included)
// into the transfer error "file has changed mid-transfer". For a file that did
// not change, every window it tries to fill must therefore end at or before
// the size recorded when the file was mapped. The window size that is recorded
// (ms.pLen) is a phi of several candidates; each candidate must be either
// `ms.fileSize - windowStart`, a min() with it, or arrive over an edge on which
// `windowStart + candidate > ms.fileSize` is known false.
func checkWindowWithinFile(p *Prog, r *Report, ptrFn *ssa.Function) {
	rule := "C02/WINDOW-WITHIN-FILE"
	r.Rule(rule, "in (*mapStruct).ptr a failed Read (EOF included) is a transfer error, so every candidate for the window size to fill is clamped to the mapped file size: it is ms.fileSize - windowStart, a min() with it, or arrives over an edge where windowStart+size > ms.fileSize is false", 2)
	if ptrFn == nil {
		return
	}
	sizeF := p.Field(pkgSender, "mapStruct", "fileSize")
	lenF := p.Field(pkgSender, "mapStruct", "pLen")
	if sizeF == nil || lenF == nil {
		r.Unk(rule, "mapStruct fields", p.Pos(ptrFn.Pos()), "fields fileSize/pLen not found: the window bookkeeping changed, re-read it")
		return
	}
	// does a Read error end in a non-nil error return? (otherwise EOF is tolerated and no clamp is needed)
	eofIsError := false
	allCalls(ptrFn, func(c ssa.CallInstruction) {
		if !c.Common().IsInvoke() || c.Common().Method.Name() != "Read" {
			return
		}
		cv, ok := c.(*ssa.Call)
		if !ok {
			return
		}
		for _, ref := range *cv.Referrers() {
			ex, ok := ref.(*ssa.Extract)
			if !ok || ex.Index != 1 {
				continue
			}
			for _, b := range ptrFn.Blocks {
				ret, ok := lastInstr(b).(*ssa.Return)
				if !ok {
					continue
				}
				rs := retResults(ret)
				if len(rs) == 2 && neverNil(rs[1]) {
					if known, isNil := errIsNilAt(ret, ex); known && !isNil {
						eofIsError = true
					}
				}
			}
		}
	})
	if !eofIsError {
		r.OK(rule, "mapStruct.ptr read loop", p.Pos(ptrFn.Pos()), "a failed Read does not end in an error return here: no clamp needed")
		r.OK(rule, "mapStruct.ptr window size", p.Pos(ptrFn.Pos()), "(not required)")
		return
	}
	r.OK(rule, "mapStruct.ptr read loop", p.Pos(ptrFn.Pos()), "a failed Read returns an error: window sizes must be clamped")
	isSize := func(v ssa.Value) bool { return isFieldLoad(stripConv(v), sizeF) }
	found := 0
	for _, b := range ptrFn.Blocks {
		for _, in := range b.Instrs {
			st, ok := in.(*ssa.Store)
			if !ok {
				continue
			}
			if _, f := fieldOfAddr(st.Addr); f != lenF {
				continue
			}
			found++
			for _, lf := range phiEdgeLeaves(st.Val) {
				if clampedBy(lf, isSize) {
					continue
				}
				r.Bad(rule, "mapStruct.ptr window size", p.Pos(lf.leaf.Pos()), "window-size candidate `"+lf.leaf.String()+"` can extend past ms.fileSize: the read loop then hits EOF on an unchanged file and the transfer fails with \"file has changed mid-transfer\" (requests larger than the default window near the end of a file whose size is not a multiple of the alignment)")
			}
		}
	}
	if found == 0 {
		r.Unk(rule, "mapStruct.ptr window size", p.Pos(ptrFn.Pos()), "no store to ms.pLen found: the window bookkeeping changed, re-read it")
	} else {
		r.OK(rule, "mapStruct.ptr window size", p.Pos(ptrFn.Pos()), "")
	}
}

type edgeLeaf struct {
	leaf ssa.Value
	pred *ssa.BasicBlock // block the value leaves from
	to   *ssa.BasicBlock // block of the phi it enters
}

// phiEdgeLeaves flattens nested phis into their non-phi leaves, remembering
// for each leaf the CFG edge over which it enters the (innermost) phi.
func phiEdgeLeaves(v ssa.Value) []edgeLeaf {
	var out []edgeLeaf
	seen := map[ssa.Value]bool{}
	var walk func(x ssa.Value, pred, to *ssa.BasicBlock)
	walk = func(x ssa.Value, pred, to *ssa.BasicBlock) {
		if ph, ok := x.(*ssa.Phi); ok {
			if seen[x] {
				return
			}
			seen[x] = true
			for i, e := range ph.Edges {
				walk(e, ph.Block().Preds[i], ph.Block())
			}
			return
		}
		out = append(out, edgeLeaf{x, pred, to})
	}
	walk(v, nil, nil)
	return out
}

// clampedBy: the leaf is `size - x`, min(.., size - x), or enters its phi over
// an edge on which `x + leaf > size` is false (`<=` true).
func clampedBy(lf edgeLeaf, isSize func(ssa.Value) bool) bool {
	isSizeMinus := func(v ssa.Value) bool {
		bo, ok := stripConv(v).(*ssa.BinOp)
		return ok && bo.Op == token.SUB && isSize(bo.X)
	}
	if isSizeMinus(lf.leaf) {
		return true
	}
	if c, ok := lf.leaf.(*ssa.Call); ok {
		if bi, ok := c.Common().Value.(*ssa.Builtin); ok && bi.Name() == "min" {
			for _, a := range c.Common().Args {
				if isSizeMinus(a) {
					return true
				}
			}
		}
	}
	var facts []Fact
	if lf.pred != nil {
		facts = append(facts, FactsAtBlock(lf.pred)...)
		if ifi, ok := lastInstr(lf.pred).(*ssa.If); ok && len(lf.pred.Succs) == 2 && lf.pred.Succs[0] != lf.pred.Succs[1] {
			for k, s := range lf.pred.Succs {
				if s == lf.to {
					facts = append(facts, normFact(Fact{Cond: ifi.Cond, Val: k == 0, If: ifi}))
				}
			}
		}
	}
	for _, f := range facts {
		bo, ok := f.Cond.(*ssa.BinOp)
		if !ok {
			continue
		}
		var sum, other ssa.Value
		var within bool // fact says sum <= size
		switch {
		case bo.Op == token.GTR && !f.Val, bo.Op == token.LEQ && f.Val:
			sum, other, within = bo.X, bo.Y, true
		case bo.Op == token.LSS && !f.Val, bo.Op == token.GEQ && f.Val:
			sum, other, within = bo.Y, bo.X, true
		}
		if !within || !isSize(other) {
			continue
		}
		if add, ok := stripConv(sum).(*ssa.BinOp); ok && add.Op == token.ADD && (add.X == lf.leaf || add.Y == lf.leaf) {
			return true
		}
	}
	return false
}
