package main

import (
	"go/token"
	"go/types"
	"sort"

	"golang.org/x/tools/go/ssa"
)

func init() { register("C01", checkC01) }

// C01 — "a successful sync leaves destination files byte-identical, and
// transfers of a static tree succeed". Byte equality for all inputs is a
// runtime-value property and is NOT decided. Decided here: structural
// necessary conditions that are specific to C01 (full-length block checksums
// while there is no redo pass; no byte read from a source is dropped; the
// whole-file path sends every chunk it read), plus the necessary conditions it
// shares with C02 (delta exactness clauses), C03 (hash seeding agrees), C12
// (update rule), C14/C15 (both ends read what the other wrote; same
// numbering), which are re-evaluated here under their own rule names.
func checkC01(p *Prog, r *Report) {
	checkFullStrongSum(p, r)
	checkReadContract(p, r)
	checkWindowFullyRead(p, r, "C01/WINDOW-FULLY-READ")
	checkSuccessMeansReplaced(p, r)
	checkWholeFileSendsAll(p, r)
	// shared necessary conditions (rule ids keep their home property's prefix)
	checkC02(p, r)
	checkSkipFileTable(p, r)
	checkRequestTable(p, r)
	if w := newWireExtractor(p, r); w != nil {
		r.Rule("C14/FIELDS", "for every (file type × option subset), assuming both ends hold the same option values, the record sequence the entry encoder writes (after its flags byte) equals the sequence the entry decoder reads under the sender's flag choice — extracted from both functions, no protocol table involved", 7)
		compareSeqs(r, "C14/FIELDS", "decoder-vs-encoder", allAssignments(false), w.decoderSeqs, func(a entryAssign) string {
			seqs, _ := w.encoderSeqs(a)
			if len(seqs) != 1 {
				return "<encoder undecided>"
			}
			return trimFlagsByte(seqs[0])
		})
		checkNumbering(p, r, w)
	}
	r.Trust("MD4; os.Root/renameio; the kernel")
	r.Uncovered("byte equality of the result for all trees, prior destination states and option sets (runtime values): offsets, window and block arithmetic, token encoding of literal runs, name mapping of source arguments (trailing slash, multiple sources), behaviour of every option combination")
}

func trimFlagsByte(s string) string {
	if len(s) >= 3 && s[:3] == "u8 " {
		return s[3:]
	}
	return s
}

// checkFullStrongSum: the receiver never redoes a file whose whole-file
// checksum failed (RecvFiles has no second pass that re-requests it), so a
// false block match is fatal for the transfer. The generator must therefore ask
// for full-length strong checksums.
func checkFullStrongSum(p *Prog, r *Report) {
	rule := "C01/FULL-STRONG-SUM"
	r.Rule(rule, "block checksums are requested at full strength: every SumHead.ChecksumLength stored in production code (outside the wire reader) is the constant rsyncchecksum.Size (= md4.Size, 16), and generateAndSendSums writes that many bytes of each strong sum — there is no redo pass for a file whose whole-file checksum fails, so a shortened block checksum turns collisions into failed transfers", 2)
	clF := p.Field(modPath, "SumHead", "ChecksumLength")
	size, okS := scopeConstInt(p, pkgChecksum, "Size")
	if clF == nil || !okS {
		r.Unk(rule, "anchors", "-", "SumHead.ChecksumLength / rsyncchecksum.Size not found")
		return
	}
	n := 0
	for _, fn := range p.ModFuncs {
		if fn.Blocks == nil || isTestSupport(pkgPathOfFunc(fn)) {
			continue
		}
		if fn.Name() == "ReadFrom" {
			continue // filled from the wire, validated by C08/SUMHEAD-VALIDATED
		}
		for _, b := range fn.Blocks {
			for _, in := range b.Instrs {
				st, ok := in.(*ssa.Store)
				if !ok {
					continue
				}
				if _, f := fieldOfAddr(st.Addr); f != clF {
					continue
				}
				n++
				k, isK := constInt(st.Val)
				r.Cond(isK && k == size, rule, funcKey(fn)+" sets ChecksumLength", p.Pos(st.Pos()), "the strong checksum length requested for a block is not the full MD4 size: a weak-checksum collision that also agrees in the shortened strong checksum produces a wrong block reference, the whole-file checksum fails and nothing redoes the file")
			}
		}
	}
	if n == 0 {
		r.Unk(rule, "stores to ChecksumLength", "-", "no production store found: the header is built differently now, re-read")
	}
	// the generator writes the whole strong sum (or [:ChecksumLength])
	gen := p.Func(pkgReceiver, "Transfer", "generateAndSendSums")
	if gen != nil {
		full := false
		for _, u := range p.ModGraph().unitFuncs(gen) {
			allCalls(u, func(c ssa.CallInstruction) {
				if !c.Common().IsInvoke() || c.Common().Method.Name() != "Write" {
					return
				}
				a := c.Common().Args[0]
				if sl, ok := a.(*ssa.Slice); ok {
					if sl.Low == nil && sl.High != nil {
						if _, f := loadedField(stripConv(sl.High)); f == clF {
							a = sl.X
						}
					}
				}
				if cc, ok := a.(*ssa.Call); ok && calleeName(cc) == pkgChecksum+".Checksum2" {
					full = true
				}
			})
		}
		r.Cond(full, rule, "generateAndSendSums writes the strong sum at the announced length", p.Pos(gen.Pos()), "the strong checksum written per block is not Checksum2(...) whole or cut to sh.ChecksumLength")
	}
}

// checkReadContract: io.Reader allows Read to return n > 0 together with an
// error (io.EOF in particular; compress/flate and therefore zip-backed fs.FS
// modules do). Code that looks at the error first and leaves drops those
// bytes: the data stream is short, the whole-file checksum (computed by a
// separate reader) does not match, and the transfer of an unchanged source
// fails.
func checkReadContract(p *Prog, r *Report) {
	rule := "C01/READ-CONTRACT"
	r.Rule(rule, "in the data path (packages sender, receiver, rsyncchecksum) every direct Read(buf) on a file or reader consumes the n bytes it returned before acting on the error: each branch on the Read's error is preceded by a use of n, tests n itself, or uses n on the error side (io.Reader may return n > 0 together with io.EOF)", 2)
	n := 0
	for _, pk := range []string{pkgSender, pkgReceiver, pkgChecksum} {
		for _, fn := range p.FuncsInPkg(pk) {
			if fn.Blocks == nil {
				continue
			}
			allCalls(fn, func(c ssa.CallInstruction) {
				if cn := calleeName(c); pk == pkgSender && (cn == "io.ReadFull" || cn == "io.ReadAtLeast") {
					// the library helper honours the contract itself
					n++
					r.OK(rule, funcKey(fn)+" "+cn, p.Pos(instrPos(c)), "full-read helper of the standard library")
					return
				}
				if !c.Common().IsInvoke() || c.Common().Method.Name() != "Read" {
					return
				}
				sig := c.Common().Signature()
				if sig.Params().Len() != 1 || sig.Results().Len() != 2 {
					return
				}
				call, ok := c.(*ssa.Call)
				if !ok {
					return
				}
				var nV, eV ssa.Value
				for _, ref := range *call.Referrers() {
					if ex, ok := ref.(*ssa.Extract); ok {
						if ex.Index == 0 {
							nV = ex
						} else {
							eV = ex
						}
					}
				}
				if eV == nil {
					return
				}
				n++
				key := funcKey(fn) + " Read"
				if nV == nil {
					r.Bad(rule, key, p.Pos(instrPos(c)), "the byte count of Read is discarded")
					return
				}
				bad := ""
				// every If whose condition mentions the error
				for _, b := range fn.Blocks {
					ifi, ok := lastInstr(b).(*ssa.If)
					if !ok || !condMentions(ifi.Cond, eV, 0) {
						continue
					}
					if !call.Block().Dominates(b) {
						continue
					}
					if condMentions(ifi.Cond, nV, 0) {
						continue // tests n together with the error
					}
					// a use of n that dominates the test?
					used := false
					for _, u := range valueUses(nV) {
						if u == ssa.Instruction(ifi) {
							continue
						}
						if InstrDominates(u, ifi) {
							used = true
						}
					}
					if used {
						continue
					}
					// a use of n on a side that only the error reaches (error-side handling)
					errSide := -1
					if bo, ok := normFact(Fact{Cond: ifi.Cond, Val: true}).Cond.(*ssa.BinOp); ok {
						pos := normFact(Fact{Cond: ifi.Cond, Val: true}).Val
						switch {
						case bo.Op == token.NEQ && (isNilConst(bo.X) || isNilConst(bo.Y)):
							errSide = map[bool]int{true: 0, false: 1}[pos]
						case bo.Op == token.EQL && (isNilConst(bo.X) || isNilConst(bo.Y)):
							errSide = map[bool]int{true: 1, false: 0}[pos]
						case bo.Op == token.EQL:
							errSide = map[bool]int{true: 0, false: 1}[pos] // err == io.EOF
						}
					}
					if errSide >= 0 && errSide < len(b.Succs) {
						s := b.Succs[errSide]
						for _, u := range valueUses(nV) {
							if s.Dominates(u.Block()) {
								used = true
							}
						}
					}
					if !used {
						bad = p.Pos(ifi.Pos())
					}
				}
				r.Cond(bad == "", rule, key, p.Pos(instrPos(c)), "the error of this Read is acted on (at "+bad+") before the n bytes it returned were used: bytes delivered together with io.EOF are dropped, the stream is short and the whole-file checksum fails")
			})
		}
	}
	if n == 0 {
		r.OK(rule, "no direct Read in the data path", "-", "all reads go through io.ReadFull/io.Copy*")
	}
}

// condMentions: v occurs in the expression tree of cond (through binops, unops, phis).
func condMentions(cond, v ssa.Value, depth int) bool {
	if cond == v {
		return true
	}
	if depth > 4 {
		return false
	}
	switch x := cond.(type) {
	case *ssa.BinOp:
		return condMentions(x.X, v, depth+1) || condMentions(x.Y, v, depth+1)
	case *ssa.UnOp:
		return condMentions(x.X, v, depth+1)
	case *ssa.Phi:
		for _, e := range x.Edges {
			if condMentions(e, v, depth+1) {
				return true
			}
		}
	case *ssa.Convert:
		return condMentions(x.X, v, depth+1)
	case *ssa.ChangeInterface:
		return condMentions(x.X, v, depth+1)
	}
	return false
}

// valueUses: instructions using v, looking through conversions and local
// cells (a value stored into a local and loaded again).
func valueUses(v ssa.Value) []ssa.Instruction {
	var out []ssa.Instruction
	seen := map[ssa.Value]bool{}
	var walk func(ssa.Value)
	walk = func(x ssa.Value) {
		if seen[x] || x.Referrers() == nil {
			return
		}
		seen[x] = true
		for _, ref := range *x.Referrers() {
			switch y := ref.(type) {
			case *ssa.Convert:
				walk(y)
			case *ssa.ChangeType:
				walk(y)
			case *ssa.Store:
				if y.Val == x {
					if a, ok := y.Addr.(*ssa.Alloc); ok {
						for _, r2 := range *a.Referrers() {
							if ld, ok := r2.(*ssa.UnOp); ok && ld.Op == token.MUL {
								walk(ld)
							}
						}
						continue
					}
				}
				out = append(out, ref)
			default:
				out = append(out, ref)
			}
		}
	}
	walk(v)
	sort.Slice(out, func(i, j int) bool { return out[i].Pos() < out[j].Pos() })
	return out
}

// checkWholeFileSendsAll: in sendFile every chunk that was read is written
// with its length, the loop ends only on a read error, and the end-of-data
// token 0 follows.
func checkWholeFileSendsAll(p *Prog, r *Report) {
	rule := "C01/WHOLE-FILE-COMPLETE"
	r.Rule(rule, "sender.sendFile: the bytes written for a chunk are the slice buf[:n] of the buffer the Read filled, preceded by WriteInt32(len(chunk)) of that same slice; the read loop is left only on the Read's error; the end-of-data token WriteInt32(0) dominates the nil return", 3)
	sf := p.Func(pkgSender, "Transfer", "sendFile")
	if sf == nil {
		r.Unk(rule, "sendFile", "-", "anchor not found")
		return
	}
	var rd *ssa.Call
	entry := sf
	// sendFile and the sender functions it was split into
	for _, u := range p.ModGraph().unitFuncs(entry) {
		allCalls(u, func(c ssa.CallInstruction) {
			if call, ok := c.(*ssa.Call); ok && c.Common().IsInvoke() && c.Common().Method.Name() == "Read" && rd == nil {
				rd = call
				sf = u
			}
		})
	}
	if rd == nil {
		r.Unk(rule, "sendFile read loop", p.Pos(sf.Pos()), "no direct Read: the whole-file path reads differently now, re-read")
		return
	}
	buf := rd.Common().Args[0]
	var nV ssa.Value
	for _, ref := range *rd.Referrers() {
		if ex, ok := ref.(*ssa.Extract); ok && ex.Index == 0 {
			nV = ex
		}
	}
	// the data write
	var dataW, lenW, endW ssa.CallInstruction
	gg := p.ModGraph()
	// isChunk: v is buf[:n] of the buffer the Read filled, directly or as the parameter of a per-chunk helper
	isChunk := func(v ssa.Value) bool {
		cands := []ssa.Value{unwrapLocal(v)}
		if _, isP := cands[0].(*ssa.Parameter); isP {
			cands = gg.paramRoots(cands[0], 0)
		}
		if len(cands) == 0 {
			return false
		}
		for _, cv := range cands {
			sl, ok := unwrapLocal(cv).(*ssa.Slice)
			if !ok || !sameCore(sl.X, buf) || sl.Low != nil || sl.High == nil || nV == nil || !derivesFrom(stripConv(sl.High), nV) {
				return false
			}
		}
		return true
	}
	for _, u := range gg.unitFuncs(sf) {
		allCalls(u, func(c ssa.CallInstruction) {
			if c.Common().IsInvoke() && c.Common().Method.Name() == "Write" && isChunk(c.Common().Args[0]) {
				dataW = c
			}
			if calleeName(c) == "(*"+pkgWire+".Conn).WriteInt32" {
				a := c.Common().Args[1]
				if k, ok := constInt(a); ok && k == 0 {
					if u == sf {
						endW = c
					}
					return
				}
				if lc, ok := stripConv(a).(*ssa.Call); ok {
					if bi, ok := lc.Common().Value.(*ssa.Builtin); ok && bi.Name() == "len" && isChunk(lc.Common().Args[0]) {
						lenW = c
					}
				} else if nV != nil && u == sf && derivesFrom(stripConv(a), nV) {
					lenW = c
				}
			}
		})
	}
	r.Cond(dataW != nil && lenW != nil && lenW.Parent() == dataW.Parent() && InstrDominates(lenW, dataW), rule, "chunk = buf[:n] written after its length", p.Pos(instrPos(rd)), "the chunk written is not the slice of the read buffer up to the count Read returned, or its length does not precede it")
	if endW == nil && sf != entry {
		allCalls(entry, func(c ssa.CallInstruction) {
			if calleeName(c) == "(*"+pkgWire+".Conn).WriteInt32" {
				if k, ok := constInt(c.Common().Args[1]); ok && k == 0 {
					endW = c
				}
			}
		})
	}
	endOK := endW != nil
	if endOK {
		for _, b := range endW.Parent().Blocks {
			if ret, ok := lastInstr(b).(*ssa.Return); ok && isNilConst(retResults(ret)[0]) && !InstrDominates(endW, ret) {
				endOK = false
			}
		}
	}
	r.Cond(endOK, rule, "end-of-data token before the nil return", p.Pos(sf.Pos()), "WriteInt32(0) does not dominate the successful return")
	// the loop is left only through a branch on the Read's error
	loops := naturalLoops(sf)
	ls := loopsContaining(loops, rd.Block())
	exitOK := len(ls) > 0
	if exitOK {
		var eV ssa.Value
		for _, ref := range *rd.Referrers() {
			if ex, ok := ref.(*ssa.Extract); ok && ex.Index == 1 {
				eV = ex
			}
		}
		li := ls[0]
		for b := range li.body {
			for _, s := range b.Succs {
				if li.body[s] {
					continue
				}
				// exit edge b→s: either a return (error) or decided by the read error
				okEdge := false
				if ret, isRet := lastInstr(s).(*ssa.Return); isRet {
					rs := retResults(ret)
					if len(rs) > 0 && !isNilConst(rs[len(rs)-1]) {
						continue // an error return
					}
				}
				for c := b; c != nil && li.body[c]; c = c.Idom() {
					if ifi, ok := lastInstr(c).(*ssa.If); ok && eV != nil && condMentions(ifi.Cond, eV, 0) {
						okEdge = true
					}
				}
				for _, ft := range FactsAtBlock(s) {
					if eV != nil && condMentions(ft.Cond, eV, 0) {
						okEdge = true
					}
				}
				if !okEdge {
					exitOK = false
				}
			}
		}
	}
	r.Cond(exitOK, rule, "read loop ends only on the Read's error", p.Pos(instrPos(rd)), "the loop can be left without the Read having reported an error (EOF): the rest of the file is not sent")
	_ = types.Typ
}
