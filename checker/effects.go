package main

import (
	"go/types"
	"strings"

	"golang.org/x/tools/go/ssa"
)

type ssaFn = ssa.Function

const (
	pkgReceiver = modPath + "/internal/receiver"
	pkgSender   = modPath + "/internal/sender"
	pkgRsyncd   = modPath + "/rsyncd"
	pkgOpts     = modPath + "/internal/rsyncopts"
	pkgWire     = modPath + "/internal/rsyncwire"
	pkgMaincmd  = modPath + "/internal/maincmd"
	pkgAnonssh  = modPath + "/internal/anonssh"
	pkgChecksum = modPath + "/internal/rsyncchecksum"
	pkgCommon   = modPath + "/internal/rsynccommon"
	pkgClient   = modPath + "/rsyncclient"
	pkgConfig   = modPath + "/internal/rsyncdconfig"
	pkgRenameio = "github.com/google/renameio/v2"
	pkgUnix     = "golang.org/x/sys/unix"
)

// Mutating methods of *os.Root (OpenFile handled separately by flags).
var rootMutators = map[string]bool{
	"Create": true, "Mkdir": true, "MkdirAll": true, "Remove": true, "RemoveAll": true,
	"Rename": true, "Symlink": true, "Link": true, "Chmod": true, "Chown": true,
	"Lchown": true, "Chtimes": true, "WriteFile": true,
}

// Ambient (path-taking) mutators of package os.
var osMutators = map[string]bool{
	"Create": true, "Mkdir": true, "MkdirAll": true, "MkdirTemp": true, "CreateTemp": true,
	"Remove": true, "RemoveAll": true, "Rename": true, "Symlink": true, "Link": true,
	"Chmod": true, "Chown": true, "Lchown": true, "Chtimes": true, "WriteFile": true,
	"Truncate": true, "CopyFS": true,
}

// Mutating methods of *os.File.
var fileMutators = map[string]bool{
	"Write": true, "WriteString": true, "WriteAt": true, "WriteTo": false, "ReadFrom": true,
	"Truncate": true, "Chmod": true, "Chown": true, "Sync": false,
}

// write-open flag bits (linux values; all analysed configs are linux)
const writeFlagBits = 0x1 | 0x2 | 0x40 | 0x200 | 0x400 // O_WRONLY|O_RDWR|O_CREAT|O_TRUNC|O_APPEND

func recvTypeName(f *types.Func) (pkg, typ string) {
	sig, ok := f.Type().(*types.Signature)
	if !ok || sig.Recv() == nil {
		return "", ""
	}
	n := namedOf(sig.Recv().Type())
	if n == nil || n.Obj().Pkg() == nil {
		if n != nil {
			return "", n.Obj().Name()
		}
		return "", ""
	}
	return n.Obj().Pkg().Path(), n.Obj().Name()
}

// openFlagsWrite: for OpenFile-like calls: (isConst, hasWriteBits)
func openFlagsWrite(c ssa.CallInstruction, argIdx int) (bool, bool) {
	args := c.Common().Args
	if argIdx >= len(args) {
		return false, true
	}
	v, ok := constInt(args[argIdx])
	if !ok {
		return false, true
	}
	return true, v&writeFlagBits != 0
}

// mutatorLabel classifies a call as a file-system mutation.
func mutatorLabel(c ssa.CallInstruction) (string, bool) {
	f := calleeOf(c)
	if f == nil && !c.Common().IsInvoke() && c.Common().StaticCallee() == nil {
		// a call through a method value (remove := root.Remove; … remove(name)),
		// possibly chosen between several: any mutating os.Root / os.File method
		for _, leaf := range phiLeaves(unwrapLocal(c.Common().Value)) {
			mc, ok := leaf.(*ssa.MakeClosure)
			if !ok {
				continue
			}
			fn, ok := mc.Fn.(*ssa.Function)
			if !ok || !strings.HasSuffix(fn.Name(), "$bound") {
				continue
			}
			obj, ok := fn.Object().(*types.Func)
			if !ok {
				continue
			}
			rp, rtn := recvTypeName(obj)
			if rp == "os" && rtn == "Root" && rootMutators[obj.Name()] {
				return "(*os.Root)." + obj.Name() + " [method value]", true
			}
			if rp == "os" && rtn == "File" && fileMutators[obj.Name()] {
				return "(*os.File)." + obj.Name() + " [method value]", true
			}
		}
	}
	if f == nil || f.Pkg() == nil {
		return "", false
	}
	pkg := f.Pkg().Path()
	rp, rt := recvTypeName(f)
	name := f.Name()
	switch {
	case rp == "os" && rt == "Root":
		if rootMutators[name] {
			return "(*os.Root)." + name, true
		}
		if name == "OpenFile" {
			// args: recv, name, flag, perm  (static method call: recv is Args[0])
			if _, w := openFlagsWrite(c, 2); w {
				return "(*os.Root).OpenFile[write]", true
			}
		}
	case rp == "os" && rt == "File":
		if fileMutators[name] {
			return "(*os.File)." + name, true
		}
	case pkg == "os" && rt == "":
		if osMutators[name] {
			return "os." + name, true
		}
		if name == "OpenFile" {
			if _, w := openFlagsWrite(c, 1); w {
				return "os.OpenFile[write]", true
			}
		}
	case pkg == pkgRenameio:
		if rt == "PendingFile" {
			if name == "CloseAtomicallyReplace" || name == "Close" {
				return "(*renameio.PendingFile)." + name, true
			}
			return "", false
		}
		if rt == "" && !strings.HasPrefix(name, "With") && !strings.HasPrefix(name, "Ignore") {
			return "renameio." + name, true
		}
	case pkg == pkgUnix && rt == "":
		switch name {
		case "Mknod", "Mknodat", "Mkfifo", "Mkfifoat", "Bind", "Unlink", "Unlinkat", "Rename", "Renameat",
			"Renameat2", "Mkdir", "Mkdirat", "Rmdir", "Symlink", "Symlinkat", "Link", "Linkat",
			"Chmod", "Fchmod", "Fchmodat", "Chown", "Fchown", "Fchownat", "Lchown", "Truncate", "Ftruncate",
			"Utimes", "UtimesNano", "UtimesNanoAt", "Futimes", "Futimesat", "Lutimes", "Open", "Openat", "Creat", "Write", "Pwrite":
			return "unix." + name, true
		}
	case pkg == "syscall" && rt == "":
		switch name {
		case "Mknod", "Mkfifo", "Unlink", "Rename", "Mkdir", "Rmdir", "Symlink", "Link",
			"Chmod", "Fchmod", "Chown", "Fchown", "Lchown", "Truncate", "Ftruncate", "Utimes", "UtimesNano",
			"Open", "Creat", "Write", "Pwrite", "Bind":
			return "syscall." + name, true
		}
	case pkg == "io/ioutil":
		switch name {
		case "WriteFile", "TempFile", "TempDir":
			return "ioutil." + name, true
		}
	case pkg == "os/exec":
		return "exec." + name, true
	}
	return "", false
}

// isFieldLoadPred builds a predicate "value is a load of this field".
func isFieldLoadPred(f *types.Var) func(ssa.Value) bool {
	return func(v ssa.Value) bool { return f != nil && isFieldLoad(v, f) }
}

func isCallPred(fullName string) func(ssa.Value) bool {
	return func(v ssa.Value) bool { return isCallTo(v, fullName) }
}

// storesToField returns every Store instruction in module functions whose
// address is &X.f for the given field object.
func storesToField(p *Prog, f *types.Var) []*ssa.Store {
	var out []*ssa.Store
	for _, fn := range p.ModFuncs {
		for _, b := range fn.Blocks {
			for _, in := range b.Instrs {
				if st, ok := in.(*ssa.Store); ok {
					if _, g := fieldOfAddr(st.Addr); g == f {
						out = append(out, st)
					}
				}
			}
		}
	}
	return out
}

// isFreshAllocBase: the struct whose field is addressed is a local
// allocation (composite literal under construction).
func isFreshAllocBase(addr ssa.Value) bool {
	base, _ := fieldOfAddr(addr)
	_, ok := base.(*ssa.Alloc)
	return ok
}

func selfTest(r *Report) {}
