package main

import (
	"fmt"
	"go/token"
	"strings"

	"golang.org/x/tools/go/ssa"
)

// File-list entry wire sequences: shared by C14/FIELDS and C15/W1,W2.

var fileTypes = []string{"DIR", "REG", "LNK", "CHR", "BLK", "FIFO", "SOCK"}
var entryOpts = []string{"uid", "gid", "devices", "specials", "links", "checksum"}
var xmitFlags = []struct {
	name string
	bit  int64
}{{"SAME_MODE", 0x02}, {"SAME_RDEV", 0x04}, {"SAME_UID", 0x08}, {"SAME_GID", 0x10}, {"SAME_NAME", 0x20}, {"LONG_NAME", 0x40}, {"SAME_TIME", 0x80}}

var sifmt = map[int64]string{0o040000: "DIR", 0o100000: "REG", 0o120000: "LNK", 0o020000: "CHR", 0o060000: "BLK", 0o010000: "FIFO", 0o140000: "SOCK"}

type entryAssign struct {
	typ   string
	opts  map[string]bool
	flags map[string]bool
}

func (a entryAssign) String() string {
	var o, f []string
	for _, k := range entryOpts {
		if a.opts[k] {
			o = append(o, k)
		}
	}
	for _, k := range xmitFlags {
		if a.flags[k.name] {
			f = append(f, k.name)
		}
	}
	return fmt.Sprintf("type=%s opts=[%s] flags=[%s]", a.typ, strings.Join(o, ","), strings.Join(f, ","))
}

// specSeq: protocol-27 file-list entry layout (after the flags byte), as
// transcribed from rsync 2.6.x flist.c:send_file_entry/receive_file_entry.
func specSeq(a entryAssign, withFlagsByte bool) string {
	var s []string
	if withFlagsByte {
		s = append(s, "u8")
	}
	if a.flags["SAME_NAME"] {
		s = append(s, "u8")
	}
	if a.flags["LONG_NAME"] {
		s = append(s, "i32")
	} else {
		s = append(s, "u8")
	}
	s = append(s, "bytes", "i64")
	if !a.flags["SAME_TIME"] {
		s = append(s, "i32")
	}
	if !a.flags["SAME_MODE"] {
		s = append(s, "i32")
	}
	if a.opts["uid"] && !a.flags["SAME_UID"] {
		s = append(s, "i32")
	}
	if a.opts["gid"] && !a.flags["SAME_GID"] {
		s = append(s, "i32")
	}
	isDev := a.typ == "CHR" || a.typ == "BLK"
	isSpecial := a.typ == "FIFO" || a.typ == "SOCK"
	if (a.opts["devices"] && isDev) || (a.opts["specials"] && isSpecial) {
		if !a.flags["SAME_RDEV"] {
			s = append(s, "i32")
		}
	}
	if a.opts["links"] && a.typ == "LNK" {
		s = append(s, "i32", "bytes")
	}
	if a.opts["checksum"] {
		s = append(s, "bytes")
	}
	return strings.Join(s, " ")
}

type wireExtractor struct {
	p        *Prog
	enc, dec *ssa.Function
	modeBits map[int64]func(string) bool // Go fs.Mode* bit → predicate on type
	optAcc   map[string]string           // accessor method name → opt atom
	optFld   map[string]string           // TransferOpts field name → opt atom
	bufName  string
}

func newWireExtractor(p *Prog, r *Report) *wireExtractor {
	w := &wireExtractor{p: p}
	w.enc = anchorFunc(p, r, pkgSender, "scopedWalker", "walkFn")
	w.dec = anchorFunc(p, r, pkgReceiver, "Transfer", "receiveFileEntry")
	if w.enc == nil || w.dec == nil {
		return nil
	}
	w.modeBits = map[int64]func(string) bool{}
	for name, pred := range map[string]func(string) bool{
		"ModeSymlink":    func(t string) bool { return t == "LNK" },
		"ModeDevice":     func(t string) bool { return t == "CHR" || t == "BLK" },
		"ModeCharDevice": func(t string) bool { return t == "CHR" },
		"ModeNamedPipe":  func(t string) bool { return t == "FIFO" },
		"ModeSocket":     func(t string) bool { return t == "SOCK" },
		"ModeDir":        func(t string) bool { return t == "DIR" },
	} {
		if v, ok := scopeConstInt(p, "io/fs", name); ok {
			w.modeBits[v] = pred
		}
	}
	w.optAcc = map[string]string{"PreserveUid": "uid", "PreserveGid": "gid", "PreserveDevices": "devices", "PreserveSpecials": "specials", "PreserveLinks": "links", "AlwaysChecksum": "checksum"}
	w.optFld = w.optAcc
	return w
}

// isInfoMode: v is <FileInfo/DirEntry>.Mode() or .Type() of the walked entry.
func isModeCall(v ssa.Value, canon ...func(ssa.Value) ssa.Value) bool {
	if len(canon) > 0 && canon[0] != nil {
		v = canon[0](v)
	}
	c, ok := v.(*ssa.Call)
	if !ok {
		return false
	}
	if c.Common().IsInvoke() && (c.Common().Method.Name() == "Mode" || c.Common().Method.Name() == "Type") {
		return true
	}
	if calleeName(c) == "(io/fs.FileMode).Type" && len(c.Common().Args) == 1 {
		return isModeCall(c.Common().Args[0], canon...)
	}
	return false
}

func (w *wireExtractor) encAtom(a entryAssign, canon func(ssa.Value) ssa.Value) func(ssa.Value) (bool, bool) {
	return func(cond ssa.Value) (bool, bool) {
		switch x := cond.(type) {
		case *ssa.Call:
			if f := calleeOf(x); f != nil {
				if rp, rt := recvTypeName(f); rp == pkgOpts && rt == "Options" {
					if atom, ok := w.optAcc[f.Name()]; ok {
						return a.opts[atom], true
					}
					return false, false
				}
				switch f.FullName() {
				case "(io/fs.FileMode).IsDir":
					if isModeCall(x.Common().Args[0], canon) {
						return a.typ == "DIR", true
					}
				case "(io/fs.FileMode).IsRegular":
					if isModeCall(x.Common().Args[0], canon) {
						return a.typ == "REG", true
					}
				}
				if x.Common().IsInvoke() && f.Name() == "IsDir" {
					return a.typ == "DIR", true
				}
			}
		case *ssa.BinOp:
			if x.Op == token.NEQ || x.Op == token.EQL {
				if and, ok := x.X.(*ssa.BinOp); ok && and.Op == token.AND && isModeCall(and.X, canon) {
					if k, ok := constInt(and.Y); ok {
						if z, ok := constInt(x.Y); ok && z == 0 {
							if pred, ok := w.modeBits[k]; ok {
								return pred(a.typ) == (x.Op == token.NEQ), true
							}
						}
					}
				}
			}
		}
		return false, false
	}
}

func (w *wireExtractor) encRecord(in ssa.Instruction) string {
	c, ok := in.(ssa.CallInstruction)
	if !ok {
		return ""
	}
	switch calleeName(c) {
	case "(*" + pkgWire + ".Buffer).WriteByte":
		return "u8"
	case "(*" + pkgWire + ".Buffer).WriteInt32":
		return "i32"
	case "(*" + pkgWire + ".Buffer).WriteInt64":
		return "i64"
	case "(*" + pkgWire + ".Buffer).WriteString":
		return "bytes"
	}
	return ""
}

func (w *wireExtractor) encoderSeqs(a entryAssign) ([]string, bool) {
	s := &Sim{Fn: w.enc, Record: w.encRecord, Inline: w.inlineHelpers, Completed: func(ret *ssa.Return) bool {
		v := retResults(ret)[0]
		return isNilConst(v) || isSkipDirLoad(v)
	}}
	s.Atom = w.encAtom(a, s.C)
	var out []string
	for _, q := range s.Run() {
		if q != "" {
			out = append(out, q)
		}
	}
	return out, s.Trunc
}

func (w *wireExtractor) decAtom(a entryAssign, canon func(ssa.Value) ssa.Value) func(ssa.Value) (bool, bool) {
	flagsP := w.dec.Params[1]
	modeF := w.p.Field(pkgReceiver, "File", "Mode")
	return func(cond ssa.Value) (bool, bool) {
		switch x := cond.(type) {
		case *ssa.BinOp:
			if x.Op == token.NEQ || x.Op == token.EQL {
				if and, ok := x.X.(*ssa.BinOp); ok && and.Op == token.AND {
					if canon(and.X) == ssa.Value(flagsP) {
						if k, ok := constInt(and.Y); ok {
							if z, ok := constInt(x.Y); ok && z == 0 {
								for _, fl := range xmitFlags {
									if fl.bit == k {
										return a.flags[fl.name] == (x.Op == token.NEQ), true
									}
								}
							}
						}
					}
					// (f.Mode & S_IFMT) == S_IFx
					if k, ok := constInt(and.Y); ok && k == 0o170000 && isFieldLoad(and.X, modeF) {
						if c, ok := constInt(x.Y); ok {
							if t, ok := sifmt[c]; ok {
								return (a.typ == t) == (x.Op == token.EQL), true
							}
						}
					}
				}
			}
		case *ssa.UnOp:
			if _, f := loadedField(x); f != nil && f.Pkg() != nil && f.Pkg().Path() == pkgReceiver {
				if atom, ok := w.optFld[f.Name()]; ok {
					return a.opts[atom], true
				}
			}
		}
		return false, false
	}
}

func (w *wireExtractor) decRecord(in ssa.Instruction) string {
	c, ok := in.(ssa.CallInstruction)
	if !ok {
		return ""
	}
	switch calleeName(c) {
	case "(*" + pkgWire + ".Conn).ReadByte":
		return "u8"
	case "(*" + pkgWire + ".Conn).ReadInt32":
		return "i32"
	case "(*" + pkgWire + ".Conn).ReadInt64":
		return "i64"
	case "io.ReadFull":
		return "bytes"
	}
	return ""
}

func (w *wireExtractor) decoderSeqs(a entryAssign) ([]string, bool) {
	s := &Sim{Fn: w.dec, Record: w.decRecord, Inline: w.inlineHelpers, Completed: func(ret *ssa.Return) bool {
		rr := retResults(ret)
		return isNilConst(rr[len(rr)-1])
	}}
	s.Atom = w.decAtom(a, s.C)
	return s.Run(), s.Trunc
}

// allAssignments enumerates type × option subsets (× flag subsets if flags).
func allAssignments(withFlags bool) []entryAssign {
	var out []entryAssign
	for _, t := range fileTypes {
		for om := 0; om < 1<<len(entryOpts); om++ {
			opts := map[string]bool{}
			for i, o := range entryOpts {
				opts[o] = om&(1<<i) != 0
			}
			if !withFlags {
				out = append(out, entryAssign{typ: t, opts: opts, flags: map[string]bool{"LONG_NAME": true}})
				continue
			}
			for fm := 0; fm < 1<<len(xmitFlags); fm++ {
				fl := map[string]bool{}
				for i, f := range xmitFlags {
					fl[f.name] = fm&(1<<i) != 0
				}
				out = append(out, entryAssign{typ: t, opts: opts, flags: fl})
			}
		}
	}
	return out
}

// inlineHelpers: same-package helpers may be walked in line, except the
// functions that are themselves wire primitives or sources of atoms.
func (w *wireExtractor) inlineHelpers(fn *ssa.Function) bool {
	switch fn.Name() {
	case "matches", "ioError", "uidFromFileInfo", "gidFromFileInfo", "rdevFromFileInfo":
		return false
	}
	return true
}
