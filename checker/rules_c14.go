package main

import (
	"fmt"
	"go/token"
	"go/types"
	"sort"
	"strings"

	"golang.org/x/tools/go/ssa"
)

func init() { register("C14", checkC14) }

// accessor → options field it reads (`return o.f != 0`)
func accessorField(fn *ssa.Function) *types.Var {
	if fn == nil || len(fn.Blocks) != 1 {
		return nil
	}
	ret, ok := lastInstr(fn.Blocks[0]).(*ssa.Return)
	if !ok || len(ret.Results) != 1 {
		return nil
	}
	switch x := ret.Results[0].(type) {
	case *ssa.BinOp:
		if x.Op == token.NEQ {
			if _, f := loadedField(x.X); f != nil {
				return f
			}
		}
	case *ssa.UnOp:
		if _, f := loadedField(x); f != nil {
			return f
		}
	}
	return nil
}

func checkC14(p *Prog, r *Report) {
	g := p.ModGraph()
	w := newWireExtractor(p, r)
	if w == nil {
		return
	}

	// ---- FIELDS ----
	r.Rule("C14/FIELDS", "for every (file type × option subset), assuming both ends hold the same option values, the record sequence the entry encoder writes (after its flags byte) equals the sequence the entry decoder reads under the sender's flag choice — extracted from both functions, no protocol table involved", 7)
	compareSeqs(r, "C14/FIELDS", "decoder-vs-encoder", allAssignments(false), w.decoderSeqs, func(a entryAssign) string {
		seqs, _ := w.encoderSeqs(a)
		if len(seqs) != 1 {
			return fmt.Sprintf("<encoder undecided: %q>", seqs)
		}
		return strings.TrimPrefix(seqs[0], "u8 ")
	})

	// ---- option accessors ----
	optsT := p.Obj(pkgOpts, "Options")
	if optsT == nil {
		r.Fatalf("anchor unresolved: rsyncopts.Options")
		return
	}
	accField := map[string]*types.Var{} // accessor name → field
	ms := p.SSA.MethodSets.MethodSet(types.NewPointer(optsT.Type()))
	for i := 0; i < ms.Len(); i++ {
		fn := p.SSA.MethodValue(ms.At(i))
		if f := accessorField(fn); f != nil {
			accField[fn.Name()] = f
		}
	}

	// ---- FORWARDED ----
	r.Rule("C14/FORWARDED", "every boolean accessor of *rsyncopts.Options that code reachable from the daemon's handleConn consults is serialised by (*Options).ServerOptions (controls an emission), except the frozen exemption table", 10)
	hc := anchorFunc(p, r, pkgRsyncd, "Server", "handleConn")
	so := anchorFunc(p, r, pkgOpts, "Options", "ServerOptions")
	if hc == nil || so == nil {
		return
	}
	exempt := map[string]string{
		"Server": "encoded literally as --server", "Sender": "encoded literally as --sender (inverted role)", "InfoGTE": "display only", "DebugGTE": "display only",
		"Progress": "display only; server output goes to its log", "PreserveHardLinks": "the server only uses it to refuse; not implemented on either end",
		"Verbose": "", "Daemon": "listener mode, not a transfer option", "LocalServer": "client-side only",
	}
	consulted := map[string]string{}
	reach := g.Reach([]*ssa.Function{hc}, nil)
	for fn := range reach {
		if !isModFunc(fn) || fn.Blocks == nil || isTestSupport(pkgPathOfFunc(fn)) {
			continue
		}
		allCalls(fn, func(c ssa.CallInstruction) {
			f := calleeOf(c)
			if f == nil {
				return
			}
			if rp, rt := recvTypeName(f); rp == pkgOpts && rt == "Options" {
				if _, isAcc := accField[f.Name()]; isAcc || f.Name() == "InfoGTE" || f.Name() == "DebugGTE" || f.Name() == "Progress" {
					if _, have := consulted[f.Name()]; !have {
						consulted[f.Name()] = p.Pos(instrPos(c))
					}
				}
			}
		})
	}
	// emissions of ServerOptions (and of helpers it calls) with their guards
	ems, serialised := collectEmissions(p, r, so)
	var names []string
	for n := range consulted {
		names = append(names, n)
	}
	sort.Strings(names)
	for _, n := range names {
		if why, ok := exempt[n]; ok && n != "Verbose" {
			r.OK("C14/FORWARDED", "consulted "+n+" (exempt)", consulted[n], why)
			continue
		}
		r.Cond(serialised[n], "C14/FORWARDED", "consulted "+n+" is serialised", consulted[n], "the server consults this option but ServerOptions never emits anything under it: it silently keeps its default on the remote side")
	}

	checkRoundTrip(p, r, so, accField, consulted, exempt, func() []struct {
		tok   string
		in    ssa.Instruction
		guard []Fact
	} {
		var out []struct {
			tok   string
			in    ssa.Instruction
			guard []Fact
		}
		for _, e := range ems {
			out = append(out, struct {
				tok   string
				in    ssa.Instruction
				guard []Fact
			}{e.token, e.in, e.guard})
		}
		return out
	}())

	checkMapping(p, r)
	checkStreamSymmetry(p, r)
	r.Assume("foreign servers are out of scope: forwarding is checked against this repository's own option parser")
	r.Uncovered("options outside the accepted set; values of non-boolean options (only --sender/--server and boolean flags are forwarded today)")
}

// checkRoundTrip composes the emission table of ServerOptions with the parse
// table of the option parser (popt table literals + the constant assignments
// of ParseArguments' switch) and enumerates all assignments of the guarding
// accessors: the server-side value of every consulted option must equal the
// client's.
func checkRoundTrip(p *Prog, r *Report, so *ssa.Function, accField map[string]*types.Var, consulted map[string]string, exempt map[string]string, ems []struct {
	tok   string
	in    ssa.Instruction
	guard []Fact
}) {
	rule := "C14/ROUNDTRIP"
	r.Rule(rule, "emission table of ServerOptions ∘ parse table of the option parser: for every assignment of the accessors that guard emissions, parsing the emitted tokens yields, for every consulted non-exempt boolean option, the client's value", 10)
	parse := buildParseTable(p, r)
	if parse == nil {
		return
	}
	// atoms
	atomSet := map[string]bool{}
	for _, e := range ems {
		for _, f := range e.guard {
			atomSet[calleeOf(f.Cond.(*ssa.Call)).Name()] = true
		}
	}
	var atoms []string
	for a := range atomSet {
		atoms = append(atoms, a)
	}
	sort.Strings(atoms)
	if len(atoms) > 20 {
		r.Unk(rule, "assignment space", p.Pos(so.Pos()), "too many guarding accessors to enumerate")
		return
	}
	// fields compared: consulted, non-exempt accessors with a known field
	type cmp struct {
		name string
		fld  *types.Var
	}
	var cmps []cmp
	for n := range consulted {
		if _, ex := exempt[n]; ex && n != "Verbose" {
			continue
		}
		if f := accField[n]; f != nil {
			cmps = append(cmps, cmp{n, f})
		}
	}
	sort.Slice(cmps, func(i, j int) bool { return cmps[i].name < cmps[j].name })
	bad := map[string]string{}
	unknownTok := map[string]bool{}
	// option post-processing both ends run after parsing: `if o.A != 0 { o.B = k }`
	impl := optionImplications(p)
	for _, im := range impl {
		r.Info("C14/ROUNDTRIP: post-processing implication %s != 0 ⇒ %s = %d", im.from.Name(), im.to.Name(), im.val)
	}
	for m := 0; m < 1<<len(atoms); m++ {
		val := map[string]bool{}
		for i, a := range atoms {
			val[a] = m&(1<<i) != 0
		}
		// a client state that its own post-processing excludes is not a state
		feasible := true
		for _, im := range impl {
			for _, a := range atoms {
				if accField[a] != im.from || !val[a] {
					continue
				}
				for _, b := range atoms {
					if accField[b] == im.to && !val[b] && im.val != 0 {
						feasible = false
					}
				}
			}
		}
		if !feasible {
			continue
		}
		fields := map[*types.Var]int64{}
		for _, e := range ems {
			on := true
			for _, f := range e.guard {
				if val[calleeOf(f.Cond.(*ssa.Call)).Name()] != f.Val {
					on = false
				}
			}
			if !on {
				continue
			}
			eff, ok := parse[e.tok]
			if !ok {
				unknownTok[e.tok] = true
				continue
			}
			for _, a := range eff {
				fields[a.fld] = a.val
			}
		}
		for changed := true; changed; {
			changed = false
			for _, im := range impl {
				if fields[im.from] != 0 && fields[im.to] != im.val {
					fields[im.to] = im.val
					changed = true
				}
			}
		}
		for _, c := range cmps {
			client, isAtom := val[c.name]
			if !isAtom {
				client = false // never emitted: compare with the default (off)
			}
			server := fields[c.fld] != 0
			if !isAtom {
				if server {
					if _, have := bad[c.name]; !have {
						bad[c.name] = fmt.Sprintf("no emission is guarded by %s, yet the server ends up with it switched on for some client options: the server's value does not follow the client's", c.name)
					}
				}
				continue
			}
			if server != client {
				if _, have := bad[c.name]; !have {
					var on []string
					for _, a := range atoms {
						if val[a] {
							on = append(on, a)
						}
					}
					bad[c.name] = fmt.Sprintf("client %s=%v arrives as %v on the server (client options on: %s)", c.name, client, server, strings.Join(on, ","))
				}
			}
		}
	}
	for t := range unknownTok {
		if t == "--server" || t == "--sender" {
			continue
		}
		r.Unk(rule, "token "+t, p.Pos(so.Pos()), "emitted token not found in the parse table")
	}
	for _, c := range cmps {
		r.Cond(bad[c.name] == "", rule, "option "+c.name+" arrives unchanged", consulted[c.name], bad[c.name])
	}
}

type parseEffect struct {
	fld *types.Var
	val int64
}

// buildParseTable: token ("-x" or "--long") → field assignments.
func buildParseTable(p *Prog, r *Report) map[string][]parseEffect {
	tbl := anchorFunc(p, r, pkgOpts, "Options", "gokrazyTable")
	pa := anchorFunc(p, r, pkgOpts, "Context", "ParseArguments")
	if tbl == nil || pa == nil {
		return nil
	}
	argNone, _ := scopeConstInt(p, pkgOpts, "POPT_ARG_NONE")
	argVal, _ := scopeConstInt(p, pkgOpts, "POPT_ARG_VAL")
	type entry struct {
		long, short string
		argInfo     int64
		fld         *types.Var
		val         int64
	}
	entries := map[ssa.Value]*entry{} // keyed by element address (IndexAddr)
	for _, b := range tbl.Blocks {
		for _, in := range b.Instrs {
			st, ok := in.(*ssa.Store)
			if !ok {
				continue
			}
			base, f := fieldOfAddr(st.Addr)
			if f == nil {
				continue
			}
			switch bb := base.(type) {
			case *ssa.IndexAddr:
			case *ssa.Alloc:
				if n := namedOf(bb.Type()); n == nil || n.Obj().Name() != "poptOption" {
					continue
				}
			default:
				continue
			}
			e := entries[base]
			if e == nil {
				e = &entry{}
				entries[base] = e
			}
			switch f.Name() {
			case "longName":
				e.long, _ = constStr(st.Val)
			case "shortName":
				e.short, _ = constStr(st.Val)
			case "argInfo":
				e.argInfo, _ = constInt(st.Val)
			case "val":
				e.val, _ = constInt(st.Val)
			case "arg":
				if mi, ok := st.Val.(*ssa.MakeInterface); ok {
					if _, ff := fieldOfAddr(mi.X); ff != nil {
						e.fld = ff
					}
				}
			}
		}
	}
	// special-case assignments in ParseArguments: blocks dominated by opt == c
	special := map[int64][]parseEffect{}
	for _, b := range pa.Blocks {
		for _, in := range b.Instrs {
			st, ok := in.(*ssa.Store)
			if !ok {
				continue
			}
			_, f := fieldOfAddr(st.Addr)
			k, isK := constInt(st.Val)
			if bo, ok := st.Val.(*ssa.BinOp); ok && bo.Op == token.ADD && f != nil && isFieldLoad(bo.X, f) {
				if inc, ok := constInt(bo.Y); ok && inc > 0 {
					k, isK = 1, true // counter option (-v, -vv): non-zero
				}
			}
			if f == nil || !isK {
				continue
			}
			for _, fact := range FactsAt(st) {
				bo, ok := fact.Cond.(*ssa.BinOp)
				if !ok || bo.Op != token.EQL || !fact.Val {
					continue
				}
				if c, ok := constInt(bo.Y); ok {
					if _, isOpt := extractOf(bo.X); isOpt != 0 || true {
						special[c] = append(special[c], parseEffect{f, k})
					}
				}
			}
		}
	}
	// … and helper methods of the package called from such a block
	// (opts.setArchive(), opts.setDevicesAndSpecials(1)): constant stores of the
	// helper, with its parameters bound to the constant arguments of the call
	var effectsOfCall func(c ssa.CallInstruction, env map[*ssa.Parameter]int64, depth int) []parseEffect
	effectsOfCall = func(c ssa.CallInstruction, env map[*ssa.Parameter]int64, depth int) []parseEffect {
		callee := c.Common().StaticCallee()
		if callee == nil || callee.Blocks == nil || callee == pa || pkgPathOfFunc(callee) != pkgOpts || depth > 2 {
			return nil
		}
		inner := map[*ssa.Parameter]int64{}
		for i, pp := range callee.Params {
			if i >= len(c.Common().Args) {
				continue
			}
			a := c.Common().Args[i]
			if k, ok := constInt(a); ok {
				inner[pp] = k
			} else if ap, ok := a.(*ssa.Parameter); ok {
				if k, ok := env[ap]; ok {
					inner[pp] = k
				}
			}
		}
		var eff []parseEffect
		for _, b := range callee.Blocks {
			for _, in := range b.Instrs {
				switch x := in.(type) {
				case *ssa.Store:
					_, f := fieldOfAddr(x.Addr)
					if f == nil {
						continue
					}
					if k, ok := constInt(x.Val); ok {
						eff = append(eff, parseEffect{f, k})
					} else if vp, ok := x.Val.(*ssa.Parameter); ok {
						if k, ok := inner[vp]; ok {
							eff = append(eff, parseEffect{f, k})
						}
					}
				case ssa.CallInstruction:
					eff = append(eff, effectsOfCall(x, inner, depth+1)...)
				}
			}
		}
		return eff
	}
	for _, b := range pa.Blocks {
		for _, in := range b.Instrs {
			c, ok := in.(ssa.CallInstruction)
			if !ok {
				continue
			}
			eff := effectsOfCall(c, nil, 0)
			if len(eff) == 0 {
				continue
			}
			for _, fact := range FactsAt(in) {
				bo, ok := fact.Cond.(*ssa.BinOp)
				if !ok || bo.Op != token.EQL || !fact.Val {
					continue
				}
				if k, ok := constInt(bo.Y); ok {
					special[k] = append(special[k], eff...)
				}
			}
		}
	}
	out := map[string][]parseEffect{}
	for _, e := range entries {
		var eff []parseEffect
		switch {
		case e.fld != nil && e.argInfo == argNone:
			eff = []parseEffect{{e.fld, 1}}
		case e.fld != nil && e.argInfo == argVal:
			eff = []parseEffect{{e.fld, e.val}}
		case e.fld == nil && e.val != 0:
			eff = special[e.val]
		default:
			continue
		}
		if e.long != "" {
			out["--"+e.long] = eff
		}
		if e.short != "" {
			out["-"+e.short] = eff
		}
	}
	if len(out) < 20 {
		r.Fatalf("C14/ROUNDTRIP: parse table extraction found only %d tokens", len(out))
		return nil
	}
	return out
}

// checkMapping: the two receiver.TransferOpts literals bind fields to the
// same accessors.
func checkMapping(p *Prog, r *Report) {
	rule := "C14/MAPPING"
	r.Rule(rule, "the receiver.TransferOpts literals of the client (ClientRun) and the daemon (handleConnReceiver) bind every common field to the same *Options accessor, and each field to the accessor of the same concept", 12)
	want := map[string]string{"DryRun": "DryRun", "Verbose": "Verbose", "Progress": "Progress", "Server": "Server", "DeleteMode": "DeleteMode",
		"PreserveGid": "PreserveGid", "PreserveUid": "PreserveUid", "PreserveLinks": "PreserveLinks", "PreservePerms": "PreservePerms",
		"PreserveDevices": "PreserveDevices", "PreserveSpecials": "PreserveSpecials", "PreserveTimes": "PreserveMTimes", "PreserveHardlinks": "PreserveHardLinks",
		"IgnoreTimes": "IgnoreTimes", "AlwaysChecksum": "AlwaysChecksum", "InfoGTE": "InfoGTE", "DebugGTE": "DebugGTE"}
	oneSided := map[string]bool{"Server": true, "PreserveHardlinks": true}
	toT := p.Obj(pkgReceiver, "TransferOpts")
	if toT == nil {
		r.Fatalf("anchor unresolved: receiver.TransferOpts")
		return
	}
	bind := map[string]map[string]string{} // function → field → accessor
	for _, fn := range p.ModFuncs {
		if isTestSupport(pkgPathOfFunc(fn)) {
			continue
		}
		for _, b := range fn.Blocks {
			for _, in := range b.Instrs {
				st, ok := in.(*ssa.Store)
				if !ok {
					continue
				}
				base, f := fieldOfAddr(st.Addr)
				if f == nil || base == nil {
					continue
				}
				pt, ok := base.Type().Underlying().(*types.Pointer)
				if !ok || !types.Identical(pt.Elem(), toT.Type()) {
					continue
				}
				acc := "?"
				switch x := st.Val.(type) {
				case *ssa.Call:
					if fo := calleeOf(x); fo != nil {
						acc = fo.Name()
					}
				case *ssa.MakeClosure:
					if bf, ok := x.Fn.(*ssa.Function); ok {
						acc = strings.TrimSuffix(bf.Name(), "$bound")
					}
				}
				k := funcKey(fn)
				if bind[k] == nil {
					bind[k] = map[string]string{}
				}
				bind[k][f.Name()] = acc
			}
		}
	}
	var fns []string
	for k := range bind {
		fns = append(fns, k)
	}
	sort.Strings(fns)
	if len(fns) != 2 {
		r.Bad(rule, "two TransferOpts literals", "-", fmt.Sprintf("expected the client and the daemon literal, found %v", fns))
		return
	}
	for fld, acc := range want {
		a, okA := bind[fns[0]][fld]
		b, okB := bind[fns[1]][fld]
		switch {
		case okA && okB:
			r.Cond(a == acc && b == acc, rule, "TransferOpts."+fld, "-", fmt.Sprintf("bound to %s (%s) and %s (%s), expected %s", a, fns[0], b, fns[1], acc))
		case okA || okB:
			got := a
			if okB {
				got = b
			}
			r.Cond(oneSided[fld] && got == acc, rule, "TransferOpts."+fld, "-", "set on one side only (would behave differently depending on who receives)")
		default:
			r.Bad(rule, "TransferOpts."+fld, "-", "not set on either side")
		}
	}
	for _, k := range fns {
		for fld := range bind[k] {
			if _, known := want[fld]; !known {
				r.Unk(rule, "TransferOpts."+fld, "-", "new field: extend the mapping table after reading")
			}
		}
	}
}

// checkStreamSymmetry: session-level read/write pairs.
func checkStreamSymmetry(p *Prog, r *Report) {
	defer checkListFraming(p, r, "C14/LIST-FRAMING")
	defer checkIDListSymmetry(p, r)
	defer checkTransferSetupSymmetry(p, r)
	rule := "C14/STREAM-SYMMETRY"
	r.Rule(rule, "handshake: with negotiate the client writes its version then reads, the server reads then writes; the seed is written/read once; the daemon receiver reads a filter list iff DeleteMode, which the client sender must then write under the same condition (or never forward --delete)", 3)
	hc := anchorFunc(p, r, pkgRsyncd, "Server", "handleConn")
	cr := anchorFunc(p, r, pkgMaincmd, "", "ClientRun")
	if hc == nil || cr == nil {
		return
	}
	seqOf := func(fn *ssa.Function, negotiate bool) string {
		var neg *ssa.Parameter
		for _, pp := range fn.Params {
			if pp.Name() == "negotiate" {
				neg = pp
			}
		}
		s := &Sim{Fn: fn, Atom: func(v ssa.Value) (bool, bool) {
			if neg != nil && v == ssa.Value(neg) {
				return negotiate, true
			}
			return false, false
		}, Completed: func(*ssa.Return) bool { return true },
			Record: func(in ssa.Instruction) string {
				c, ok := in.(ssa.CallInstruction)
				if !ok {
					return ""
				}
				switch {
				case strings.HasSuffix(calleeName(c), ".Conn).WriteInt32"):
					return "W"
				case strings.HasSuffix(calleeName(c), ".Conn).ReadInt32"):
					return "R"
				}
				return ""
			}}
		baseRecord := s.Record
		s.Record = func(in ssa.Instruction) string {
			// the handshake ends where the side switches to multiplexing
			if a, ok := in.(*ssa.Alloc); ok {
				if n := namedOf(a.Type()); n != nil && n.Obj().Pkg() != nil && n.Obj().Pkg().Path() == pkgWire && (n.Obj().Name() == "MultiplexWriter" || n.Obj().Name() == "MultiplexReader") {
					return "|"
				}
			}
			return baseRecord(in)
		}
		prefixes := map[string]bool{}
		for _, q := range s.Run() {
			// handshake = records up to the first role dispatch
			if i := strings.Index(q, "|"); i >= 0 {
				prefixes[strings.TrimSpace(q[:i])] = true
			}
		}
		var out []string
		for k := range prefixes {
			out = append(out, k)
		}
		sort.Strings(out)
		return strings.Join(out, " / ")
	}
	srvN, srv := seqOf(hc, true), seqOf(hc, false)
	cliN, cli := seqOf(cr, true), seqOf(cr, false)
	mirror := func(s string) string { return strings.NewReplacer("W", "r", "R", "w").Replace(s) }
	r.Cond(srvN == "R W W" && strings.ToUpper(mirror(srvN)) == cliN, rule, "handshake with negotiation", "-", fmt.Sprintf("server %q client %q (want server R W W, client W R R)", srvN, cliN))
	r.Cond(srv == "W" && cli == "R", rule, "handshake without negotiation (daemon)", "-", fmt.Sprintf("server %q client %q (want W / R)", srv, cli))
	// filter list: daemon receiver reads it under DeleteMode
	hr := anchorFunc(p, r, pkgRsyncd, "Server", "handleConnReceiver")
	if hr != nil {
		readsUnderDelete := false
		allCalls(hr, func(c ssa.CallInstruction) {
			if calleeName(c) == pkgSender+".RecvFilterList" && HasFact(c, true, isCallPred("(*"+pkgOpts+".Options).DeleteMode")) {
				readsUnderDelete = true
			}
		})
		// the client sender writes a filter list under DeleteMode, or --delete is never forwarded
		so := p.Func(pkgOpts, "Options", "ServerOptions")
		forwardsDelete := false
		if so != nil {
			allCalls(so, func(c ssa.CallInstruction) {
				if bi, ok := c.Common().Value.(*ssa.Builtin); ok && bi.Name() == "append" {
					for _, e := range variadicElems(c.Common().Args[1]) {
						if s, ok := constStr(e); ok && strings.HasPrefix(s, "--delete") {
							forwardsDelete = true
						}
					}
				}
			})
		}
		clientSenderWrites := false
		var crBlocks []*ssa.BasicBlock
		for _, fn := range p.ModGraph().unitFuncs(cr) {
			crBlocks = append(crBlocks, fn.Blocks...)
		}
		for _, b := range crBlocks {
			for _, in := range b.Instrs {
				c, ok := in.(ssa.CallInstruction)
				if !ok {
					continue
				}
				writes := strings.HasSuffix(calleeName(c), ".Conn).WriteInt32")
				if sc := c.Common().StaticCallee(); sc != nil && pkgPathOfFunc(sc) == pkgMaincmd {
					allCalls(sc, func(w ssa.CallInstruction) {
						if strings.HasSuffix(calleeName(w), ".Conn).WriteInt32") {
							if k, isK := constInt(w.Common().Args[1]); isK && k == 0 {
								writes = true // a list terminator: this helper sends a filter list
							}
						}
					})
				}
				if writes && HasFact(c, true, isCallPred("(*"+pkgOpts+".Options).Sender")) && HasFact(c, true, isCallPred("(*"+pkgOpts+".Options).DeleteMode")) {
					clientSenderWrites = true
				}
			}
		}
		ok := readsUnderDelete && (forwardsDelete == clientSenderWrites)
		r.Cond(ok, rule, "filter list on push: daemon reads iff --delete; client writes iff it forwards --delete", "-",
			fmt.Sprintf("daemon reads under DeleteMode=%v, client forwards --delete=%v, client sender writes list under DeleteMode=%v", readsUnderDelete, forwardsDelete, clientSenderWrites))
	}
}

type emission struct {
	token string
	in    ssa.Instruction
	guard []Fact
}

// collectEmissions walks ServerOptions and, in call order, the helpers of
// package rsyncopts it calls directly (e.g. an extracted function that builds
// the single-letter option string): every appended token with the option
// accessors that guard it (call-site guards of a helper apply to all of its
// emissions).
func collectEmissions(p *Prog, r *Report, so *ssa.Function) ([]emission, map[string]bool) {
	var ems []emission
	serialised := map[string]bool{}
	var visit func(fn *ssa.Function, ctx []Fact, depth int)
	visit = func(fn *ssa.Function, ctx []Fact, depth int) {
		// blocks in dominator pre-order approximate source order for straight-line option code
		for _, b := range fn.DomPreorder() {
			for _, in := range b.Instrs {
				tok := ""
				switch x := in.(type) {
				case *ssa.BinOp: // argstr += "x"
					if x.Op == token.ADD {
						if s, ok := constStr(x.Y); ok && len(s) == 1 {
							tok = "-" + s
						}
					}
				case *ssa.Call:
					if bi, ok := x.Common().Value.(*ssa.Builtin); ok && bi.Name() == "append" {
						for _, e := range variadicElems(x.Common().Args[1]) {
							if s, ok := constStr(e); ok {
								tok = s
							}
						}
					} else if callee := x.Common().StaticCallee(); callee != nil && depth < 2 && callee.Blocks != nil && pkgPathOfFunc(callee) == pkgOpts && accessorField(callee) == nil && callee != fn {
						sub := append(append([]Fact{}, ctx...), recognisedGuards(p, r, in, "", serialised)...)
						visit(callee, sub, depth+1)
					}
				}
				if tok == "" {
					continue
				}
				e := emission{token: tok, in: in}
				e.guard = append(append([]Fact{}, ctx...), recognisedGuards(p, r, in, tok, serialised)...)
				ems = append(ems, e)
			}
		}
	}
	visit(so, nil, 0)
	return ems, serialised
}

// recognisedGuards: the branch facts at `in` that are option accessors
// (directly, or compared with 0); anything else except `argstr != "-"` makes
// the round-trip undecidable and is reported.
func recognisedGuards(p *Prog, r *Report, in ssa.Instruction, tok string, serialised map[string]bool) []Fact {
	var out []Fact
	for _, f := range FactsAtBlock(in.Block()) { // raw local facts only
		cond := f.Cond
		if bo, ok := cond.(*ssa.BinOp); ok && (bo.Op == token.NEQ || bo.Op == token.EQL) {
			if k, isK := constInt(bo.Y); isK && k == 0 {
				if _, isCall := bo.X.(*ssa.Call); isCall {
					cond = bo.X
					if bo.Op == token.EQL {
						f.Val = !f.Val
					}
				}
			}
		}
		recognised := false
		if c, ok := cond.(*ssa.Call); ok {
			if fo := calleeOf(c); fo != nil {
				if rp, rt := recvTypeName(fo); rp == pkgOpts && rt == "Options" {
					f.Cond = c
					out = append(out, f)
					serialised[fo.Name()] = true
					recognised = true
				}
			}
		}
		if !recognised {
			if bo, ok := cond.(*ssa.BinOp); ok {
				if s, isS := constStr(bo.Y); isS && s == "-" {
					continue
				}
				if s, isS := constStr(bo.X); isS && s == "-" {
					continue
				}
			}
			r.Unk("C14/ROUNDTRIP", "emission of "+tok+" under an unrecognised condition", p.Pos(instrPos(in)), "ServerOptions emits under a condition that is not a plain option accessor; the round-trip table cannot be composed")
		}
	}
	return out
}

type optImplication struct {
	from, to *types.Var
	val      int64
}

// optionImplications extracts, from the functions of package rsyncopts, the
// post-processing steps of the shape `if o.A != 0 { o.B = k }` (the true
// successor is entered only over that edge and stores a constant into another
// field of Options). Both ends run them after parsing, so they relate the
// fields of a parsed option set.
func optionImplications(p *Prog) []optImplication {
	optsObj := p.Obj(pkgOpts, "Options")
	if optsObj == nil {
		return nil
	}
	isOptsField := func(v ssa.Value) *types.Var {
		base, f := fieldOfAddr(v)
		if f == nil || base == nil {
			return nil
		}
		pt, ok := base.Type().Underlying().(*types.Pointer)
		if !ok || !types.Identical(pt.Elem(), optsObj.Type()) {
			return nil
		}
		return f
	}
	var out []optImplication
	for _, fn := range p.FuncsInPkg(pkgOpts) {
		for _, b := range fn.Blocks {
			ifi, ok := lastInstr(b).(*ssa.If)
			if !ok {
				continue
			}
			bo, ok := ifi.Cond.(*ssa.BinOp)
			if !ok {
				continue
			}
			k, isK := constInt(bo.Y)
			if !isK || k != 0 || (bo.Op != token.NEQ && bo.Op != token.GTR) {
				continue
			}
			ld, ok := bo.X.(*ssa.UnOp)
			if !ok || ld.Op != token.MUL {
				continue
			}
			from := isOptsField(ld.X)
			if from == nil {
				continue
			}
			succ := b.Succs[0]
			if !edgeDominates(b, succ) {
				continue
			}
			// not nested under another option test (the step must be unconditional)
			nested := false
			for _, f := range FactsAtBlock(b) {
				if c, ok := f.Cond.(*ssa.BinOp); ok {
					for _, side := range []ssa.Value{c.X, c.Y} {
						if l2, ok := side.(*ssa.UnOp); ok && l2.Op == token.MUL && isOptsField(l2.X) != nil {
							nested = true
						}
					}
				}
			}
			if nested {
				continue
			}
			for _, in := range succ.Instrs {
				st, ok := in.(*ssa.Store)
				if !ok {
					continue
				}
				to := isOptsField(st.Addr)
				if to == nil || to == from {
					continue
				}
				if v, ok := constInt(st.Val); ok {
					out = append(out, optImplication{from, to, v})
				}
			}
		}
	}
	return out
}

// checkListFraming — a zero-terminated list of length-prefixed strings must
// never contain an empty string: its length prefix is the terminator, the
// reader stops there and takes the remaining rules for the next protocol
// phase. In every production function that writes Conn.WriteInt32(len(s)) for a
// string s and also the constant terminator WriteInt32(0), the length write
// must be dominated by a test that excludes the empty string.
func checkListFraming(p *Prog, r *Report, rule string) {
	r.Rule(rule, "a zero-terminated list of length-prefixed strings (the filter-rule list) never carries an empty string: every Conn.WriteInt32(len(s)) in a function that also writes the terminator WriteInt32(0) is dominated by a test excluding s == \"\" (an empty rule, e.g. -f '', would be read as the end of the list and desynchronise the stream)", 1)
	n := 0
	g := p.ModGraph()
	writesTerm := func(fn *ssa.Function) bool {
		t := false
		allCalls(fn, func(c ssa.CallInstruction) {
			if calleeName(c) == "(*"+pkgWire+".Conn).WriteInt32" {
				if k, ok := constInt(c.Common().Args[1]); ok && k == 0 {
					t = true
				}
			}
		})
		return t
	}
	for _, fn := range p.ModFuncs {
		if fn.Blocks == nil || isTestSupport(pkgPathOfFunc(fn)) {
			continue
		}
		var lens []ssa.CallInstruction
		allCalls(fn, func(c ssa.CallInstruction) {
			if calleeName(c) != "(*"+pkgWire+".Conn).WriteInt32" {
				return
			}
			if lc, ok := stripConv(c.Common().Args[1]).(*ssa.Call); ok {
				if bi, ok := lc.Common().Value.(*ssa.Builtin); ok && bi.Name() == "len" {
					if bt, ok := lc.Common().Args[0].Type().Underlying().(*types.Basic); ok && bt.Info()&types.IsString != 0 {
						lens = append(lens, c)
					}
				}
			}
		})
		if len(lens) == 0 {
			continue
		}
		// the terminator is written by this function or by a direct caller (per-element helper)
		term := writesTerm(fn)
		if !term {
			for _, e := range g.In[fn] {
				if c, ok := e.Site.(ssa.CallInstruction); ok && !e.Escape && c.Common().StaticCallee() == fn && writesTerm(e.From) {
					term = true
				}
			}
		}
		if !term {
			continue
		}
		for _, c := range lens {
			n++
			s := stripConv(c.Common().Args[1]).(*ssa.Call).Common().Args[0]
			ok, _ := minLenEstablished(s, 1, c, 0)
			r.Cond(ok, rule, funcKey(fn)+" writes len(s) into a zero-terminated list", p.Pos(instrPos(c)), "an empty string is written as length 0, which the reader takes for the end of the list: the rest of the list is read as the next protocol phase")
		}
	}
	if n == 0 {
		r.Unk(rule, "list writers", "-", "no zero-terminated string list writer found: the filter list is sent differently now, re-read it")
	}
}
