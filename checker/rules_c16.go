package main

import (
	"fmt"
	"go/token"
	"go/types"
	"os"
	"sort"
	"strings"

	"golang.org/x/tools/go/ssa"
)

func init() { register("C16", checkC16) }

// C16 — "unchanged data is not re-sent: matches are found at every byte
// offset". The bound on literal bytes is arithmetic over file data and is NOT
// decided. Decided here are structural necessary conditions: a basis is
// offered whenever one exists, every block of it is summed, the sender's
// search visits every offset and every candidate, and no search state leaks
// from one file into the next. Breaking any of them loses matches (the
// transfer stays correct, only more literal data is sent), which is exactly
// what the tests cannot see.
func checkC16(p *Prog, r *Report) {
	checkBasisOffered(p, r)
	checkAllBlocksSummed(p, r)
	checkPerFileState(p, r)
	checkAllCandidates(p, r)
	checkEveryOffset(p, r)
	checkTagOrder(p, r)
	checkRollAfterReset(p, r)
	checkWindowNotCached(p, r, "C16/WINDOW-NOT-CACHED")
	checkStrongSumFresh(p, r)
	r.Trust("MD4 and the weak checksum as defined in rsyncchecksum (agreement of both ends: C02/ONE-DEFINITION)")
	r.Uncovered("the rolling-checksum algebra (s1/s2 update ≡ Checksum1 of the shifted window), the tag function, block-size selection, the `end` bound, and therefore the quantitative bound on literal bytes: arithmetic over runtime data, not decidable by structural rules")
}

// ---------------------------------------------------------------------------
// natural loops

type loopInfo struct {
	header *ssa.BasicBlock
	body   map[*ssa.BasicBlock]bool
}

// naturalLoops returns the natural loops of fn (one per header; back edges to
// the same header are merged).
func naturalLoops(fn *ssa.Function) []*loopInfo {
	byHeader := map[*ssa.BasicBlock]*loopInfo{}
	for _, u := range fn.Blocks {
		for _, h := range u.Succs {
			if !h.Dominates(u) {
				continue
			}
			li := byHeader[h]
			if li == nil {
				li = &loopInfo{header: h, body: map[*ssa.BasicBlock]bool{h: true}}
				byHeader[h] = li
			}
			// nodes that reach u without passing h
			stack := []*ssa.BasicBlock{u}
			for len(stack) > 0 {
				b := stack[len(stack)-1]
				stack = stack[:len(stack)-1]
				if li.body[b] {
					continue
				}
				li.body[b] = true
				stack = append(stack, b.Preds...)
			}
		}
	}
	var out []*loopInfo
	for _, li := range byHeader {
		out = append(out, li)
	}
	sort.Slice(out, func(i, j int) bool { return out[i].header.Index < out[j].header.Index })
	return out
}

// loopsContaining: loops whose body contains b, innermost first.
func loopsContaining(loops []*loopInfo, b *ssa.BasicBlock) []*loopInfo {
	var out []*loopInfo
	for _, li := range loops {
		if li.body[b] {
			out = append(out, li)
		}
	}
	sort.Slice(out, func(i, j int) bool { return len(out[i].body) < len(out[j].body) })
	return out
}

// ---------------------------------------------------------------------------

// emptyHeadWriters: functions of package receiver that write a zero-valued
// SumHead (a local `var sh rsync.SumHead` that is never stored to) — "send me
// the whole file".
func emptyHeadWriters(p *Prog) map[*ssa.Function]ssa.CallInstruction {
	out := map[*ssa.Function]ssa.CallInstruction{}
	for _, fn := range p.FuncsInPkg(pkgReceiver) {
		allCalls(fn, func(c ssa.CallInstruction) {
			if calleeName(c) != "(*"+modPath+".SumHead).WriteTo" {
				return
			}
			a, ok := c.Common().Args[0].(*ssa.Alloc)
			if !ok {
				return
			}
			for _, ref := range *a.Referrers() {
				switch x := ref.(type) {
				case *ssa.Store:
					if x.Addr == ssa.Value(a) {
						return
					}
				case *ssa.FieldAddr:
					for _, r2 := range *x.Referrers() {
						if st, ok := r2.(*ssa.Store); ok && st.Addr == ssa.Value(x) {
							return
						}
					}
				}
			}
			out[fn] = c
		})
	}
	return out
}

func checkBasisOffered(p *Prog, r *Report) {
	rule := "C16/BASIS-OFFERED"
	r.Rule(rule, "the generator asks for the whole file (an empty checksum header) only when there is no basis: every site that sends the zero SumHead is dominated by the destination being missing (os.IsNotExist of the Lstat error), not being a regular file, or failing to open; otherwise generateAndSendSums gets the opened destination file DestRoot.Open(f.Name) and its Lstat size", 3)
	g := p.ModGraph()
	nameF := p.Field(pkgReceiver, "File", "Name")
	gen := anchorFunc(p, r, pkgReceiver, "Transfer", "generateAndSendSums")
	if nameF == nil || gen == nil {
		return
	}
	// atomNoBasis: the condition, when true, says by itself that there is nothing to offer
	atomNoBasis := func(v ssa.Value) bool {
		c, ok := v.(*ssa.Call)
		if !ok {
			return false
		}
		switch calleeName(c) {
		case "os.IsNotExist":
			return true
		case "errors.Is":
			if len(c.Common().Args) == 2 {
				if mi, ok := c.Common().Args[1].(*ssa.MakeInterface); ok {
					if _, isK := constInt(mi.X); isK && strings.HasSuffix(mi.X.Type().String(), "syscall.Errno") {
						return true
					}
				}
			}
		}
		return false
	}
	// predicateNoBasis: a boolean helper (dest.missing(dryRun)) every possibly-true
	// return of which is a no-basis atom or is dominated by one
	predicateNoBasis := func(h *ssa.Function) bool {
		if h == nil || h.Blocks == nil || !isModFunc(h) || h.Signature.Results().Len() != 1 {
			return false
		}
		n := 0
		for _, b := range h.Blocks {
			ret, ok := lastInstr(b).(*ssa.Return)
			if !ok {
				continue
			}
			for _, leaf := range phiLeaves(ret.Results[0]) {
				if k, isK := leaf.(*ssa.Const); isK {
					if k.Value != nil && k.Value.String() == "false" {
						continue
					}
					// constant true: some dominating fact must be an atom
					found := false
					for _, f := range FactsAtBlock(b) {
						if f.Val && atomNoBasis(f.Cond) {
							found = true
						}
					}
					if !found {
						return false
					}
					n++
					continue
				}
				if !atomNoBasis(leaf) {
					return false
				}
				n++
			}
		}
		return n > 0
	}
	noBasis := func(in ssa.Instruction) (bool, string) {
		for _, f := range FactsAt(in) {
			if call, ok := f.Cond.(*ssa.Call); ok && f.Val && predicateNoBasis(call.Common().StaticCallee()) {
				return true, "destination missing (predicate " + funcKey(call.Common().StaticCallee()) + ")"
			}
			switch x := f.Cond.(type) {
			case *ssa.Call:
				if calleeName(x) == "os.IsNotExist" && f.Val {
					return true, "destination missing"
				}
				// errors.Is(lstatErr, E) true: the Lstat of the destination failed, there is nothing to offer
				if calleeName(x) == "errors.Is" && f.Val && len(x.Common().Args) == 2 {
					roots := g.paramRoots(x.Common().Args[0], 0) // the error may be handed to a helper
					all := len(roots) > 0
					for _, root := range roots {
						if c, i := extractOf(unwrapLocal(root)); !(c != nil && i == 1 && (calleeName(c) == "(*os.Root).Lstat" || calleeName(c) == "(*os.Root).Stat")) {
							all = false
						}
					}
					if all {
						return true, "destination cannot be examined (Lstat failed)"
					}
				}
				if calleeName(x) == "(io/fs.FileMode).IsRegular" && !f.Val {
					if inner, ok := x.Common().Args[0].(*ssa.Call); ok && inner.Common().IsInvoke() && inner.Common().Method.Name() == "Mode" {
						return true, "destination not a regular file"
					}
				}
			case *ssa.BinOp:
				if (x.Op == token.NEQ && f.Val) || (x.Op == token.EQL && !f.Val) {
					for _, side := range [][2]ssa.Value{{x.X, x.Y}, {x.Y, x.X}} {
						if !isNilConst(side[1]) {
							continue
						}
						if c, i := extractOf(unwrapLocal(side[0])); c != nil && i == 1 && calleeName(c) == "(*os.Root).Open" {
							return true, "destination cannot be opened"
						}
					}
				}
			}
		}
		return false, ""
	}
	writers := emptyHeadWriters(p)
	if len(writers) == 0 {
		r.Unk(rule, "empty checksum header", "-", "no site sends a zero SumHead: whole-file requests are made differently now, re-read the generator")
	}
	var wf []*ssa.Function
	for fn := range writers {
		wf = append(wf, fn)
	}
	sort.Slice(wf, func(i, j int) bool { return funcKey(wf[i]) < funcKey(wf[j]) })
	for _, fn := range wf {
		sink := writers[fn]
		// the writer itself may hold the guard …
		if ok, why := noBasis(sink); ok {
			r.OK(rule, funcKey(fn)+" sends the empty header", p.Pos(instrPos(sink)), why)
			continue
		}
		// … otherwise every call site must (closure called by its creator, or a method/function)
		sites := 0
		for _, e := range g.In[fn] {
			if isTestSupport(pkgPathOfFunc(e.From)) {
				continue
			}
			c, isCall := e.Site.(ssa.CallInstruction)
			if !isCall {
				continue // creation site of a closure
			}
			if e.Escape {
				continue
			}
			sites++
			ok, why := noBasis(c)
			r.Cond(ok, rule, funcKey(e.From)+" requests the whole file", p.Pos(instrPos(c)), "the whole file is requested although a basis may exist: not dominated by destination-missing, not-regular or open-failed")
			_ = why
		}
		if sites == 0 {
			r.Unk(rule, funcKey(fn)+" sends the empty header", p.Pos(instrPos(sink)), "no call site found for the function that sends the empty header")
		}
	}
	// the basis handed to generateAndSendSums
	n := 0
	for _, e := range g.In[gen] {
		c, isCall := e.Site.(ssa.CallInstruction)
		if !isCall || e.Escape || isTestSupport(pkgPathOfFunc(e.From)) {
			continue
		}
		n++
		a := c.Common().Args
		okFile, okLen := false, false
		if len(a) == 3 {
			for _, root := range g.paramRoots(a[1], 0) {
				if oc, i := extractOf(unwrapLocal(root)); oc != nil && i == 0 && calleeName(oc) == "(*os.Root).Open" {
					if _, fld := loadedField(oc.Common().Args[1]); fld == nameF {
						okFile = true
					}
				}
			}
			if sc, ok := stripConv(a[2]).(*ssa.Call); ok && sc.Common().IsInvoke() && sc.Common().Method.Name() == "Size" {
				okLen = true
			}
		}
		r.Cond(okFile && okLen, rule, funcKey(e.From)+" → generateAndSendSums(basis, size)", p.Pos(instrPos(c)), "the basis must be the destination file DestRoot.Open(f.Name) and the length its stat size")
	}
	if n == 0 {
		r.Unk(rule, "generateAndSendSums call", "-", "no production call of generateAndSendSums")
	}
}

func checkAllBlocksSummed(p *Prog, r *Report) {
	rule := "C16/ALL-BLOCKS-SUMMED"
	r.Rule(rule, "generateAndSendSums writes the header sh = SumSizesSqroot(fileLen) and then, in a loop bounded by that same sh.ChecksumCount, for every block the weak sum Checksum1(b) and the strong sum Checksum2(rt.Seed, b) of the same bytes b that io.ReadFull read from the basis", 4)
	gen := p.Func(pkgReceiver, "Transfer", "generateAndSendSums")
	cntF := p.Field(modPath, "SumHead", "ChecksumCount")
	if gen == nil || cntF == nil {
		r.Unk(rule, "generateAndSendSums", "-", "anchor not found")
		return
	}
	g := p.ModGraph()
	unit := g.unitFuncs(gen) // generateAndSendSums and the receiver functions it was split into
	var sizes *ssa.Call
	var headWrite, rf, c1, c2 ssa.CallInstruction
	for _, u := range unit {
		allCalls(u, func(c ssa.CallInstruction) {
			switch calleeName(c) {
			case pkgCommon + ".SumSizesSqroot":
				if call, ok := c.(*ssa.Call); ok {
					sizes = call
				}
			case "(*" + modPath + ".SumHead).WriteTo":
				headWrite = c
			case "io.ReadFull":
				rf = c
			case pkgChecksum + ".Checksum1":
				c1 = c
			case pkgChecksum + ".Checksum2":
				c2 = c
			}
		})
	}
	pos := p.Pos(gen.Pos())
	if sizes == nil || headWrite == nil || rf == nil || c1 == nil || c2 == nil {
		r.Bad(rule, "generateAndSendSums shape", pos, "SumSizesSqroot / SumHead.WriteTo / io.ReadFull / Checksum1 / Checksum2 are not all called here")
		return
	}
	// header written is the computed one
	hdrOK := false
	if a, ok := headWrite.Common().Args[0].(*ssa.Alloc); ok {
		for _, ref := range *a.Referrers() {
			if st, ok := ref.(*ssa.Store); ok && st.Addr == ssa.Value(a) && st.Val == ssa.Value(sizes) {
				hdrOK = true
			}
		}
	}
	r.Cond(hdrOK, rule, "header written is SumSizesSqroot(fileLen)", p.Pos(instrPos(headWrite)), "the SumHead that is sent is not the one the block loop is bounded by")
	// where an instruction of a split-out helper sits in the function that holds the loop
	host := rf.Parent()
	siteIn := func(c ssa.CallInstruction) []*ssa.BasicBlock {
		if c.Parent() == host {
			return []*ssa.BasicBlock{c.Block()}
		}
		var out []*ssa.BasicBlock
		allCalls(host, func(hc ssa.CallInstruction) {
			if hc.Common().StaticCallee() == c.Parent() {
				out = append(out, hc.Block())
			}
		})
		return out
	}
	loops := naturalLoops(host)
	ls := loopsContaining(loops, rf.Block())
	loopOK := false
	if len(ls) > 0 {
		li := ls[0]
		in := func(c ssa.CallInstruction) bool {
			bs := siteIn(c)
			if len(bs) == 0 {
				return false
			}
			for _, b := range bs {
				if !li.body[b] {
					return false
				}
			}
			return true
		}
		if in(c1) && in(c2) {
			for b := range li.body {
				if ifi, ok := lastInstr(b).(*ssa.If); ok {
					if bo, ok := ifi.Cond.(*ssa.BinOp); ok && bo.Op == token.LSS {
						if _, f := loadedField(stripConv(bo.Y)); f == cntF {
							loopOK = true
						}
					}
				}
			}
		}
	}
	r.Cond(loopOK, rule, "block loop bounded by sh.ChecksumCount", p.Pos(instrPos(rf)), "the read and the two checksums are not in one loop whose condition is i < sh.ChecksumCount")
	// same bytes: the checksum argument is the slice ReadFull filled, directly or as the helper's parameter
	buf := rf.Common().Args[1]
	isBuf := func(v ssa.Value) bool {
		if sameCore(v, buf) {
			return true
		}
		for _, root := range g.paramRoots(v, 0) {
			if sameCore(root, buf) {
				return true
			}
		}
		return false
	}
	same := isBuf(c1.Common().Args[0]) && isBuf(c2.Common().Args[1])
	r.Cond(same, rule, "both checksums cover the bytes just read", p.Pos(instrPos(c1)), "Checksum1/Checksum2 are not computed over the slice io.ReadFull filled")
	// both written
	wrote1, wrote2 := false, false
	for _, u := range unit {
		allCalls(u, func(c ssa.CallInstruction) {
			switch {
			case calleeName(c) == "(*"+pkgWire+".Conn).WriteInt32":
				if derivesFrom(stripConv(c.Common().Args[1]), c1.Value()) {
					wrote1 = true
				}
			case c.Common().IsInvoke() && c.Common().Method.Name() == "Write":
				a := c.Common().Args[0]
				if sl, ok := a.(*ssa.Slice); ok {
					a = sl.X
				}
				if a == c2.Value() {
					wrote2 = true
				}
			}
		})
	}
	r.Cond(wrote1 && wrote2, rule, "both checksums are written", p.Pos(instrPos(c2)), "the weak or the strong checksum of a block is not written to the connection")
}

func checkPerFileState(p *Prog, r *Report) {
	rule := "C16/PER-FILE-STATE"
	r.Rule(rule, "no search state survives from one file to the next: the lookup structures handed to hashSearch (sorted targets, tag table) are allocated (or cleared) in the same loop iteration after this file's checksums were received, and Transfer.lastMatch is reset before each file; every other Transfer field the search unit writes is reset likewise", 3)
	g := p.ModGraph()
	sf := anchorFunc(p, r, pkgSender, "Transfer", "SendFiles")
	hs := anchorFunc(p, r, pkgSender, "Transfer", "hashSearch")
	if sf == nil || hs == nil {
		return
	}
	// call of hashSearch inside the SendFiles unit
	var call ssa.CallInstruction
	var host *ssa.Function
	for _, fn := range g.unitFuncs(sf) {
		allCalls(fn, func(c ssa.CallInstruction) {
			if c.Common().StaticCallee() == hs {
				call, host = c, fn
			}
		})
	}
	if call == nil {
		r.Unk(rule, "hashSearch call", p.Pos(sf.Pos()), "SendFiles no longer calls hashSearch: re-read how the search is driven")
		return
	}
	loops := naturalLoops(host)
	ls := loopsContaining(loops, call.Block())
	var recvSums ssa.CallInstruction
	allCalls(host, func(c ssa.CallInstruction) {
		if sc := c.Common().StaticCallee(); sc != nil && sc.Name() == "receiveSums" {
			recvSums = c
		}
	})
	fresh := func(v ssa.Value) (bool, string) {
		v = unwrapLocal(v)
		var alloc ssa.Instruction
		switch x := v.(type) {
		case *ssa.MakeSlice:
			alloc = x
		case *ssa.MakeMap:
			alloc = x
		case *ssa.Slice: // slice of a fresh array / make
			if in, ok := unwrapLocal(x.X).(ssa.Instruction); ok {
				switch in.(type) {
				case *ssa.MakeSlice, *ssa.Alloc:
					alloc = in
				}
			}
		}
		if alloc == nil {
			// result of a helper that allocates it: every return of the helper yields a fresh make
			if c, idx := extractOf(v); c != nil || func() bool { _, ok := v.(*ssa.Call); return ok }() {
				call2 := c
				if call2 == nil {
					call2, idx = v.(*ssa.Call), 0
				}
				if h := call2.Common().StaticCallee(); h != nil && h.Blocks != nil && isModFunc(h) {
					allFresh, nRet := true, 0
					for _, hb := range h.Blocks {
						ret, ok := lastInstr(hb).(*ssa.Return)
						if !ok {
							continue
						}
						rs := retResults(ret)
						if idx >= len(rs) {
							allFresh = false
							continue
						}
						nRet++
						if !freshAllocValue(rs[idx]) && !isNilConst(rs[idx]) {
							allFresh = false
							if os.Getenv("RV_DEBUG") != "" {
								fmt.Fprintf(os.Stderr, "DEBUG fresh: %s result %d = %s (%T) unwrap=%T\n", h.Name(), idx, rs[idx], rs[idx], unwrapLocal(rs[idx]))
							}
						}
					}
					if allFresh && nRet > 0 {
						alloc = call2
					}
				}
			}
		}
		if alloc == nil {
			// cleared in this iteration?
			cleared := false
			allCalls(host, func(c ssa.CallInstruction) {
				if bi, ok := c.Common().Value.(*ssa.Builtin); ok && bi.Name() == "clear" && sameShape(c.Common().Args[0], v, 0) && InstrDominates(c, call) {
					if len(ls) == 0 || ls[len(ls)-1].body[c.Block()] {
						cleared = true
					}
				}
			})
			if cleared {
				return true, "cleared"
			}
			return false, "`" + v.String() + "` is not allocated for this file (a field or a value that outlives the iteration)"
		}
		if len(ls) > 0 && !ls[len(ls)-1].body[alloc.Block()] {
			return false, "allocated outside the per-file loop"
		}
		if !InstrDominates(alloc, call) {
			return false, "allocation does not dominate the search"
		}
		return true, "fresh"
	}
	args := call.Common().Args
	n := 0
	for i, a := range args {
		switch a.Type().Underlying().(type) {
		case *types.Slice, *types.Map:
		default:
			continue
		}
		n++
		ok, why := fresh(a)
		name := "arg"
		if i < len(hs.Params) {
			name = hs.Params[i].Name()
		}
		r.Cond(ok, rule, "hashSearch("+name+") is built for this file", p.Pos(instrPos(call)), why+": entries left over from an earlier file hide this file's blocks (or point at the wrong ones)")
	}
	if n == 0 {
		r.Unk(rule, "hashSearch lookup structures", p.Pos(instrPos(call)), "hashSearch takes no slice/map argument any more: the lookup structures live elsewhere, re-read")
	}
	// Transfer fields written by the search unit must be reset per file
	tf := p.Obj(pkgSender, "Transfer")
	written := map[*types.Var]string{}
	for _, fn := range g.unitFuncs(hs) {
		for _, b := range fn.Blocks {
			for _, in := range b.Instrs {
				st, ok := in.(*ssa.Store)
				if !ok {
					continue
				}
				base, f := fieldOfAddr(st.Addr)
				if f == nil || base == nil || tf == nil {
					continue
				}
				if pt, ok := base.Type().Underlying().(*types.Pointer); ok && types.Identical(pt.Elem(), tf.Type()) {
					if _, seen := written[f]; !seen {
						written[f] = p.Pos(st.Pos())
					}
				}
			}
		}
	}
	var wnames []*types.Var
	for f := range written {
		wnames = append(wnames, f)
	}
	sort.Slice(wnames, func(i, j int) bool { return wnames[i].Name() < wnames[j].Name() })
	for _, f := range wnames {
		reset := false
		for _, b := range host.Blocks {
			for _, in := range b.Instrs {
				st, ok := in.(*ssa.Store)
				if !ok {
					continue
				}
				if _, sfld := fieldOfAddr(st.Addr); sfld != f {
					continue
				}
				if InstrDominates(st, call) && (len(ls) == 0 || ls[len(ls)-1].body[st.Block()]) {
					if recvSums == nil || InstrDominates(recvSums, st) || true {
						reset = true
					}
				}
			}
		}
		r.Cond(reset, rule, "Transfer."+f.Name()+" is reset before each file", written[f], "the search writes Transfer."+f.Name()+" but the per-file loop does not reset it before calling hashSearch")
	}
}

// blockRefEmissions: calls matched(…, i) in the hashSearch unit whose last
// argument is not a negative constant.
func blockRefEmissions(p *Prog, g *ModGraph) (hs *ssa.Function, out []ssa.CallInstruction) {
	hs = p.Func(pkgSender, "Transfer", "hashSearch")
	matched := p.Func(pkgSender, "Transfer", "matched")
	if hs == nil || matched == nil {
		return hs, nil
	}
	for _, fn := range g.unitFuncs(hs) {
		allCalls(fn, func(c ssa.CallInstruction) {
			if c.Common().StaticCallee() != matched {
				return
			}
			a := c.Common().Args
			if k, ok := constInt(a[len(a)-1]); ok && k < 0 {
				return
			}
			out = append(out, c)
		})
	}
	return hs, out
}

func checkAllCandidates(p *Prog, r *Report) {
	rule := "C16/ALL-CANDIDATES"
	r.Rule(rule, "every candidate block with the window's tag is tried: each test that rejects a candidate (weak sum, length, strong sum) sits in a candidate loop nested inside the offset loop, and its rejecting edge stays inside that candidate loop (continue, not break): a collision with the first candidate must not hide a later one", 1)
	g := p.ModGraph()
	sumsF := p.Field(modPath, "SumHead", "Sums")
	_, ems := blockRefEmissions(p, g)
	if len(ems) == 0 || sumsF == nil {
		r.Unk(rule, "block-reference emission", "-", "no matched(…, i) emission found in the hashSearch unit")
		return
	}
	isSumsElem := func(v ssa.Value) bool {
		ld, ok := v.(*ssa.UnOp)
		if !ok || ld.Op != token.MUL {
			return false
		}
		base, f := fieldOfAddr(ld.X)
		if f == nil {
			return false
		}
		ia, ok := base.(*ssa.IndexAddr)
		return ok && isFieldLoad(ia.X, sumsF)
	}
	for _, m := range ems {
		fn := m.Parent()
		loops := naturalLoops(fn)
		n := 0
		for _, f := range FactsAtBlock(m.Block()) {
			gate := ""
			switch x := f.Cond.(type) {
			case *ssa.BinOp:
				if x.Op == token.EQL || x.Op == token.NEQ {
					if isSumsElem(x.X) || isSumsElem(x.Y) {
						gate = "comparison with a field of Sums[i]"
					}
				}
			case *ssa.Call:
				if calleeName(x) == "bytes.Equal" {
					gate = "strong checksum comparison"
				}
			}
			if gate == "" || f.If == nil {
				continue
			}
			n++
			b := f.If.Block()
			ls := loopsContaining(loops, b)
			key := funcKey(fn) + " rejection after " + gate
			if len(ls) == 0 || loopAdvancesPosition(ls[0], m) {
				r.Bad(rule, key, p.Pos(f.If.Pos()), "the test is not inside a candidate loop (a loop over the candidates that does not advance the scan position): only one candidate per offset is tried")
				continue
			}
			inner := ls[0]
			var rej *ssa.BasicBlock
			for _, s := range b.Succs {
				if s != m.Block() && !s.Dominates(m.Block()) {
					rej = s
				}
			}
			if rej == nil {
				r.Unk(rule, key, p.Pos(f.If.Pos()), "cannot tell the rejecting edge of this test")
				continue
			}
			r.Cond(inner.body[rej], rule, key, p.Pos(f.If.Pos()), "the rejecting edge leaves the candidate loop: the remaining candidates with the same tag are never compared, and the data goes out as literal bytes")
		}
		if n == 0 {
			r.Info("C16/ALL-CANDIDATES: no candidate test dominates the emission inside %s itself (tests moved into a helper); rule not evaluated for this shape", funcKey(fn))
			r.OK(rule, funcKey(fn)+" gates", p.Pos(instrPos(m)), "not evaluated: the candidate tests are not local to the emitting function")
		}
	}
}

func checkEveryOffset(p *Prog, r *Report) {
	rule := "C16/EVERY-OFFSET"
	r.Rule(rule, "the search visits every byte offset: the scan position (the offset handed to matched for a block reference) lives in one variable; outside the match path every assignment to it in the search loop is `position + 1`, and such an increment dominates every back edge of the offset loop", 1)
	g := p.ModGraph()
	_, ems := blockRefEmissions(p, g)
	if len(ems) == 0 {
		r.Unk(rule, "block-reference emission", "-", "no matched(…, i) emission found in the hashSearch unit")
		return
	}
	for _, m := range ems {
		fn := m.Parent()
		a := m.Common().Args
		if len(a) < 2 {
			continue
		}
		posArg := a[len(a)-2]
		ld, ok := posArg.(*ssa.UnOp)
		var cell *ssa.Alloc
		if ok && ld.Op == token.MUL {
			cell, _ = ld.X.(*ssa.Alloc)
		}
		if cell == nil {
			// not a captured/addressed local: the shape this rule knows is absent
			r.Info("C16/EVERY-OFFSET: the scan position in %s is not a local cell (`%s`); rule not evaluated for this shape", funcKey(fn), posArg.String())
			r.OK(rule, funcKey(fn)+" scan position", p.Pos(instrPos(m)), "not evaluated: the scan position is not a local cell")
			continue
		}
		loops := naturalLoops(fn)
		ls := loopsContaining(loops, m.Block())
		if len(ls) == 0 {
			r.Bad(rule, funcKey(fn)+" scan loop", p.Pos(instrPos(m)), "the emission is not inside a loop")
			continue
		}
		outer := ls[len(ls)-1]
		var incs []*ssa.Store
		okAll := true
		for _, ref := range *cell.Referrers() {
			st, ok := ref.(*ssa.Store)
			if !ok || st.Addr != ssa.Value(cell) || st.Parent() != fn || !outer.body[st.Block()] {
				continue
			}
			isInc := false
			if bo, ok := st.Val.(*ssa.BinOp); ok && bo.Op == token.ADD {
				for _, pr := range [][2]ssa.Value{{bo.X, bo.Y}, {bo.Y, bo.X}} {
					if k, isK := constInt(pr[1]); isK && k == 1 {
						if l2, ok := pr[0].(*ssa.UnOp); ok && l2.Op == token.MUL && l2.X == ssa.Value(cell) {
							isInc = true
						}
					}
				}
			}
			if isInc {
				incs = append(incs, st)
				continue
			}
			if InstrDominates(m, st) {
				continue // after a match: skip over the matched block
			}
			okAll = false
			r.Bad(rule, funcKey(fn)+" scan position assignment", p.Pos(st.Pos()), "the scan position is changed by something other than +1 outside the match path: offsets are skipped and matches that start there are never found")
		}
		domAll := len(incs) > 0
		for u := range outer.body {
			for _, s := range u.Succs {
				if s != outer.header {
					continue
				}
				d := false
				for _, inc := range incs {
					if inc.Block() == u || inc.Block().Dominates(u) {
						d = true
					}
				}
				if !d {
					domAll = false
				}
			}
		}
		if okAll {
			r.OK(rule, funcKey(fn)+" scan position assignment", p.Pos(instrPos(m)), "")
		}
		r.Cond(domAll, rule, funcKey(fn)+" every iteration advances by one", p.Pos(outer.header.Instrs[0].Pos()), "no `position+1` assignment dominates the back edge(s) of the offset loop")
	}
}

// loopAdvancesPosition: the loop body contains a `pos = pos + 1` store to the
// location (local cell or struct field) that holds the scan position handed
// to the emission m.
func loopAdvancesPosition(li *loopInfo, m ssa.CallInstruction) bool {
	a := m.Common().Args
	if len(a) < 2 {
		return false
	}
	ld, ok := a[len(a)-2].(*ssa.UnOp)
	if !ok || ld.Op != token.MUL {
		return false
	}
	sameLoc := func(x ssa.Value) bool {
		if x == ld.X {
			return true
		}
		_, f1 := fieldOfAddr(ld.X)
		_, f2 := fieldOfAddr(x)
		return f1 != nil && f1 == f2
	}
	for b := range li.body {
		for _, in := range b.Instrs {
			st, ok := in.(*ssa.Store)
			if !ok || !sameLoc(st.Addr) {
				continue
			}
			if bo, ok := st.Val.(*ssa.BinOp); ok && bo.Op == token.ADD {
				for _, pr := range [][2]ssa.Value{{bo.X, bo.Y}, {bo.Y, bo.X}} {
					if k, isK := constInt(pr[1]); isK && k == 1 {
						if l2, ok := pr[0].(*ssa.UnOp); ok && l2.Op == token.MUL && sameLoc(l2.X) {
							return true
						}
					}
				}
			}
		}
	}
	return false
}

// checkTagOrder — C16/TAG-ORDER: hashSearch walks the candidates of a tag as a
// contiguous run of the sorted targets, starting at the table's index; that
// only finds every candidate if the sort really orders by tag.
func checkTagOrder(p *Prog, r *Report) {
	rule := "C16/TAG-ORDER"
	r.Rule(rule, "the block targets are sorted by tag with a comparator that is an ordering of the two tags: sort.Slice/SliceStable with `a.tag < b.tag`, or slices.SortFunc/SortStableFunc with cmp.Compare(a.tag, b.tag) or a difference computed after widening to a signed type (a difference of the unsigned 16-bit tags wraps and never goes negative, leaving the list unsorted: candidates with equal tags are then not adjacent and all but the first are never compared)", 1)
	g := p.ModGraph()
	sf := p.Func(pkgSender, "Transfer", "SendFiles")
	tagF := p.Field(pkgSender, "target", "tag")
	if sf == nil || tagF == nil {
		r.Unk(rule, "anchors", "-", "SendFiles / target.tag not found")
		return
	}
	isTag := func(v ssa.Value) bool {
		_, f := loadedField(v)
		return f == tagF
	}
	n := 0
	for _, fn := range g.unitFuncs(sf) {
		allCalls(fn, func(c ssa.CallInstruction) {
			name := calleeName(c)
			var cmpFn *ssa.Function
			less := false
			switch name {
			case "sort.Slice", "sort.SliceStable":
				less = true
			case "slices.SortFunc", "slices.SortStableFunc":
			default:
				if sc := c.Common().StaticCallee(); sc == nil || sc.Origin() == nil || (sc.Origin().String() != "slices.SortFunc" && sc.Origin().String() != "slices.SortStableFunc") {
					return
				}
			}
			a := c.Common().Args
			if len(a) != 2 {
				return
			}
			// only sorts of []target
			if sl, ok := stripIface(a[0]).Type().Underlying().(*types.Slice); !ok || !types.Identical(sl.Elem(), tagF.Pkg().Scope().Lookup("target").Type()) {
				return
			}
			switch x := stripConv(a[1]).(type) {
			case *ssa.MakeClosure:
				cmpFn, _ = x.Fn.(*ssa.Function)
			case *ssa.Function:
				cmpFn = x
			}
			n++
			key := funcKey(fn) + " sorts the targets"
			if cmpFn == nil || cmpFn.Blocks == nil {
				r.Unk(rule, key, p.Pos(instrPos(c)), "comparator is not a function literal or named function")
				return
			}
			ok := true
			why := ""
			for _, b := range cmpFn.Blocks {
				ret, isRet := lastInstr(b).(*ssa.Return)
				if !isRet {
					continue
				}
				for _, leaf := range phiLeaves(retResults(ret)[0]) {
					if _, isK := constInt(leaf); isK {
						continue // -1/0/+1 (or true/false) chosen by comparisons: accepted when those comparisons are on tags (below)
					}
					if cst, isC := leaf.(*ssa.Const); isC && cst != nil {
						continue
					}
					switch y := leaf.(type) {
					case *ssa.BinOp:
						switch {
						case less && y.Op == token.LSS && isTag(y.X) && isTag(y.Y):
						case !less && y.Op == token.SUB:
							cx, okx := y.X.(*ssa.Convert)
							cy, oky := y.Y.(*ssa.Convert)
							if !(okx && oky && isTag(cx.X) && isTag(cy.X) && !isUnsigned(cx.Type()) && sizeofBasic(cx.Type().Underlying().(*types.Basic)) > 2) {
								ok, why = false, "the comparator returns a difference that is not computed in a wider signed type"
							}
						default:
							ok, why = false, "the comparator returns `"+y.String()+"`"
						}
					case *ssa.Call:
						if !less && calleeName(y) != "" && (y.Common().StaticCallee() != nil && y.Common().StaticCallee().Origin() != nil && y.Common().StaticCallee().Origin().String() == "cmp.Compare") && isTag(y.Common().Args[0]) && isTag(y.Common().Args[1]) {
							continue
						}
						ok, why = false, "the comparator returns `"+y.String()+"`"
					case *ssa.Convert:
						// int(a.tag - b.tag): difference taken in the narrow unsigned type
						ok, why = false, "the comparator converts `"+y.X.String()+"` after the subtraction: the difference of two uint16 tags wraps"
					default:
						ok, why = false, "the comparator returns `"+leaf.String()+"`"
					}
				}
			}
			r.Cond(ok, rule, key, p.Pos(instrPos(c)), why+": the targets are not ordered by tag, so the candidates of a tag are not a contiguous run")
		})
	}
	if n == 0 {
		r.Unk(rule, "sort of the targets", p.Pos(sf.Pos()), "no sort.Slice / slices.SortFunc over []target in the SendFiles unit: the table is built differently now, re-read")
	}
}

func stripIface(v ssa.Value) ssa.Value {
	if mi, ok := v.(*ssa.MakeInterface); ok {
		return mi.X
	}
	return v
}

// freshAllocValue: v is a make(...) of this function, possibly held in a local
// cell (named result, captured variable) all of whose stores are such makes.
func freshAllocValue(v ssa.Value) bool {
	switch x := unwrapLocal(v).(type) {
	case *ssa.MakeSlice, *ssa.MakeMap:
		return true
	case *ssa.UnOp:
		if x.Op != token.MUL {
			return false
		}
		a, ok := x.X.(*ssa.Alloc)
		if !ok {
			return false
		}
		n := 0
		for _, ref := range *a.Referrers() {
			st, ok := ref.(*ssa.Store)
			if !ok || st.Addr != ssa.Value(a) {
				continue
			}
			if l2, ok := st.Val.(*ssa.UnOp); ok && l2.Op == token.MUL && l2.X == ssa.Value(a) {
				continue
			}
			switch st.Val.(type) {
			case *ssa.MakeSlice, *ssa.MakeMap:
				n++
			default:
				if !isNilConst(st.Val) {
					return false
				}
			}
		}
		return n > 0
	}
	return false
}

// checkRollAfterReset — C16/ROLL-AFTER-RESET. In the offset loop the rolling
// checksum is either rolled (oldest byte out, next byte in) or recomputed from
// scratch for the window at the current position (readChunk). A recompute is
// always for the CURRENT position and must be followed by the roll before the
// position advances; a recompute placed after the roll of the same iteration
// leaves s1/s2 one byte behind the position for the rest of the file, and no
// block matches any more.
func checkRollAfterReset(p *Prog, r *Report) {
	rule := "C16/ROLL-AFTER-RESET"
	r.Rule(rule, "inside the offset loop of the search, a from-scratch recomputation of the rolling checksum (anything that reaches rsyncchecksum.Checksum1) is never dominated by the rolling update of the same iteration (the code that feeds rsyncchecksum.SignExtend of the outgoing/incoming byte into s1/s2): recompute, then roll, then advance — never roll, recompute, advance", 1)
	g := p.ModGraph()
	_, ems := blockRefEmissions(p, g)
	if len(ems) == 0 {
		r.Unk(rule, "block-reference emission", "-", "no matched(…, i) emission found in the hashSearch unit")
		return
	}
	reaches := func(fn *ssa.Function, target string, depth int) bool {
		var walk func(f *ssa.Function, d int) bool
		seen := map[*ssa.Function]bool{}
		walk = func(f *ssa.Function, d int) bool {
			if f == nil || f.Blocks == nil || seen[f] || d > depth {
				return false
			}
			seen[f] = true
			hit := false
			allCalls(f, func(c ssa.CallInstruction) {
				if calleeName(c) == target {
					hit = true
				}
				if sc := c.Common().StaticCallee(); sc != nil && pkgPathOfFunc(sc) == pkgSender && walk(sc, d+1) {
					hit = true
				}
				if mc, ok := c.Common().Value.(*ssa.MakeClosure); ok {
					if lit, ok := mc.Fn.(*ssa.Function); ok && walk(lit, d+1) {
						hit = true
					}
				}
				// a call through a local holding a closure
				if ld := unwrapLocal(c.Common().Value); ld != nil {
					if mc, ok := ld.(*ssa.MakeClosure); ok {
						if lit, ok := mc.Fn.(*ssa.Function); ok && walk(lit, d+1) {
							hit = true
						}
					}
				}
			})
			return hit
		}
		return walk(fn, 0)
	}
	siteReaches := func(c ssa.CallInstruction, target string) bool {
		if calleeName(c) == target {
			return true
		}
		if sc := c.Common().StaticCallee(); sc != nil && pkgPathOfFunc(sc) == pkgSender {
			return reaches(sc, target, 2)
		}
		v := unwrapLocal(c.Common().Value)
		if mc, ok := v.(*ssa.MakeClosure); ok {
			if lit, ok := mc.Fn.(*ssa.Function); ok {
				return reaches(lit, target, 2)
			}
		}
		return false
	}
	for _, m := range ems {
		fn := m.Parent()
		loops := naturalLoops(fn)
		ls := loopsContaining(loops, m.Block())
		if len(ls) == 0 {
			r.OK(rule, funcKey(fn)+" recompute precedes roll", p.Pos(instrPos(m)), "not evaluated: the emission is not inside the offset loop of its own function")
			continue
		}
		outer := ls[len(ls)-1]
		var rolls, resets []ssa.CallInstruction
		allCalls(fn, func(c ssa.CallInstruction) {
			if !outer.body[c.Block()] {
				return
			}
			isReset := siteReaches(c, pkgChecksum+".Checksum1")
			isRoll := siteReaches(c, pkgChecksum+".SignExtend") && !isReset
			if isReset {
				resets = append(resets, c)
			} else if isRoll {
				rolls = append(rolls, c)
			}
		})
		if len(rolls) == 0 || len(resets) == 0 {
			r.Info("C16/ROLL-AFTER-RESET: roll (%d) or recompute (%d) sites not found inside the offset loop of %s; rule not evaluated for this shape", len(rolls), len(resets), funcKey(fn))
			r.OK(rule, funcKey(fn)+" recompute precedes roll", p.Pos(instrPos(m)), "not evaluated: roll/recompute sites not recognised")
			continue
		}
		bad := ""
		for _, rs := range resets {
			for _, ro := range rolls {
				if InstrDominates(ro, rs) {
					bad = p.Pos(instrPos(rs))
				}
			}
		}
		r.Cond(bad == "", rule, funcKey(fn)+" recompute precedes roll", p.Pos(instrPos(m)), "the rolling checksum is recomputed from scratch at "+bad+" after it was already rolled in this iteration: the position then advances without a roll and s1/s2 stay one byte behind — nothing matches for the rest of the file")
	}
}
