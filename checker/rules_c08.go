package main

import (
	"go/types"
	"sort"
	"strings"

	"golang.org/x/tools/go/ssa"
)

func init() { register("C08", checkC08) }

// sessionEntries returns the three entry sets of DESIGN A1.
func sessionEntries(p *Prog, r *Report) (server, client, sshd []*ssa.Function) {
	for _, n := range []string{"HandleDaemonConn", "HandleConnArgs", "InternalHandleConn", "Serve"} {
		if f := anchorFunc(p, r, pkgRsyncd, "Server", n); f != nil {
			server = append(server, f)
		}
	}
	for _, n := range []string{"ClientRun", "StartInbandExchange"} {
		if f := anchorFunc(p, r, pkgMaincmd, "", n); f != nil {
			client = append(client, f)
		}
	}
	if f := anchorFunc(p, r, pkgAnonssh, "session", "request"); f != nil {
		sshd = append(sshd, f)
	}
	if f := anchorFunc(p, r, pkgAnonssh, "anonssh", "handleChannel"); f != nil {
		sshd = append(sshd, f)
	}
	sshd = append(sshd, sshMainLiterals(p)...)
	return
}

// sshMainLiterals: function values passed as the `main` argument of
// anonssh.Serve in production packages.
func sshMainLiterals(p *Prog) []*ssa.Function {
	serve := p.Func(pkgAnonssh, "", "Serve")
	var out []*ssa.Function
	if serve == nil {
		return nil
	}
	for _, fn := range p.ModFuncs {
		if isTestSupport(pkgPathOfFunc(fn)) {
			continue
		}
		allCalls(fn, func(c ssa.CallInstruction) {
			if c.Common().StaticCallee() != serve {
				return
			}
			a := c.Common().Args
			switch x := stripConv(a[len(a)-1]).(type) {
			case *ssa.MakeClosure:
				if f, ok := x.Fn.(*ssa.Function); ok {
					out = append(out, f)
				}
			case *ssa.Function:
				out = append(out, x)
			}
		})
	}
	return out
}

func terminatorLabel(c ssa.CallInstruction) (string, bool) {
	f := calleeOf(c)
	if f == nil || f.Pkg() == nil {
		return "", false
	}
	n := f.FullName()
	switch {
	case n == "os.Exit", n == "syscall.Exit", n == "runtime.Goexit":
		return n, true
	case f.Pkg().Path() == "log" && (strings.HasPrefix(f.Name(), "Fatal") || strings.HasPrefix(f.Name(), "Panic")):
		return shortKey(n), true
	}
	return "", false
}

func checkC08(p *Prog, r *Report) {
	g := p.ModGraph()
	server, client, sshd := sessionEntries(p, r)

	r.Rule("C08/NO-TERMINATOR", "from the session entry points (daemon: HandleDaemonConn/HandleConnArgs/InternalHandleConn/Serve; client: ClientRun/StartInbandExchange; SSH: request/handleChannel and the exec callbacks given to anonssh.Serve) no module function reachable in the escape-edge VTA call graph calls os.Exit, log.Fatal*/Panic*, syscall.Exit, runtime.Goexit or contains an explicit panic(...)", 3)
	type hit struct {
		fn    *ssa.Function
		pos   string
		label string
		sets  []string
		chain string
	}
	hits := map[string]*hit{}
	scan := func(setName string, entries []*ssa.Function) int {
		reach := g.Reach(entries, nil)
		n := 0
		for fn := range reach {
			if !isModFunc(fn) || fn.Blocks == nil || isTestSupport(pkgPathOfFunc(fn)) {
				continue
			}
			n++
			r.FuncsSeen[funcKey(fn)] = true
			ord := map[string]int{}
			for _, b := range fn.Blocks {
				for _, in := range b.Instrs {
					label := ""
					switch x := in.(type) {
					case ssa.CallInstruction:
						if l, ok := terminatorLabel(x); ok {
							label = l
						}
					case *ssa.Panic:
						if x.Pos().IsValid() {
							label = "panic(…)"
						}
					}
					if label == "" {
						continue
					}
					ord[label]++
					k := funcKey(fn) + " → " + label + " @" + string(rune('0'+ord[label]))
					h := hits[k]
					if h == nil {
						h = &hit{fn: fn, pos: p.Pos(instrPos(in)), label: label, chain: g.Chain(reach, fn)}
						hits[k] = h
					}
					h.sets = append(h.sets, setName)
				}
			}
		}
		return n
	}
	n1 := scan("daemon", server)
	n2 := scan("client", client)
	n3 := scan("ssh", sshd)
	r.Info("C08/NO-TERMINATOR reachable module functions: daemon=%d client=%d ssh=%d [%s]", n1, n2, n3, p.Config)
	var keys []string
	for k := range hits {
		keys = append(keys, k)
	}
	sort.Strings(keys)
	bufOK, bufChecked := false, false
	for _, k := range keys {
		h := hits[k]
		// The "not enough buffer space" panic of the demultiplexer is dead code
		// exactly when C17/BUFFER and C17/LENGTH-GATE hold (frame ≤ maxMessageSize
		// ≤ buffer handed to Read): decide that here instead of reporting it.
		if h.label == "panic(…)" && pkgPathOfFunc(h.fn) == pkgWire && h.fn.Name() == "Read" {
			if !bufChecked {
				bufChecked = true
				bufOK = bufferInvariant(p, func(bool, string, string, string) {}) && readMsgBounded(p)
			}
			if bufOK {
				r.OK("C08/NO-TERMINATOR", funcKey(h.fn)+" → "+h.label, h.pos, "discharged by C17/BUFFER + C17/LENGTH-GATE: every frame is ≤ maxMessageSize and Read is only called with a buffer ≥ maxMessageSize")
				continue
			}
		}
		r.Bad("C08/NO-TERMINATOR", funcKey(h.fn)+" → "+h.label, h.pos, "process-terminating call reachable from session entry set(s) "+strings.Join(h.sets, ",")+": "+h.chain)
	}
	r.OK("C08/NO-TERMINATOR", "daemon entry set scanned", "-", "")
	r.OK("C08/NO-TERMINATOR", "client entry set scanned", "-", "")
	r.OK("C08/NO-TERMINATOR", "ssh entry set scanned", "-", "")

	// ---- SESSION-ISOLATION ----
	r.Rule("C08/SESSION-ISOLATION", "in (*Server).Serve each accepted connection is handled in its own goroutine whose body only logs HandleDaemonConn's error; the accept loop returns only on Accept errors", 2)
	serve := anchorFunc(p, r, pkgRsyncd, "Server", "Serve")
	hd := anchorFunc(p, r, pkgRsyncd, "Server", "HandleDaemonConn")
	if serve != nil && hd != nil {
		// HandleDaemonConn is called only from a function that Serve starts with
		// `go` — a literal, or a method/function of the package (go s.serveConn(…))
		// — and that has no results
		inGo := false
		var bodies []*ssa.Function
		for _, b := range serve.Blocks {
			for _, in := range b.Instrs {
				gi, ok := in.(*ssa.Go)
				if !ok {
					continue
				}
				if mc, ok := gi.Common().Value.(*ssa.MakeClosure); ok {
					if lit, ok := mc.Fn.(*ssa.Function); ok {
						bodies = append(bodies, lit)
					}
				} else if sc := gi.Common().StaticCallee(); sc != nil && sc.Blocks != nil {
					bodies = append(bodies, sc)
				}
			}
		}
		for _, body := range bodies {
			calls := false
			allCalls(body, func(c ssa.CallInstruction) {
				if c.Common().StaticCallee() == hd {
					calls = true
				}
			})
			if calls {
				inGo = body.Signature.Results().Len() == 0
			}
		}
		// … and from nowhere else in Serve itself
		allCalls(serve, func(c ssa.CallInstruction) {
			if c.Common().StaticCallee() == hd {
				inGo = false
			}
		})
		r.Cond(inGo, "C08/SESSION-ISOLATION", "Serve handles each connection in a `go` literal without results", p.Pos(serve.Pos()), "connection errors must not be able to reach the accept loop")
		// every Return of Serve is dominated by Accept's error being non-nil
		var acc *ssa.Call
		allCalls(serve, func(c ssa.CallInstruction) {
			if call, ok := c.(*ssa.Call); ok && c.Common().IsInvoke() && c.Common().Method.Name() == "Accept" {
				acc = call
			}
		})
		okRet := acc != nil
		if acc != nil {
			var accErr ssa.Value
			for _, ref := range *acc.Referrers() {
				if e, ok := ref.(*ssa.Extract); ok && e.Index == 1 {
					accErr = e
				}
			}
			for _, b := range serve.Blocks {
				if ret, ok := lastInstr(b).(*ssa.Return); ok {
					known, isNil := errIsNilAt(ret, accErr)
					if !known || isNil {
						okRet = false
					}
				}
			}
		}
		r.Cond(okRet, "C08/SESSION-ISOLATION", "Serve returns only after an Accept error", p.Pos(serve.Pos()), "a return of the accept loop is reachable without an Accept error")
	}

	checkTaintedBounds(p, r, append(append(server, client...), sshd...))
	checkEnvStreams(p, r)
	checkListNoNil(p, r)
	checkSumsIndex(p, r)
	checkConstIndex(p, r, append(append(server, client...), sshd...))

	r.Assume("foreign code calls only function values and interface methods it was handed; no reflection/unsafe/cgo in module code")
	r.Uncovered("nil dereferences, arithmetic-dependent index panics, type-assertion panics, panics inside dependencies, memory exhaustion (excluded by the statement), whether the error is reported to the peer")
	_ = types.Typ
}

// readMsgBounded: the payload allocation in ReadMsg is dominated by a bound
// ≤ maxMessageSize (same test as C17/LENGTH-GATE).
func readMsgBounded(p *Prog) bool {
	rm := p.Func(pkgWire, "MultiplexReader", "ReadMsg")
	maxMsg, ok := scopeConstInt(p, pkgWire, "maxMessageSize")
	if rm == nil || !ok {
		return false
	}
	n, good := 0, true
	for _, b := range rm.Blocks {
		for _, in := range b.Instrs {
			mk, isMk := in.(*ssa.MakeSlice)
			if !isMk {
				continue
			}
			n++
			gate := false
			for _, f := range cmpFactsFor(mk.Len, in) {
				if k, isK := constInt(f.other); isK && k <= maxMsg && (f.op.String() == "<=" || f.op.String() == "<") {
					gate = true
				}
			}
			if !gate {
				good = false
			}
		}
	}
	return n > 0 && good
}
