package main

import (
	"encoding/json"
	"fmt"
	"os"
	"path/filepath"
	"sort"
	"strings"
	"time"
)

type Verdict string

const (
	Discharged Verdict = "discharged"
	Violated   Verdict = "violated"
	Undecided  Verdict = "undecided"
)

// Obligation is one (rule, construct) instance. Key never contains a line
// number: rule + enclosing function + resolved callee/field + ordinal.
type Obligation struct {
	Rule    string  `json:"rule"`
	Key     string  `json:"key"`
	Pos     string  `json:"pos"`
	Verdict Verdict `json:"verdict"`
	Detail  string  `json:"detail,omitempty"`
	Known   bool    `json:"known_finding,omitempty"`
}

type RuleInfo struct {
	ID    string `json:"id"`
	Text  string `json:"text"`
	Floor int    `json:"floor"`
	Count int    `json:"count"`
}

// Report collects everything one property check produces.
type Report struct {
	Prop        string
	Tier        string
	Configs     []string
	Rules       []*RuleInfo
	Obls        []*Obligation
	Infos       []string
	Assumptions []string
	Trusted     []string
	NotCovered  []string
	Fatal       []string // anchor unresolved, floor missed, etc.
	FuncsSeen   map[string]bool
	CGNodes     int
	ordinals    map[string]int
	curConfig   string
}

func NewReport(prop, tier string) *Report {
	return &Report{Prop: prop, Tier: tier, FuncsSeen: map[string]bool{}, ordinals: map[string]int{}}
}

// Rule declares a rule (idempotent across configs) and returns its info.
func (r *Report) Rule(id, text string, floor int) *RuleInfo {
	for _, ri := range r.Rules {
		if ri.ID == id {
			return ri
		}
	}
	ri := &RuleInfo{ID: id, Text: text, Floor: floor}
	r.Rules = append(r.Rules, ri)
	return ri
}

// Add records an obligation. baseKey is rule-local (function → construct);
// an ordinal is appended so that two identical constructs in one function get
// different keys.
func (r *Report) Add(rule, baseKey, pos string, v Verdict, detail string) *Obligation {
	k := r.curConfig + "|" + rule + "|" + baseKey
	r.ordinals[k]++
	key := fmt.Sprintf("%s #%d", baseKey, r.ordinals[k])
	// In multi-config runs the same obligation is produced per config;
	// keep one record per (rule,key) with the worst verdict.
	for _, o := range r.Obls {
		if o.Rule == rule && o.Key == key {
			if rank(v) > rank(o.Verdict) {
				o.Verdict, o.Detail, o.Pos = v, detail+" ["+r.curConfig+"]", pos
			}
			return o
		}
	}
	o := &Obligation{Rule: rule, Key: key, Pos: pos, Verdict: v, Detail: detail}
	r.Obls = append(r.Obls, o)
	for _, ri := range r.Rules {
		if ri.ID == rule {
			ri.Count++
		}
	}
	return o
}

func rank(v Verdict) int {
	switch v {
	case Discharged:
		return 0
	case Undecided:
		return 1
	}
	return 2
}

func (r *Report) OK(rule, key, pos, detail string)  { r.Add(rule, key, pos, Discharged, detail) }
func (r *Report) Bad(rule, key, pos, detail string) { r.Add(rule, key, pos, Violated, detail) }
func (r *Report) Unk(rule, key, pos, detail string) { r.Add(rule, key, pos, Undecided, detail) }
func (r *Report) Info(format string, a ...any)      { r.Infos = append(r.Infos, fmt.Sprintf(format, a...)) }
func (r *Report) Fatalf(format string, a ...any) {
	r.Fatal = append(r.Fatal, fmt.Sprintf(format, a...))
}
func (r *Report) Assume(s string)    { r.Assumptions = appendUniq(r.Assumptions, s) }
func (r *Report) Trust(s string)     { r.Trusted = appendUniq(r.Trusted, s) }
func (r *Report) Uncovered(s string) { r.NotCovered = appendUniq(r.NotCovered, s) }
func (r *Report) Cond(ok bool, rule, key, pos, detail string) {
	if ok {
		r.OK(rule, key, pos, "")
	} else {
		r.Bad(rule, key, pos, detail)
	}
}

func appendUniq(l []string, s string) []string {
	for _, x := range l {
		if x == s {
			return l
		}
	}
	return append(l, s)
}

// ---- known findings ----

type Finding struct {
	Property string `json:"property"`
	Rule     string `json:"rule"`
	Key      string `json:"key"`
	Status   string `json:"status"` // "known" | "fixed"
	What     string `json:"what"`
	Input    string `json:"input,omitempty"`
	Repro    string `json:"reproduced_by,omitempty"`
	Commit   string `json:"commit,omitempty"`
}

func loadFindings(path string) ([]Finding, error) {
	b, err := os.ReadFile(path)
	if err != nil {
		if os.IsNotExist(err) {
			return nil, nil
		}
		return nil, err
	}
	var fs []Finding
	if err := json.Unmarshal(b, &fs); err != nil {
		return nil, fmt.Errorf("%s: %v", path, err)
	}
	return fs, nil
}

// ---- finishing: evidence + exit code ----

func (r *Report) Finish(verifDir string, start time.Time) int {
	findings, err := loadFindings(filepath.Join(verifDir, "known_findings.json"))
	if err != nil {
		r.Fatalf("known findings: %v", err)
	}
	// floors
	for _, ri := range r.Rules {
		if ri.Count < ri.Floor {
			r.Fatalf("rule %s matched %d instances, below the floor %d confirmed by reading (vacuous or anchors moved)", ri.ID, ri.Count, ri.Floor)
		}
	}
	sort.SliceStable(r.Obls, func(i, j int) bool {
		if r.Obls[i].Rule != r.Obls[j].Rule {
			return r.Obls[i].Rule < r.Obls[j].Rule
		}
		return r.Obls[i].Key < r.Obls[j].Key
	})
	var viol []*Obligation
	nDis, nKnown := 0, 0
	var knownLines []string
	for _, o := range r.Obls {
		if o.Verdict == Discharged {
			nDis++
			continue
		}
		matched := false
		for _, f := range findings {
			if f.Status == "known" && f.Property == r.Prop && f.Rule == o.Rule && f.Key == o.Key && o.Verdict == Violated {
				matched = true
				knownLines = append(knownLines, fmt.Sprintf("KNOWN-FINDING: property=%s %s %s at %s — %s", r.Prop, o.Rule, o.Key, o.Pos, f.What))
			}
		}
		if matched {
			o.Known = true
			nKnown++
		} else {
			viol = append(viol, o)
		}
	}
	for _, l := range knownLines {
		fmt.Println(l)
	}
	for _, s := range r.Infos {
		fmt.Println("INFO " + s)
	}
	exit := 0
	violPath := filepath.Join(verifDir, "evidence", r.Prop+".violation.txt")
	os.Remove(violPath)
	if len(viol) > 0 || len(r.Fatal) > 0 {
		exit = 1
		var sb strings.Builder
		for _, f := range r.Fatal {
			fmt.Fprintf(&sb, "CHECK-FAILURE %s\n", f)
		}
		for _, o := range viol {
			fmt.Fprintf(&sb, "%s rule=%s key=%q at %s: %s\n", strings.ToUpper(string(o.Verdict)), o.Rule, o.Key, o.Pos, o.Detail)
		}
		os.MkdirAll(filepath.Dir(violPath), 0o755)
		os.WriteFile(violPath, []byte(sb.String()), 0o644)
		fmt.Print(sb.String())
		fmt.Printf("VIOLATION property=%s replay=%s\n", r.Prop, violPath)
	}
	// evidence
	type sample struct {
		Rule, Key, Pos string
		Verdict        Verdict
		Detail         string `json:",omitempty"`
		Known          bool   `json:",omitempty"`
	}
	var samples []any
	for _, o := range r.Obls {
		samples = append(samples, o)
	}
	var expl strings.Builder
	expl.WriteString("Static analysis of /repo's current working tree (type-checked AST, go/ssa dominators, VTA call graph). Decides the structural clauses named by the rules below; it does not decide the behaviour itself. Rules: ")
	for _, ri := range r.Rules {
		fmt.Fprintf(&expl, "[%s] %s (instances=%d, floor=%d) ", ri.ID, ri.Text, ri.Count, ri.Floor)
	}
	if len(r.NotCovered) > 0 {
		expl.WriteString(" NOT COVERED: " + strings.Join(r.NotCovered, "; "))
	}
	var funcs []string
	for f := range r.FuncsSeen {
		funcs = append(funcs, f)
	}
	sort.Strings(funcs)
	nn := func(l []string) []string {
		if l == nil {
			return []string{}
		}
		return l
	}
	r.Assumptions, r.Trusted, r.Infos, r.Fatal, r.NotCovered = nn(r.Assumptions), nn(r.Trusted), nn(r.Infos), nn(r.Fatal), nn(r.NotCovered)
	if samples == nil {
		samples = []any{}
	}
	seed := 0
	fmt.Sscan(os.Getenv("VERIF_SEED"), &seed)
	var sens any = []any{}
	if b, err := os.ReadFile(filepath.Join(verifDir, "sensitivity", r.Prop+".json")); err == nil {
		var parsed []any
		if json.Unmarshal(b, &parsed) == nil {
			sens = parsed
		}
	}
	ev := map[string]any{
		"property_id": r.Prop,
		"tier":        r.Tier,
		"seed":        seed,
		"level":       "other",
		"coverage": map[string]any{
			"explanation":             expl.String(),
			"obligations":             len(r.Obls),
			"discharged":              nDis,
			"known_findings_matched":  nKnown,
			"samples":                 samples,
			"rules":                   r.Rules,
			"configs":                 r.Configs,
			"functions_analysed":      len(funcs),
			"functions":               funcs,
			"call_graph_nodes":        r.CGNodes,
			"trusted_base":            r.Trusted,
			"checker_cmd":             fmt.Sprintf("./check.sh %s %s", r.Prop, r.Tier),
			"exhaustive":              true,
			"info":                    r.Infos,
			"check_failures":          r.Fatal,
			"seeded_changes_analysed": sens,
		},
		"assumptions": r.Assumptions,
		"wall_s":      time.Since(start).Seconds(),
		"violations":  len(viol) + len(r.Fatal),
	}
	b, _ := json.MarshalIndent(ev, "", " ")
	os.MkdirAll(filepath.Join(verifDir, "evidence"), 0o755)
	if err := os.WriteFile(filepath.Join(verifDir, "evidence", r.Prop+".json"), append(b, '\n'), 0o644); err != nil {
		fmt.Println("cannot write evidence:", err)
		return 2
	}
	fmt.Printf("property=%s tier=%s configs=%v obligations=%d discharged=%d known=%d violated=%d check_failures=%d wall=%.1fs\n",
		r.Prop, r.Tier, r.Configs, len(r.Obls), nDis, nKnown, len(viol), len(r.Fatal), time.Since(start).Seconds())
	return exit
}
