package main

import (
	"go/token"
	"strings"

	"golang.org/x/tools/go/ssa"
)

func init() { register("C04", checkC04) }

// content-creating *os.Root methods (anything that makes bytes or a link
// appear under a final name without the temp-file + rename protocol)
var rootContentCreators = map[string]bool{"Create": true, "WriteFile": true, "Rename": true, "Link": true, "Symlink": true}

func checkC04(p *Prog, r *Report) {
	g := p.ModGraph()
	recvFuncs := p.FuncsInPkg(pkgReceiver)
	reach := g.Reach(recvFuncs, nil)
	var scopeFuncs []*ssa.Function
	for fn := range reach {
		if isModFunc(fn) && fn.Blocks != nil && !isTestSupport(pkgPathOfFunc(fn)) {
			scopeFuncs = append(scopeFuncs, fn)
			r.FuncsSeen[funcKey(fn)] = true
		}
	}

	// ---- ONLY-PENDING ----
	r.Rule("C04/ONLY-PENDING", "file content reaches the destination only through renameio.NewPendingFile(name, WithRoot(root)) with exactly that option: no function reachable from package receiver calls a content-creating *os.Root method (Create, WriteFile, Rename, Link, Symlink, OpenFile with write flags), an ambient os/ioutil writer, or a non-root renameio entry point; *os.File write methods are not called", 2)
	nPending := 0
	for _, fn := range scopeFuncs {
		allCalls(fn, func(c ssa.CallInstruction) {
			f := calleeOf(c)
			if f == nil || f.Pkg() == nil {
				return
			}
			rp, rtn := recvTypeName(f)
			key := funcKey(fn) + " → " + shortKey(f.FullName())
			pos := p.Pos(instrPos(c))
			switch {
			case rp == "os" && rtn == "Root" && rootContentCreators[f.Name()]:
				r.Bad("C04/ONLY-PENDING", key, pos, "creates content/links directly under the final name (not atomic)")
			case rp == "os" && rtn == "Root" && f.Name() == "OpenFile":
				isConst, w := openFlagsWrite(c, 2)
				if !isConst {
					r.Unk("C04/ONLY-PENDING", key, pos, "OpenFile flags are not a compile-time constant")
				} else {
					r.Cond(!w, "C04/ONLY-PENDING", key, pos, "OpenFile with write/create flags writes in place")
				}
			case rp == "os" && rtn == "File" && fileMutators[f.Name()]:
				r.Bad("C04/ONLY-PENDING", key, pos, "direct write to an *os.File")
			case f.Pkg().Path() == "os" && rtn == "" && (osMutators[f.Name()] || f.Name() == "OpenFile") && (f.Name() == "Create" || f.Name() == "WriteFile" || f.Name() == "Rename" || f.Name() == "Link" || f.Name() == "Symlink" || f.Name() == "OpenFile" || f.Name() == "CreateTemp" || f.Name() == "Truncate" || f.Name() == "CopyFS"):
				r.Bad("C04/ONLY-PENDING", key, pos, "ambient content-creating call")
			case f.Pkg().Path() == pkgRenameio && rtn == "":
				switch f.Name() {
				case "NewPendingFile":
					nPending++
					opts := optionNames(c)
					ok := len(opts) == 1 && opts[0] == pkgRenameio+".WithRoot"
					r.Cond(ok, "C04/ONLY-PENDING", key, pos, "options must be exactly [WithRoot]; got "+strings.Join(opts, ","))
				case "SymlinkRoot", "WithRoot":
					// SymlinkRoot: see C04/SYMLINK-ATOMIC
				default:
					if !strings.HasPrefix(f.Name(), "With") {
						r.Bad("C04/ONLY-PENDING", key, pos, "non-root renameio entry point")
					} else {
						r.Bad("C04/ONLY-PENDING", key, pos, "unexpected renameio option")
					}
				}
			}
		})
	}
	if nPending == 0 {
		r.Fatalf("C04/ONLY-PENDING: no renameio.NewPendingFile call reachable from the receiver; re-read how content is written")
	}

	// ---- CLEANUP / RENAME-LAST ----
	r.Rule("C04/CLEANUP", "in every function that obtains a pending file, a `defer out.Cleanup()` for that file dominates every return except the creation-error return", 1)
	r.Rule("C04/RENAME-LAST", "no Write may follow CloseAtomicallyReplace on the same pending file", 1)
	for _, fn := range recvFuncs {
		allCalls(fn, func(c ssa.CallInstruction) {
			call, ok := c.(*ssa.Call)
			if !ok {
				return
			}
			sc := call.Common().StaticCallee()
			isCreate := calleeName(c) == pkgRenameio+".NewPendingFile" || (sc != nil && pkgPathOfFunc(sc) == pkgReceiver && sc.Name() == "newPendingFile")
			if !isCreate || fn.Name() == "newPendingFile" {
				return
			}
			var out, cerr ssa.Value
			for _, ref := range *call.Referrers() {
				if e, ok := ref.(*ssa.Extract); ok {
					if e.Index == 0 {
						out = e
					} else {
						cerr = e
					}
				}
			}
			key := funcKey(fn) + " pending file"
			if out == nil || cerr == nil {
				r.Bad("C04/CLEANUP", key, p.Pos(call.Pos()), "cannot identify the pending file / error results")
				return
			}
			// the variable may live in a cell (captured by a function literal)
			isOutVal := func(v ssa.Value) bool { return v == out || unwrapLocal(v) == out }
			var def *ssa.Defer
			allCalls(fn, func(d ssa.CallInstruction) {
				dd, ok := d.(*ssa.Defer)
				if !ok {
					return
				}
				if calleeName(dd) == fnCleanup && isOutVal(dd.Common().Args[0]) {
					def = dd
					return
				}
				// defer func() { … out.Cleanup() … }(): the literal calls Cleanup on the
				// captured variable on every path to its returns
				mc, isMC := dd.Common().Value.(*ssa.MakeClosure)
				if !isMC {
					return
				}
				lit := mc.Fn.(*ssa.Function)
				for j, bv := range mc.Bindings {
					cell, isCell := bv.(*ssa.Alloc)
					if !isCell || unwrapLocal(cellLoadOf(cell)) != out {
						continue
					}
					allCalls(lit, func(cc ssa.CallInstruction) {
						if calleeName(cc) != fnCleanup {
							return
						}
						ld, isLd := cc.Common().Args[0].(*ssa.UnOp)
						if !isLd || ld.Op != token.MUL || ld.X != ssa.Value(lit.FreeVars[j]) {
							return
						}
						all := true
						for _, lb := range lit.Blocks {
							if ret, isRet := lastInstr(lb).(*ssa.Return); isRet && !InstrDominates(cc, ret) {
								all = false
							}
						}
						if all {
							def = dd
						}
					})
				}
			})
			if def == nil {
				r.Bad("C04/CLEANUP", key, p.Pos(call.Pos()), "no deferred Cleanup() of the pending file: temp files would survive an error return")
			} else {
				ok := true
				why := ""
				after := reachableFrom(call.Block())
				for _, b := range fn.Blocks {
					ret, isRet := lastInstr(b).(*ssa.Return)
					if !isRet || !after[b] {
						continue
					}
					if InstrDominates(def, ret) {
						continue
					}
					if known, isNil := errIsNilAt(ret, cerr); known && !isNil {
						continue // creation failed: nothing to clean
					}
					ok = false
					why = "return at " + p.Pos(ret.Pos()) + " is reachable after creation without the deferred Cleanup"
				}
				r.Cond(ok, "C04/CLEANUP", key, p.Pos(def.Pos()), why)
			}
			// RENAME-LAST
			allCalls(fn, func(cl ssa.CallInstruction) {
				if calleeName(cl) != fnCloseReplace || !isOutVal(cl.Common().Args[0]) {
					return
				}
				bad := ""
				allCalls(fn, func(w ssa.CallInstruction) {
					isWrite := (w.Common().IsInvoke() && w.Common().Method.Name() == "Write")
					if f := calleeOf(w); f != nil {
						if rp, rtn := recvTypeName(f); rp == "os" && rtn == "File" && fileMutators[f.Name()] {
							isWrite = true
						}
					}
					if isWrite && mayFollow(cl, w) {
						bad = p.Pos(instrPos(w))
					}
				})
				r.Cond(bad == "", "C04/RENAME-LAST", funcKey(fn)+" after CloseAtomicallyReplace", p.Pos(instrPos(cl)), "a write at "+bad+" may follow the atomic replace")
			})
		})
	}

	// ---- SYMLINK-ATOMIC ----
	r.Rule("C04/SYMLINK-ATOMIC", "symlinks are created only by renameio.SymlinkRoot (temp link + rename); (*os.Root).Symlink / os.Symlink are not reachable from the receiver", 1)
	nSym := 0
	for _, fn := range scopeFuncs {
		allCalls(fn, func(c ssa.CallInstruction) {
			switch calleeName(c) {
			case pkgRenameio + ".SymlinkRoot":
				nSym++
				r.OK("C04/SYMLINK-ATOMIC", funcKey(fn)+" → renameio.SymlinkRoot", p.Pos(instrPos(c)), "")
			case "(*os.Root).Symlink", "os.Symlink", pkgRenameio + ".Symlink", pkgUnix + ".Symlink", pkgUnix + ".Symlinkat", "syscall.Symlink":
				r.Bad("C04/SYMLINK-ATOMIC", funcKey(fn)+" → "+calleeName(c), p.Pos(instrPos(c)), "non-atomic (remove + symlink) or unrooted symlink creation")
			}
		})
	}

	// ---- NO-UNLINK-BEFORE-REPLACE ----
	r.Rule("C04/NO-UNLINK-BEFORE-REPLACE", "outside the --delete walk the receiver unlinks a destination path only where rename(2) cannot replace it: a non-directory in the way of a directory, or a directory in the way of a regular file; never before a file, symlink or special file is replaced by a file or symlink, which must happen by atomic rename alone", 2)
	modeFld := p.Field(pkgReceiver, "File", "Mode")
	// the two halves of the type-change condition may sit in different functions
	// (helper extraction): lift each through the call chains separately
	// kind of the list entry established at `in`: 'd' directory, 'r' regular file, 0 unknown
	entryKind := func(in ssa.Instruction) byte {
		for _, f := range FactsAt(in) {
			switch x := f.Cond.(type) {
			case *ssa.BinOp:
				if x.Op == token.EQL && f.Val {
					if and, ok := x.X.(*ssa.BinOp); ok && and.Op == token.AND && modeFld != nil {
						if base, fld := loadedField(and.X); fld == modeFld && base != nil {
							if k, isK := constInt(x.Y); isK && k == 0o040000 {
								return 'd'
							}
						}
					}
				}
			case *ssa.Call:
				if calleeName(x) == "(io/fs.FileMode).IsRegular" && f.Val {
					if inner, ok := x.Common().Args[0].(*ssa.Call); ok {
						if sc := inner.Common().StaticCallee(); sc != nil && sc.Name() == "FileMode" {
							return 'r'
						}
					}
				}
			}
		}
		return 0
	}
	// what is known at `in` about the existing destination object being a directory: 't', 'f', 0 unknown
	destIsDir := func(in ssa.Instruction) byte {
		for _, f := range FactsAt(in) {
			x, ok := f.Cond.(*ssa.Call)
			if !ok {
				continue
			}
			if x.Common().IsInvoke() && x.Common().Method.Name() == "IsDir" {
				if f.Val {
					return 't'
				}
				return 'f'
			}
			if calleeName(x) == "(io/fs.FileMode).IsDir" {
				if inner, ok := x.Common().Args[0].(*ssa.Call); ok && inner.Common().IsInvoke() && inner.Common().Method.Name() == "Mode" {
					if f.Val {
						return 't'
					}
					return 'f'
				}
			}
		}
		return 0
	}
	// rename(2) replaces any non-directory by a non-directory atomically; only a
	// change between directory and non-directory needs the path emptied first
	entryDirFact := func(in ssa.Instruction) bool { return entryKind(in) == 'd' }
	entryRegFact := func(in ssa.Instruction) bool { return entryKind(in) == 'r' }
	destNotDirFact := func(in ssa.Instruction) bool { return destIsDir(in) == 'f' }
	destDirFact := func(in ssa.Instruction) bool { return destIsDir(in) == 't' }
	bothFact := func(in ssa.Instruction) bool {
		k, d := entryKind(in), destIsDir(in)
		return (k == 'd' && d == 'f') || (k == 'r' && d == 't')
	}
	isUnlink := func(c ssa.CallInstruction) (string, bool) {
		if _, inWalk := walkContext(g, c.Parent(), 0); inWalk {
			return "", false // the --delete walk (see C09)
		}
		n := calleeName(c)
		if n == "(*os.Root).Remove" || n == "(*os.Root).RemoveAll" {
			return n, true
		}
		return "", false
	}
	scopeR := inPkg(pkgReceiver)
	unl, needBoth := g.Lift(GuardSpec{InScope: scopeR, IsSink: isUnlink, Guarded: bothFact}, recvFuncs)
	// the two halves of the condition may sit in different functions (helper
	// extraction): lift each through the call chains separately as well
	_, needED := g.Lift(GuardSpec{InScope: scopeR, IsSink: isUnlink, Guarded: entryDirFact}, recvFuncs)
	_, needER := g.Lift(GuardSpec{InScope: scopeR, IsSink: isUnlink, Guarded: entryRegFact}, recvFuncs)
	_, needDN := g.Lift(GuardSpec{InScope: scopeR, IsSink: isUnlink, Guarded: destNotDirFact}, recvFuncs)
	_, needDD := g.Lift(GuardSpec{InScope: scopeR, IsSink: isUnlink, Guarded: destDirFact}, recvFuncs)
	ents := entriesOf(g, recvFuncs, scopeR)
	for _, u := range unl {
		missing := func(need map[*ssa.Function]map[ssa.CallInstruction][]string) string {
			for _, e := range ents {
				if ch, ok := need[e][u.Instr]; ok {
					return strings.Join(ch, " → ")
				}
			}
			return ""
		}
		bad := ""
		if ch := missing(needBoth); ch != "" {
			dirSite := missing(needED) == "" && missing(needDN) == ""
			regSite := missing(needER) == "" && missing(needDD) == ""
			if !dirSite && !regSite {
				bad = "not established on the chain " + ch + ": (the list entry is a directory and the existing object is not) or (the list entry is a regular file and the existing object is a directory)"
			}
		}
		r.Cond(bad == "", "C04/NO-UNLINK-BEFORE-REPLACE", funcKey(u.Fn)+" → "+u.Label, p.Pos(instrPos(u.Instr)), "a destination path is unlinked although its replacement could be renamed over it: the path is absent until (and unless) the replacement succeeds; "+bad)
	}

	// ---- FIRST-ERROR-ABORTS ----
	r.Rule("C04/FIRST-ERROR-ABORTS", "in receiver.(*Transfer).Do both goroutines are started on one errgroup from errgroup.WithContext, and touchUpDirs, report and the final WriteInt32 are dominated by eg.Wait() having returned nil", 4)
	do := anchorFunc(p, r, pkgReceiver, "Transfer", "Do")
	if do != nil {
		// the join may live in a helper of Do that returns eg.Wait()'s result
		wait, goCalls, joinInDo := findJoin(p, do)
		okGroup := wait != nil && len(goCalls) == 2
		if okGroup {
			for _, gc := range goCalls {
				if gc.Common().Args[0] != wait.Common().Args[0] || !InstrDominates(gc, wait) {
					okGroup = false
				}
				egc, idx := extractOf(gc.Common().Args[0])
				if egc == nil || idx != 0 || calleeName(egc) != "golang.org/x/sync/errgroup.WithContext" {
					okGroup = false
				}
			}
		}
		r.Cond(okGroup, "C04/FIRST-ERROR-ABORTS", "Do: two eg.Go on one WithContext group joined by eg.Wait", p.Pos(do.Pos()), "generator and receiver must run on the same errgroup (first error cancels, Wait joins)")
		if wait != nil && joinInDo != nil {
			allCalls(do, func(c ssa.CallInstruction) {
				n := calleeName(c)
				sc := c.Common().StaticCallee()
				label := ""
				switch {
				case sc != nil && pkgPathOfFunc(sc) == pkgReceiver && (sc.Name() == "touchUpDirs" || sc.Name() == "report"):
					label = sc.Name()
				case n == "(*"+pkgWire+".Conn).WriteInt32":
					label = "Conn.WriteInt32"
				}
				if label == "" {
					return
				}
				known, isNil := errIsNilAt(c, joinInDo)
				r.Cond(known && isNil, "C04/FIRST-ERROR-ABORTS", "Do → "+label+" after Wait()==nil", p.Pos(instrPos(c)), "effect not dominated by a nil result of eg.Wait()")
			})
		}
	}
	checkCleanupRootAlive(p, r)

	// ---- DELETE-SPARES-LISTED ----
	r.Rule("C04/DELETE-SPARES-LISTED", "the --delete pass never unlinks a path that is in the file list (it would be absent until, and unless, the transfer re-creates it): every RemoveAll/Remove inside the receiver's WalkDir callbacks is dominated by findInFileList(list, path) == false — the same clause as C09/REMOVE-GATES [not-in-list], here as a necessary condition of 'old or new content at every instant'", 1)
	if find := p.Func(pkgReceiver, "", "findInFileList"); find == nil {
		r.Unk("C04/DELETE-SPARES-LISTED", "list lookup", "-", "findInFileList not found: the delete pass decides membership differently now, re-read it")
	} else {
		n := 0
		for _, fn := range recvFuncs {
			if _, inWalk := walkContext(g, fn, 0); !inWalk {
				continue
			}
			allCalls(fn, func(c ssa.CallInstruction) {
				nm := calleeName(c)
				if nm != "(*os.Root).RemoveAll" && nm != "(*os.Root).Remove" {
					return
				}
				n++
				ok := HasFact(c, false, func(v ssa.Value) bool {
					call, isC := v.(*ssa.Call)
					return isC && call.Common().StaticCallee() == find
				})
				r.Cond(ok, "C04/DELETE-SPARES-LISTED", funcKey(fn)+" → "+nm, p.Pos(instrPos(c)), "an entry is removed by the delete walk without a negative lookup in the file list: a listed path can disappear before its (possibly unchanged) content is received again")
			})
		}
		if n == 0 {
			r.OK("C04/DELETE-SPARES-LISTED", "no removal in a walk callback", "-", "")
		}
	}
	r.Trust("rename(2) atomicity inside renameio.CloseAtomicallyReplace and renameio.SymlinkRoot; os.Root.MkdirAll/mknodat create empty objects (absent→present, never partial)")
	r.Assume("a change between directory and non-directory cannot be made atomic with rename(2): at those two sites the path is absent between the unlink and the creation of its replacement, which the rule accepts")
	r.Uncovered("temp-file removal when the session returns while the receiver goroutine is still blocked on the connection (deferred Cleanup runs only when that goroutine unblocks); kernel/renameio behaviour")
}

// cellLoadOf: some load of the local slot (nil-safe helper for unwrapLocal).
func cellLoadOf(a *ssa.Alloc) ssa.Value {
	for _, ref := range *a.Referrers() {
		if ld, ok := ref.(*ssa.UnOp); ok && ld.Op == token.MUL {
			return ld
		}
	}
	return a
}

// findJoin locates the errgroup join of receiver.(*Transfer).Do: the eg.Wait()
// call and the eg.Go calls — in Do itself, or in a same-package helper of Do
// every return of which returns that Wait's result. joinInDo is the value in
// Do that carries the join's error (the Wait call, or the call of the helper).
func findJoin(p *Prog, do *ssa.Function) (wait *ssa.Call, goCalls []ssa.CallInstruction, joinInDo *ssa.Call) {
	scan := func(fn *ssa.Function) (*ssa.Call, []ssa.CallInstruction) {
		var w *ssa.Call
		var gs []ssa.CallInstruction
		allCalls(fn, func(c ssa.CallInstruction) {
			switch calleeName(c) {
			case "(*golang.org/x/sync/errgroup.Group).Wait":
				if call, ok := c.(*ssa.Call); ok {
					w = call
				}
			case "(*golang.org/x/sync/errgroup.Group).Go":
				gs = append(gs, c)
			}
		})
		return w, gs
	}
	if w, gs := scan(do); w != nil {
		return w, gs, w
	}
	var out *ssa.Call
	allCalls(do, func(c ssa.CallInstruction) {
		h := c.Common().StaticCallee()
		call, isCall := c.(*ssa.Call)
		if h == nil || !isCall || h.Blocks == nil || pkgPathOfFunc(h) != pkgReceiver {
			return
		}
		w, gs := scan(h)
		if w == nil {
			return
		}
		for _, b := range h.Blocks {
			if ret, ok := lastInstr(b).(*ssa.Return); ok {
				rs := retResults(ret)
				if len(rs) != 1 || rs[0] != ssa.Value(w) {
					return
				}
			}
		}
		wait, goCalls, out = w, gs, call
	})
	return wait, goCalls, out
}
