package main

import (
	"fmt"
	"go/token"
	"go/types"

	"golang.org/x/tools/go/ssa"
)

func init() { register("C05", checkC05) }

// rootedChecker decides whether a value is "the destination root": a load of
// Transfer.DestRoot, or a parameter that every production caller binds to one.
type rootedChecker struct {
	p     *Prog
	g     *ModGraph
	field *types.Var
	memo  map[ssa.Value]int // 0 unknown,1 in progress,2 yes,3 no
}

func (rc *rootedChecker) ok(v ssa.Value) bool {
	switch rc.memo[v] {
	case 1, 2:
		return true // in progress: optimistic on cycles (phi loops)
	case 3:
		return false
	}
	rc.memo[v] = 1
	res := rc.compute(v)
	if res {
		rc.memo[v] = 2
	} else {
		rc.memo[v] = 3
	}
	return res
}

func (rc *rootedChecker) compute(v ssa.Value) bool {
	if isFieldLoad(v, rc.field) {
		return true
	}
	switch x := v.(type) {
	case *ssa.Extract:
		// a root opened through a rooted root is confined to a sub-tree of it
		if c, ok := x.Tuple.(*ssa.Call); ok && x.Index == 0 && calleeName(c) == "(*os.Root).OpenRoot" {
			return rc.ok(c.Common().Args[0])
		}
		return false
	case *ssa.Phi:
		for _, e := range x.Edges {
			if !rc.ok(e) {
				return false
			}
		}
		return len(x.Edges) > 0
	case *ssa.Parameter:
		fn := x.Parent()
		idx := -1
		for i, pp := range fn.Params {
			if pp == x {
				idx = i
			}
		}
		n := 0
		for _, e := range rc.g.In[fn] {
			if isTestSupport(pkgPathOfFunc(e.From)) {
				continue
			}
			c, isCall := e.Site.(ssa.CallInstruction)
			if !isCall || e.Escape || c.Common().IsInvoke() {
				return false // escapes as a value: callers unknown
			}
			if c.Common().StaticCallee() != fn {
				return false
			}
			args := c.Common().Args
			if idx >= len(args) || !rc.ok(args[idx]) {
				return false
			}
			n++
		}
		return n > 0
	case *ssa.UnOp:
		// load of a local variable slot that was assigned once from a rooted value
		if x.Op == token.MUL {
			if a, ok := x.X.(*ssa.Alloc); ok {
				stores := 0
				for _, ref := range *a.Referrers() {
					if st, ok := ref.(*ssa.Store); ok && st.Addr == a {
						if !rc.ok(st.Val) {
							return false
						}
						stores++
					}
				}
				return stores > 0
			}
		}
	}
	return false
}

func checkC05(p *Prog, r *Report) {
	g := p.ModGraph()
	destRoot := p.Field(pkgReceiver, "Transfer", "DestRoot")
	if destRoot == nil {
		r.Fatalf("anchor unresolved: receiver.Transfer.DestRoot")
		return
	}
	rc := &rootedChecker{p: p, g: g, field: destRoot, memo: map[ssa.Value]int{}}
	recvFuncs := p.FuncsInPkg(pkgReceiver)

	// functions reachable from package receiver within the module
	reach := g.Reach(recvFuncs, nil)
	var scopeFuncs []*ssa.Function
	for fn := range reach {
		if isModFunc(fn) && fn.Blocks != nil && !isTestSupport(pkgPathOfFunc(fn)) {
			scopeFuncs = append(scopeFuncs, fn)
			r.FuncsSeen[funcKey(fn)] = true
		}
	}

	// helpers that only createDevice (or another such helper) calls belong to it
	createDeviceHelper := map[*ssa.Function]bool{}
	if cd := p.Func(pkgReceiver, "Transfer", "createDevice"); cd != nil {
		unit := g.unitFuncs(cd)
		inUnit := map[*ssa.Function]bool{}
		for _, u := range unit {
			inUnit[u] = true
		}
		for _, u := range unit[1:] {
			only := len(g.In[u]) > 0
			for _, e := range g.In[u] {
				cs, isCall := e.Site.(ssa.CallInstruction)
				if !inUnit[e.From] || e.Escape || !isCall || cs.Common().StaticCallee() != u {
					only = false
				}
			}
			if only {
				createDeviceHelper[u] = true
			}
		}
	}

	// ---- NO-AMBIENT ----
	r.Rule("C05/NO-AMBIENT", "no function of package receiver, nor any module function reachable from it, calls an ambient-authority file API (path-taking os.*, filepath.Walk/Glob/EvalSymlinks/Abs, ioutil, path-taking syscall/unix, os/exec, non-root renameio); allow-table: unix.Bind/Mknodat/Mkfifoat in createDevice (argument shapes checked by C05/FD-RELATIVE) and renameio.NewPendingFile with a WithRoot(DestRoot) option", 4)
	for _, fn := range scopeFuncs {
		allCalls(fn, func(c ssa.CallInstruction) {
			lbl, ok := ambientLabel(c)
			if !ok {
				return
			}
			key := funcKey(fn) + " → " + lbl
			pos := p.Pos(instrPos(c))
			switch lbl {
			case "unix.Bind", "unix.Mknodat", "unix.Mkfifoat":
				if pkgPathOfFunc(fn) == pkgReceiver && (fn.Name() == "createDevice" || createDeviceHelper[fn]) {
					r.OK("C05/NO-AMBIENT", key, pos, "allow-table: fd-relative special-file creation (see C05/FD-RELATIVE)")
					return
				}
			case "renameio.NewPendingFile":
				root := withRootOption(c)
				if root != nil && rc.ok(root) {
					r.OK("C05/NO-AMBIENT", key, pos, "pending file created WithRoot(DestRoot)")
				} else {
					r.Bad("C05/NO-AMBIENT", key, pos, "renameio.NewPendingFile without a WithRoot(<DestRoot>) option resolves the name against the process cwd")
				}
				return
			}
			r.Bad("C05/NO-AMBIENT", key, pos, "ambient-authority file API reachable from the receiver; chain: "+g.Chain(reach, fn))
		})
	}

	// ---- ROOT-RECEIVER ----
	r.Rule("C05/ROOT-RECEIVER", "every *os.Root method call (and rsyncchecksum.RootChecksum, renameio.SymlinkRoot) reachable from package receiver has as root operand a load of Transfer.DestRoot or a parameter every caller binds to one", 16)
	for _, fn := range scopeFuncs {
		allCalls(fn, func(c ssa.CallInstruction) {
			f := calleeOf(c)
			if f == nil {
				return
			}
			rp, rtn := recvTypeName(f)
			var rootArg ssa.Value
			name := ""
			switch {
			case rp == "os" && rtn == "Root" && !c.Common().IsInvoke():
				rootArg, name = c.Common().Args[0], "(*os.Root)."+f.Name()
			case f.FullName() == pkgChecksum+".RootChecksum", f.FullName() == pkgRenameio+".SymlinkRoot":
				rootArg, name = c.Common().Args[0], f.Pkg().Name()+"."+f.Name()
			default:
				return
			}
			r.Cond(rc.ok(rootArg), "C05/ROOT-RECEIVER", funcKey(fn)+" → "+name, p.Pos(instrPos(c)), "root operand is not provably Transfer.DestRoot")
		})
	}

	// ---- FD-RELATIVE ----
	r.Rule("C05/FD-RELATIVE", "unix.Mknodat/Mkfifoat get dirfd = int(parentDir.Fd()) with parentDir from DestRoot.OpenFile, and path = filepath.Base(...); unix.Bind's SockaddrUnix.Name is filepath.Join(\"/proc/self/fd\", strconv.Itoa(int(parentDir.Fd())), filepath.Base(...)); helper parameters are resolved to what every caller passes", 3)
	isParentFd := func(v ssa.Value) bool {
		c, ok := stripConv(v).(*ssa.Call)
		if !ok || calleeName(c) != "(*os.File).Fd" {
			return false
		}
		// the directory may be a helper's parameter: every caller passes an OpenFile result
		roots := g.paramRoots(c.Common().Args[0], 0)
		for _, root := range roots {
			oc, idx := extractOf(root)
			if !(oc != nil && idx == 0 && calleeName(oc) == "(*os.Root).OpenFile" && rc.ok(oc.Common().Args[0])) {
				return false
			}
		}
		return len(roots) > 0
	}
	isBase := func(v ssa.Value) bool {
		roots := g.paramRoots(v, 0)
		for _, root := range roots {
			if !isCallTo(root, "path/filepath.Base") {
				return false
			}
		}
		return len(roots) > 0
	}
	for _, fn := range scopeFuncs {
		allCalls(fn, func(c ssa.CallInstruction) {
			n := calleeName(c)
			key := funcKey(fn) + " → " + n
			pos := p.Pos(instrPos(c))
			a := c.Common().Args
			switch n {
			case pkgUnix + ".Mknodat", pkgUnix + ".Mkfifoat":
				r.Cond(isParentFd(a[0]) && isBase(a[1]), "C05/FD-RELATIVE", key, pos, "dirfd must be int(parentDir.Fd()) of a DestRoot.OpenFile result and the name a filepath.Base")
			case pkgUnix + ".Bind":
				ok := false
				if mi, isMI := a[1].(*ssa.MakeInterface); isMI {
					if al, isAl := mi.X.(*ssa.Alloc); isAl {
						for _, ref := range *al.Referrers() {
							fa, isFA := ref.(*ssa.FieldAddr)
							if !isFA {
								continue
							}
							_, fld := fieldOfAddr(fa)
							if fld == nil || fld.Name() != "Name" {
								continue
							}
							for _, r2 := range *fa.Referrers() {
								st, isSt := r2.(*ssa.Store)
								if !isSt {
									continue
								}
								jc, isC := st.Val.(*ssa.Call)
								if !isC || calleeName(jc) != "path/filepath.Join" {
									continue
								}
								elems := variadicElems(jc.Common().Args[0])
								if len(elems) == 3 {
									c0, isConst := elems[0].(*ssa.Const)
									itoa, isItoa := elems[1].(*ssa.Call)
									if isConst && c0.Value != nil && c0.Value.ExactString() == `"/proc/self/fd"` &&
										isItoa && calleeName(itoa) == "strconv.Itoa" && isParentFd(itoa.Common().Args[0]) && isBase(elems[2]) {
										ok = true
									}
								}
							}
						}
					}
				}
				r.Cond(ok, "C05/FD-RELATIVE", key, pos, "socket address must be /proc/self/fd/<parentDir fd>/<base name>")
			}
		})
	}

	// ---- ROOT-PROVENANCE ----
	r.Rule("C05/ROOT-PROVENANCE", "every store to receiver.Transfer.DestRoot in production code stores the *os.Root result of os.OpenRoot or (*os.Root).OpenRoot (on a DestRoot-derived root)", 3)
	for _, st := range storesToField(p, destRoot) {
		if isTestSupport(pkgPathOfFunc(st.Parent())) {
			continue
		}
		ok := false
		detail := "stored value is not an OpenRoot result"
		v := st.Val
		ok = true
		for _, leaf := range phiLeaves(v) {
			if !isOpenRootResult(leaf, rc) {
				ok = false
			}
		}
		r.Cond(ok, "C05/ROOT-PROVENANCE", funcKey(st.Parent())+" store Transfer.DestRoot", p.Pos(st.Pos()), detail)
	}

	// ---- DELETE-CONFINED ----
	r.Rule("C05/DELETE-CONFINED", "every fs.WalkDir/filepath.WalkDir reachable from the receiver walks DestRoot.FS()", 1)
	for _, fn := range scopeFuncs {
		allCalls(fn, func(c ssa.CallInstruction) {
			n := calleeName(c)
			if n != "io/fs.WalkDir" {
				return
			}
			fsv := stripConv(c.Common().Args[0])
			fc, ok := fsv.(*ssa.Call)
			ok = ok && calleeName(fc) == "(*os.Root).FS" && rc.ok(fc.Common().Args[0])
			r.Cond(ok, "C05/DELETE-CONFINED", funcKey(fn)+" → fs.WalkDir", p.Pos(instrPos(c)), "walked file system must be DestRoot.FS()")
		})
	}

	// ---- DAEMON-PATHS ----
	checkDaemonPaths(p, r, rc)
	checkCleanNames(p, r, g)

	r.Trust("os.Root confines every path operation to the opened directory (Go standard library); kernel semantics of mknodat/mkfifoat/bind with a base name")
	r.Assume("linux configurations only; darwin/windows variants of createDevice/symlink/newPendingFile use path joins and are not analysed")
	r.Assume("foreign code calls only function values and interface methods it was handed")
	r.Uncovered("symlink targets (created as data, never followed through os.Root); correctness of os.Root itself")
}

func isOpenRootResult(v ssa.Value, rc *rootedChecker) bool {
	c, idx := extractOf(v)
	if c == nil || idx != 0 {
		return false
	}
	switch calleeName(c) {
	case "os.OpenRoot":
		return true
	case "(*os.Root).OpenRoot":
		return rc.ok(c.Common().Args[0])
	}
	return false
}

// variadicElems returns the elements stored into a variadic slice literal.
func variadicElems(v ssa.Value) []ssa.Value {
	sl, ok := v.(*ssa.Slice)
	if !ok {
		return nil
	}
	arr, ok := sl.X.(*ssa.Alloc)
	if !ok {
		return nil
	}
	tmp := map[int64]ssa.Value{}
	for _, ref := range *arr.Referrers() {
		ia, ok := ref.(*ssa.IndexAddr)
		if !ok {
			continue
		}
		k, ok := constInt(ia.Index)
		if !ok {
			return nil
		}
		for _, r2 := range *ia.Referrers() {
			if st, ok := r2.(*ssa.Store); ok {
				tmp[k] = st.Val
			}
		}
	}
	out := make([]ssa.Value, len(tmp))
	for k, v := range tmp {
		if int(k) >= len(out) {
			return nil
		}
		out[k] = v
	}
	return out
}

// checkDaemonPaths: in rsyncd.handleConnReceiver the ambient os.OpenRoot /
// os.MkdirAll get rt.Dest, and every store to rt.Dest that can precede them
// stores Module.Path; Module.Path is peer-controlled only on the
// module==nil edge.
func checkDaemonPaths(p *Prog, r *Report, rc *rootedChecker) {
	rule := "C05/DAEMON-PATHS"
	r.Rule(rule, "in rsyncd.handleConnReceiver the ambient calls (os.MkdirAll, os.OpenRoot) take Transfer.Dest, whose reaching stores hold Module.Path; a Module literal built from the peer's paths is dominated by module==nil; peer paths otherwise reach only *os.Root methods", 3)
	fn := anchorFunc(p, r, pkgRsyncd, "Server", "handleConnReceiver")
	if fn == nil {
		return
	}
	destF := p.Field(pkgReceiver, "Transfer", "Dest")
	pathF := p.Field(pkgRsyncd, "Module", "Path")
	if destF == nil || pathF == nil {
		r.Fatalf("anchor unresolved: Transfer.Dest / Module.Path")
		return
	}
	var modParam *ssa.Parameter
	for _, pp := range fn.Params {
		if n := namedOf(pp.Type()); n != nil && n.Obj().Name() == "Module" {
			modParam = pp
		}
	}
	allCalls(fn, func(c ssa.CallInstruction) {
		lbl, ok := ambientLabel(c)
		if !ok {
			return
		}
		arg := c.Common().Args[0]
		good := isFieldLoad(arg, destF)
		if good {
			// every store to Transfer.Dest in fn that may precede this call stores Module.Path
			for _, b := range fn.Blocks {
				for _, in := range b.Instrs {
					st, isSt := in.(*ssa.Store)
					if !isSt {
						continue
					}
					if _, f := fieldOfAddr(st.Addr); f != destF {
						continue
					}
					if mayFollow(st, c) && !isFieldLoad(st.Val, pathF) {
						good = false
					}
				}
			}
		}
		r.Cond(good, rule, funcKey(fn)+" → "+lbl, p.Pos(instrPos(c)), "ambient call must take rt.Dest == Module.Path")
	})
	// stores to Module.Path inside session code must be under module == nil
	for _, st := range storesToField(p, pathF) {
		sf := st.Parent()
		if pkgPathOfFunc(sf) != pkgRsyncd {
			continue
		}
		if _, isConst := st.Val.(*ssa.Const); isConst {
			r.OK(rule, funcKey(sf)+" store Module.Path (constant)", p.Pos(st.Pos()), "")
			continue
		}
		// module == nil for a *Module parameter: of this function, or (inherited through the
		// call sites of a private helper) of the function that builds the implicit module there
		ok := modParam != nil && HasFact(st, true, isModuleParamNil)
		r.Cond(ok, rule, funcKey(sf)+" store Module.Path (peer path)", p.Pos(st.Pos()), "a module path taken from the peer is allowed only for the implicit module (module == nil, command mode)")
	}
	_ = fmt.Sprint
}

// ---- C05/CLEAN-NAMES ----

type cleanChecker struct {
	p    *Prog
	g    *ModGraph
	memo map[ssa.Value]int
}

func (cc *cleanChecker) ok(v ssa.Value) bool {
	switch cc.memo[v] {
	case 1, 2:
		return true
	case 3:
		return false
	}
	cc.memo[v] = 1
	res := cc.compute(v)
	if res {
		cc.memo[v] = 2
	} else {
		cc.memo[v] = 3
	}
	return res
}

func (cc *cleanChecker) compute(v ssa.Value) bool {
	if _, isC := constStr(v); isC {
		return true
	}
	switch x := v.(type) {
	case *ssa.Call:
		switch calleeName(x) {
		case "path/filepath.Clean", "path/filepath.Base", "path/filepath.Dir", "path/filepath.Join", "path.Clean", "path.Join", "path.Base", "path.Dir":
			return true
		}
		return cc.helperResultClean(x, 0)
	case *ssa.Extract:
		if c, ok := x.Tuple.(*ssa.Call); ok {
			return cc.helperResultClean(c, x.Index)
		}
		return false
	case *ssa.Phi:
		for _, e := range x.Edges {
			if !cc.ok(e) {
				return false
			}
		}
		return len(x.Edges) > 0
	case *ssa.Parameter:
		fn := x.Parent()
		if isWalkDirFunc(fn) {
			if pp, _ := walkParams(fn); pp == x {
				return true // fs.WalkDir yields clean, root-relative paths
			}
		}
		idx := -1
		for i, pp := range fn.Params {
			if pp == x {
				idx = i
			}
		}
		n := 0
		for _, e := range cc.g.In[fn] {
			if isTestSupport(pkgPathOfFunc(e.From)) {
				continue
			}
			if _, boxing := e.Site.(*ssa.MakeInterface); boxing && e.Escape {
				continue // the method becomes callable here; its arguments come from the invoke sites
			}
			c, isCall := e.Site.(ssa.CallInstruction)
			if !isCall || e.Escape {
				return false
			}
			if c.Common().IsInvoke() {
				// interface method (FileSource.Open etc.): receiver is not in Args
				if idx-1 < 0 || idx-1 >= len(c.Common().Args) || !cc.ok(c.Common().Args[idx-1]) {
					return false
				}
				n++
				continue
			}
			if c.Common().StaticCallee() != fn || idx >= len(c.Common().Args) || !cc.ok(c.Common().Args[idx]) {
				return false
			}
			n++
		}
		return n > 0
	case *ssa.UnOp:
		if x.Op != token.MUL {
			return false
		}
		// load of a struct field: every production store to that field must be clean
		if _, f := loadedField(x); f != nil && f.Pkg() != nil && isModPath(f.Pkg().Path()) {
			n := 0
			for _, st := range storesToField(cc.p, f) {
				if isTestSupport(pkgPathOfFunc(st.Parent())) {
					continue
				}
				n++
				if !cc.ok(st.Val) {
					return false
				}
			}
			return n > 0
		}
		// local slot / captured variable
		if u := unwrapLocal(x); u != ssa.Value(x) {
			return cc.ok(u)
		}
		if fv, ok := x.X.(*ssa.FreeVar); ok {
			fn := fv.Parent()
			for i, f2 := range fn.FreeVars {
				if f2 != fv || fn.Parent() == nil {
					continue
				}
				for _, b := range fn.Parent().Blocks {
					for _, in := range b.Instrs {
						if mc, ok := in.(*ssa.MakeClosure); ok && mc.Fn == ssa.Value(fn) {
							if a, ok := mc.Bindings[i].(*ssa.Alloc); ok {
								all, n := true, 0
								for _, ref := range *a.Referrers() {
									if st, ok := ref.(*ssa.Store); ok && st.Addr == ssa.Value(a) {
										n++
										if !cc.ok(st.Val) {
											all = false
										}
									}
								}
								return all && n > 0
							}
						}
					}
				}
			}
		}
	}
	return false
}

// helperResultClean: result #idx of a direct call to a module helper is clean
// when every return of the helper yields a clean value there (a constant —
// the "" of an error return included — counts as clean).
func (cc *cleanChecker) helperResultClean(c *ssa.Call, idx int) bool {
	h := c.Common().StaticCallee()
	if h == nil || h.Blocks == nil || !isModFunc(h) {
		return false
	}
	n := 0
	for _, b := range h.Blocks {
		ret, ok := lastInstr(b).(*ssa.Return)
		if !ok {
			continue
		}
		rs := retResults(ret)
		if idx >= len(rs) {
			return false
		}
		n++
		if !cc.ok(rs[idx]) {
			return false
		}
	}
	return n > 0
}

// isModuleParamNil: v is `m == nil` for a parameter m of type *rsyncd.Module.
func isModuleParamNil(v ssa.Value) bool {
	b, ok := v.(*ssa.BinOp)
	if !ok || b.Op != token.EQL {
		return false
	}
	var x ssa.Value
	switch {
	case isNilConst(b.Y):
		x = b.X
	case isNilConst(b.X):
		x = b.Y
	default:
		return false
	}
	pp, ok := x.(*ssa.Parameter)
	if !ok {
		return false
	}
	n := namedOf(pp.Type())
	return n != nil && n.Obj().Name() == "Module" && n.Obj().Pkg() != nil && n.Obj().Pkg().Path() == pkgRsyncd
}

func checkCleanNames(p *Prog, r *Report, g *ModGraph) {
	rule := "C05/CLEAN-NAMES"
	r.Rule(rule, "every path name handed to an *os.Root method (and to RootChecksum, renameio.NewPendingFile/SymlinkRoot) in packages receiver, rsyncd, rsyncchecksum and sender is lexically clean by provenance: a constant, a filepath.Clean/Base/Dir/Join result, a WalkDir callback path, or a field/parameter only ever bound to such values — os.Root (up to Go 1.25) follows a symlink out of the root when the name carries a trailing slash", 15)
	cc := &cleanChecker{p: p, g: g, memo: map[ssa.Value]int{}}
	for _, pk := range []string{pkgReceiver, pkgRsyncd, pkgChecksum, pkgSender} {
		for _, fn := range p.FuncsInPkg(pk) {
			allCalls(fn, func(c ssa.CallInstruction) {
				f := calleeOf(c)
				if f == nil || c.Common().IsInvoke() {
					return
				}
				rp, rtn := recvTypeName(f)
				var names []ssa.Value
				a := c.Common().Args
				switch {
				case rp == "os" && rtn == "Root":
					switch f.Name() {
					case "Open", "OpenFile", "OpenRoot", "Create", "Mkdir", "MkdirAll", "Remove", "RemoveAll", "Lstat", "Stat", "Readlink", "Chmod", "Chown", "Lchown", "Chtimes", "ReadFile", "WriteFile":
						names = append(names, a[1])
					case "Symlink":
						names = append(names, a[2])
					case "Rename", "Link":
						names = append(names, a[1], a[2])
					default:
						return
					}
				case f.FullName() == pkgChecksum+".RootChecksum":
					names = append(names, a[1])
				case f.FullName() == pkgRenameio+".NewPendingFile":
					names = append(names, a[0])
				case f.FullName() == pkgRenameio+".SymlinkRoot":
					names = append(names, a[2])
				default:
					return
				}
				for _, nm := range names {
					r.Cond(cc.ok(nm), rule, funcKey(fn)+" → "+shortKey(f.FullName())+"(name)", p.Pos(instrPos(c)), "the name is not provably lexically clean (peer text with a trailing slash or dot segments can reach os.Root)")
				}
			})
		}
	}
}
