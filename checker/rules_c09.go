package main

import (
	"fmt"
	"go/token"
	"go/types"
	"strings"

	"golang.org/x/tools/go/ssa"
)

func init() { register("C09", checkC09) }

// isWalkDirFunc: signature func(string, fs.DirEntry, error) error.
func isWalkDirFunc(fn *ssa.Function) bool {
	sig := fn.Signature
	if sig.Params().Len() != 3 || sig.Results().Len() != 1 {
		return false
	}
	if b, ok := sig.Params().At(0).Type().(*types.Basic); !ok || b.Kind() != types.String {
		return false
	}
	n := namedOf(sig.Params().At(1).Type())
	return n != nil && n.Obj().Pkg() != nil && n.Obj().Pkg().Path() == "io/fs" && n.Obj().Name() == "DirEntry"
}

// walkParams returns the (path, entry) parameters of a WalkDirFunc,
// skipping the receiver for methods.
func walkParams(fn *ssa.Function) (path, entry *ssa.Parameter) {
	ps := fn.Params
	if fn.Signature.Recv() != nil {
		ps = ps[1:]
	}
	if len(ps) < 3 {
		return nil, nil
	}
	return ps[0], ps[1]
}

func isSkipDirLoad(v ssa.Value) bool {
	u, ok := v.(*ssa.UnOp)
	if !ok || u.Op != token.MUL {
		return false
	}
	g, ok := u.X.(*ssa.Global)
	if !ok || g.Pkg == nil {
		return false
	}
	p := g.Pkg.Pkg.Path()
	return (p == "io/fs" || p == "path/filepath") && (g.Name() == "SkipDir")
}

// fromEntryInfo: v is entry.Info()'s first result (possibly through a phi
// with nil) for the given entry parameter.
func fromEntryInfo(v ssa.Value, entry *ssa.Parameter, seen map[ssa.Value]bool) bool {
	if seen[v] {
		return true
	}
	seen[v] = true
	switch x := v.(type) {
	case *ssa.Extract:
		c, ok := x.Tuple.(*ssa.Call)
		return ok && x.Index == 0 && c.Common().IsInvoke() && c.Common().Method.Name() == "Info" && c.Common().Value == entry
	case *ssa.Phi:
		any := false
		for _, e := range x.Edges {
			if isNilConst(e) {
				continue
			}
			if !fromEntryInfo(e, entry, seen) {
				return false
			}
			any = true
		}
		return any
	}
	return false
}

// isDirTestOn: cond is a directory test on the walk entry: d.IsDir(),
// info.IsDir(), info.Mode().IsDir() with info from d.Info().
func isDirTestOn(entry *ssa.Parameter) func(ssa.Value) bool {
	return func(v ssa.Value) bool {
		c, ok := v.(*ssa.Call)
		if !ok {
			return false
		}
		cc := c.Common()
		if cc.IsInvoke() && cc.Method.Name() == "IsDir" {
			if cc.Value == entry {
				return true
			}
			return fromEntryInfo(cc.Value, entry, map[ssa.Value]bool{})
		}
		if calleeName(c) == "(io/fs.FileMode).IsDir" && len(cc.Args) == 1 {
			m, ok := cc.Args[0].(*ssa.Call)
			if ok && m.Common().IsInvoke() && (m.Common().Method.Name() == "Mode" || m.Common().Method.Name() == "Type") {
				if m.Common().Value == entry {
					return true
				}
				return fromEntryInfo(m.Common().Value, entry, map[ssa.Value]bool{})
			}
		}
		return false
	}
}

// walkContext: fn is a WalkDir callback, or a helper that is only ever called
// (directly, ≤ 2 levels) from WalkDir callbacks. Returns the callbacks.
func walkContext(g *ModGraph, fn *ssa.Function, depth int) ([]*ssa.Function, bool) {
	if isWalkDirFunc(fn) {
		return []*ssa.Function{fn}, true
	}
	if depth >= 2 || fn.Parent() != nil {
		return nil, false
	}
	var out []*ssa.Function
	n := 0
	for _, e := range g.In[fn] {
		if isTestSupport(pkgPathOfFunc(e.From)) {
			continue
		}
		c, ok := e.Site.(ssa.CallInstruction)
		if !ok || e.Escape || c.Common().StaticCallee() != fn {
			return nil, false
		}
		cbs, ok2 := walkContext(g, e.From, depth+1)
		if !ok2 {
			return nil, false
		}
		out = append(out, cbs...)
		n++
	}
	return out, n > 0
}

// entryValue: v is the walked entry (the callback's DirEntry parameter, or a
// helper parameter every caller binds to it), or its Info().
func entryValue(g *ModGraph, v ssa.Value) bool {
	for _, root := range g.paramRoots(v, 0) {
		p, ok := root.(*ssa.Parameter)
		if ok && isWalkDirFunc(p.Parent()) {
			if _, e := walkParams(p.Parent()); e == p {
				continue
			}
		}
		if ok2 := func() bool {
			// d.Info() of the entry
			var entry *ssa.Parameter
			if ex, isEx := root.(*ssa.Extract); isEx {
				if c, isC := ex.Tuple.(*ssa.Call); isC && c.Common().IsInvoke() && c.Common().Method.Name() == "Info" {
					if pp, isP := c.Common().Value.(*ssa.Parameter); isP && isWalkDirFunc(pp.Parent()) {
						_, entry = walkParams(pp.Parent())
						return entry == pp
					}
				}
			}
			if phi, isPhi := root.(*ssa.Phi); isPhi {
				fn := phi.Parent()
				if isWalkDirFunc(fn) {
					_, e := walkParams(fn)
					return fromEntryInfo(phi, e, map[ssa.Value]bool{})
				}
			}
			return false
		}(); ok2 {
			continue
		}
		return false
	}
	return true
}

// isDirTestOnEntry: cond is IsDir()/Mode().IsDir() on the walked entry,
// also when the test sits in a helper that receives the entry as a parameter.
func isDirTestOnEntry(g *ModGraph) func(ssa.Value) bool {
	return func(v ssa.Value) bool {
		c, ok := v.(*ssa.Call)
		if !ok {
			return false
		}
		cc := c.Common()
		if cc.IsInvoke() && cc.Method.Name() == "IsDir" {
			return entryValue(g, cc.Value)
		}
		if calleeName(c) == "(io/fs.FileMode).IsDir" && len(cc.Args) == 1 {
			if m, ok := cc.Args[0].(*ssa.Call); ok && m.Common().IsInvoke() && (m.Common().Method.Name() == "Mode" || m.Common().Method.Name() == "Type") {
				return entryValue(g, m.Common().Value)
			}
		}
		return false
	}
}

// checkSkipDir emits one obligation per `return SkipDir` in every
// WalkDirFunc-shaped function of the given packages (and in helpers that are
// only called from such callbacks).
func checkSkipDir(p *Prog, r *Report, rule string, pkgs ...string) {
	g := p.ModGraph()
	for _, pk := range pkgs {
		for _, fn := range p.FuncsInPkg(pk) {
			if _, inWalk := walkContext(g, fn, 0); !inWalk {
				continue
			}
			r.FuncsSeen[funcKey(fn)] = true
			for _, b := range fn.Blocks {
				ret, ok := lastInstr(b).(*ssa.Return)
				if !ok || len(ret.Results) != 1 {
					continue
				}
				res := retResults(ret)[0]
				// a phi of SkipDir with other values: treat each SkipDir edge conservatively
				if phi, ok := res.(*ssa.Phi); ok {
					for _, e := range phi.Edges {
						if isSkipDirLoad(e) {
							r.Unk(rule, funcKey(fn)+" return SkipDir", p.Pos(ret.Pos()), "SkipDir flows through a phi; cannot attribute a dominating directory test")
						}
					}
					continue
				}
				if !isSkipDirLoad(res) {
					continue
				}
				ok2 := HasFact(ret, true, isDirTestOnEntry(g))
				r.Cond(ok2, rule, funcKey(fn)+" return SkipDir", p.Pos(ret.Pos()),
					"`return SkipDir` not dominated by a directory test on the walked entry: for a non-directory WalkDir then skips all remaining siblings")
			}
		}
	}
}

// nameOfIndexed: v is a load of field Name of slice[idx] (slice of *File).
func nameOfIndexed(v ssa.Value, name *types.Var) (slice, idx ssa.Value, ok bool) {
	base, f := loadedField(v)
	if f != name || base == nil {
		return nil, nil, false
	}
	// base is *File = load of IndexAddr(slice, idx)
	ld, ok2 := base.(*ssa.UnOp)
	if !ok2 || ld.Op != token.MUL {
		return nil, nil, false
	}
	ia, ok2 := ld.X.(*ssa.IndexAddr)
	if !ok2 {
		return nil, nil, false
	}
	return ia.X, ia.Index, true
}

// through loads of free variables / params: resolve a captured variable to
// its FreeVar.
func underlyingVar(v ssa.Value) ssa.Value {
	if u, ok := v.(*ssa.UnOp); ok && u.Op == token.MUL {
		if fv, ok := u.X.(*ssa.FreeVar); ok {
			return fv
		}
	}
	return v
}

func checkC09(p *Prog, r *Report) {
	g := p.ModGraph()
	recvFuncs := p.FuncsInPkg(pkgReceiver)
	scope := inPkg(pkgReceiver)
	entries := entriesOf(g, recvFuncs, scope)

	r.Rule("C09/SKIPDIR-ONLY-DIRS", "in every fs.WalkDirFunc of package receiver, each `return fs.SkipDir` is dominated by the true edge of a directory test on that callback's entry (SkipDir for a file makes WalkDir skip the remaining siblings)", 1)
	checkSkipDir(p, r, "C09/SKIPDIR-ONLY-DIRS", pkgReceiver)

	// ---- DESCENDS-LISTED ----
	r.Rule("C09/DESCENDS-LISTED", "the delete walk descends into every directory that is in the file list: in the WalkDir callbacks of package receiver each `return fs.SkipDir` is dominated by findInFileList(list, path)==false for the walked path (only a directory that is being removed is skipped); skipping a listed directory would leave the extraneous entries below it", 1)
	if find0 := p.Func(pkgReceiver, "", "findInFileList"); find0 != nil {
		walked := func(v ssa.Value) bool {
			for _, root := range g.paramRoots(v, 0) {
				pp, ok := root.(*ssa.Parameter)
				if !ok || !isWalkDirFunc(pp.Parent()) {
					return false
				}
				if wp, _ := walkParams(pp.Parent()); wp != pp {
					return false
				}
			}
			return true
		}
		notListed := func(v ssa.Value) bool {
			c, ok := v.(*ssa.Call)
			if !ok || c.Common().StaticCallee() != find0 || len(c.Common().Args) != 2 {
				return false
			}
			return walked(c.Common().Args[1])
		}
		n := 0
		for _, fn := range recvFuncs {
			if _, inWalk := walkContext(g, fn, 0); !inWalk {
				continue
			}
			for _, b := range fn.Blocks {
				ret, ok := lastInstr(b).(*ssa.Return)
				if !ok || len(ret.Results) != 1 {
					continue
				}
				for _, leaf := range phiLeaves(retResults(ret)[0]) {
					if !isSkipDirLoad(leaf) {
						continue
					}
					n++
					r.Cond(HasFact(ret, false, notListed), "C09/DESCENDS-LISTED", funcKey(fn)+" return SkipDir", p.Pos(ret.Pos()), "`return SkipDir` is reachable for an entry that is in the file list: the walk does not descend into that directory and extraneous entries below it survive --delete")
				}
			}
		}
		if n == 0 {
			r.OK("C09/DESCENDS-LISTED", "delete walk never returns SkipDir", "-", "every directory is descended into")
		}
	}

	checkIOErrorSticky(p, r)
	checkTopDirScan(p, r)

	// ---- REMOVE-GATES ----
	r.Rule("C09/REMOVE-GATES", "every (*os.Root).RemoveAll in package receiver sits in a WalkDir callback, is dominated by findInFileList(list, path)==false for the same path it removes, and on every call chain by IOErrors>0 == false and DeleteMode == true; IOErrors is stored only from the wire", 5)
	ioerrs := p.Field(pkgReceiver, "Transfer", "IOErrors")
	delmode := p.Field(pkgReceiver, "TransferOpts", "DeleteMode")
	nameF := p.Field(pkgReceiver, "File", "Name")
	find := anchorFunc(p, r, pkgReceiver, "", "findInFileList")
	if ioerrs == nil || delmode == nil || nameF == nil || find == nil {
		r.Fatalf("anchor unresolved: receiver.Transfer.IOErrors / TransferOpts.DeleteMode / File.Name / findInFileList")
		return
	}
	isRemoveAll := func(c ssa.CallInstruction) (string, bool) {
		n := calleeName(c)
		if n == "(*os.Root).RemoveAll" || n == "os.RemoveAll" {
			return n, true
		}
		return "", false
	}
	ioZero := func(in ssa.Instruction) bool {
		for _, f := range FactsAt(in) {
			b, ok := f.Cond.(*ssa.BinOp)
			if !ok || !isFieldLoad(b.X, ioerrs) {
				continue
			}
			if k, ok := constInt(b.Y); !ok || k != 0 {
				continue
			}
			switch {
			case b.Op == token.GTR && !f.Val, b.Op == token.NEQ && !f.Val, b.Op == token.EQL && f.Val, b.Op == token.LEQ && f.Val:
				return true
			}
		}
		return false
	}
	delOn := func(in ssa.Instruction) bool { return HasFact(in, true, isFieldLoadPred(delmode)) }
	sinks, needIO := g.Lift(GuardSpec{InScope: scope, IsSink: isRemoveAll, Guarded: ioZero}, recvFuncs)
	_, needDel := g.Lift(GuardSpec{InScope: scope, IsSink: isRemoveAll, Guarded: delOn}, recvFuncs)
	for _, s := range sinks {
		fn := s.Fn
		base := funcKey(fn) + " → " + s.Label
		pos := p.Pos(instrPos(s.Instr))
		// (a) in a WalkDir callback (or a helper only such callbacks call), removing the
		// callback's own path, after a negative lookup of that path
		cbs, inWalk := walkContext(g, fn, 0)
		if !inWalk {
			r.Bad("C09/REMOVE-GATES", base+" [in-walk-callback]", pos, "RemoveAll outside a WalkDir callback")
			continue
		}
		args := s.Instr.Common().Args
		rmArg := args[len(args)-1]
		isWalkedPath := func(v ssa.Value) bool {
			for _, root := range g.paramRoots(v, 0) {
				pp, ok := root.(*ssa.Parameter)
				if !ok || !isWalkDirFunc(pp.Parent()) {
					return false
				}
				if wp, _ := walkParams(pp.Parent()); wp != pp {
					return false
				}
			}
			return true
		}
		r.Cond(isWalkedPath(rmArg), "C09/REMOVE-GATES", base+" [removes-walked-path]", pos, "argument of RemoveAll is not the callback's path parameter")
		// negative lookup of the walked path: findInFileList(list, path)==false, directly or
		// through a single-return predicate helper, locally or at every call site
		lookup := func(v ssa.Value) bool {
			c, ok := v.(*ssa.Call)
			if !ok || c.Common().StaticCallee() != find {
				return false
			}
			a := c.Common().Args
			if len(a) != 2 {
				return false
			}
			if isWalkedPath(a[1]) {
				return true
			}
			// inside a predicate helper: its parameter; accept when the helper is
			// called with the walked path (checked on the expanded fact's source)
			if pp, isP := a[1].(*ssa.Parameter); isP {
				for _, e := range g.In[pp.Parent()] {
					cs, isC := e.Site.(ssa.CallInstruction)
					if !isC {
						return false
					}
					idx := -1
					for i, q := range pp.Parent().Params {
						if q == pp {
							idx = i
						}
					}
					if idx < 0 || !isWalkedPath(cs.Common().Args[idx]) {
						return false
					}
				}
				return true
			}
			return false
		}
		r.Cond(HasFact(s.Instr, false, lookup), "C09/REMOVE-GATES", base+" [not-in-list]", pos, "not dominated by findInFileList(list, path)==false for the walked path")
		_ = cbs
		var badIO, badDel string
		for _, e := range entries {
			if ch, ok := needIO[e][s.Instr]; ok && badIO == "" {
				badIO = strings.Join(ch, " → ")
			}
			if ch, ok := needDel[e][s.Instr]; ok && badDel == "" {
				badDel = strings.Join(ch, " → ")
			}
		}
		r.Cond(badIO == "", "C09/REMOVE-GATES", base+" [io-error-gate]", pos, "reachable without IOErrors>0 being false: "+badIO)
		r.Cond(badDel == "", "C09/REMOVE-GATES", base+" [delete-mode-gate]", pos, "reachable without DeleteMode being true: "+badDel)
	}
	for _, st := range storesToField(p, ioerrs) {
		c, idx := extractOf(st.Val)
		ok := c != nil && idx == 0 && calleeName(c) == "(*"+pkgWire+".Conn).ReadInt32"
		r.Cond(ok, "C09/REMOVE-GATES", funcKey(st.Parent())+" store Transfer.IOErrors", p.Pos(st.Pos()), "IOErrors must be the int32 read from the wire after the file list")
	}

	// ---- LOOKUP-MATCHES-SORT ----
	r.Rule("C09/LOOKUP-MATCHES-SORT", "sortFileList orders by File.Name with <, findInFileList binary-searches the same field with >= and ==, untransformed; ReceiveFileList returns the list it sorted; every Do call gets the list from ReceiveFileList", 5)
	checkSortLookup(p, r, nameF, find)

	// ---- FILTER-PROTECTS ----
	r.Rule("C09/FILTER-PROTECTS", "on every path to the RemoveAll a call dominates it that (transitively) reaches the filter-rule matcher, so entries the user's exclude rules protect are kept", 1)
	matchers := map[*ssa.Function]bool{}
	for _, nm := range [][2]string{{"filterRule", "matches"}, {"filterRuleList", "matches"}, {"FilterRuleList", "Matches"}} {
		if f := p.Func(pkgSender, nm[0], nm[1]); f != nil {
			matchers[f] = true
		}
	}
	if len(matchers) == 0 {
		r.Fatalf("anchor unresolved: sender filter matcher")
	}
	for _, s := range sinks {
		found := false
		allCalls(s.Fn, func(c ssa.CallInstruction) {
			if found || !InstrDominates(c, s.Instr) {
				return
			}
			var starts []*ssa.Function
			for _, e := range g.Out[s.Fn] {
				if e.Site == c {
					starts = append(starts, e.To)
				}
			}
			reach := g.Reach(starts, nil)
			for m := range matchers {
				if _, ok := reach[m]; ok {
					found = true
				}
			}
		})
		r.Cond(found, "C09/FILTER-PROTECTS", "delete walk → "+s.Label, p.Pos(instrPos(s.Instr)),
			"no filter consultation before the removal: the receiver never sees the user's exclude rules, so --delete removes excluded entries")
	}
	r.Assume("isTopDir by name '.'; the deletion walk starts at the root of DestRoot.FS() (checked under C05/DELETE-CONFINED)")
	r.Uncovered("that the deleted set equals the set difference for every pair of trees (value-level)")
}

func checkSortLookup(p *Prog, r *Report, nameF *types.Var, find *ssa.Function) {
	rule := "C09/LOOKUP-MATCHES-SORT"
	sortFn := anchorFunc(p, r, pkgReceiver, "", "sortFileList")
	if sortFn == nil {
		return
	}
	// comparator literal of sortFileList
	okCmp := false
	for _, lit := range sortFn.AnonFuncs {
		for _, b := range lit.Blocks {
			ret, ok := lastInstr(b).(*ssa.Return)
			if !ok || len(ret.Results) != 1 {
				continue
			}
			bo, ok := retResults(ret)[0].(*ssa.BinOp)
			if !ok || bo.Op != token.LSS {
				continue
			}
			s1, i1, ok1 := nameOfIndexed(bo.X, nameF)
			s2, i2, ok2 := nameOfIndexed(bo.Y, nameF)
			if ok1 && ok2 && underlyingVar(s1) == underlyingVar(s2) && len(lit.Params) == 2 && i1 == lit.Params[0] && i2 == lit.Params[1] {
				okCmp = true
			}
		}
	}
	r.Cond(okCmp, rule, "sortFileList comparator", p.Pos(sortFn.Pos()), "comparator must be list[i].Name < list[j].Name on the raw field")
	// findInFileList: literal uses >=, body uses ==
	okGE, okEQ := false, false
	for _, lit := range find.AnonFuncs {
		for _, b := range lit.Blocks {
			for _, in := range b.Instrs {
				if bo, ok := in.(*ssa.BinOp); ok && bo.Op == token.GEQ {
					_, idx, ok1 := nameOfIndexed(bo.X, nameF)
					if ok1 && len(lit.Params) == 1 && idx == lit.Params[0] && underlyingVar(bo.Y) != nil {
						if fv, isFV := underlyingVar(bo.Y).(*ssa.FreeVar); isFV && fv.Name() == find.Params[1].Name() {
							okGE = true
						}
					}
				}
			}
		}
	}
	for _, b := range find.Blocks {
		for _, in := range b.Instrs {
			if bo, ok := in.(*ssa.BinOp); ok && bo.Op == token.EQL {
				_, idx, ok1 := nameOfIndexed(bo.X, nameF)
				if ok1 && isCallTo(idx, "sort.Search") {
					y := bo.Y
					if u, ok := y.(*ssa.UnOp); ok && u.Op == token.MUL {
						if a, ok := u.X.(*ssa.Alloc); ok && a.Comment == find.Params[1].Name() {
							okEQ = true
						}
					}
					if y == find.Params[1] {
						okEQ = true
					}
				}
			}
		}
	}
	// equivalent form: _, found := slices.BinarySearchFunc(list, name, func(f *File, n string) int { return strings.Compare(f.Name, n) })
	allCalls(find, func(c ssa.CallInstruction) {
		sc := c.Common().StaticCallee()
		if sc == nil || sc.Origin() == nil || sc.Origin().String() != "slices.BinarySearchFunc" || len(c.Common().Args) != 3 {
			return
		}
		a := c.Common().Args
		if a[0] != ssa.Value(find.Params[0]) || a[1] != ssa.Value(find.Params[1]) {
			return
		}
		var lit *ssa.Function
		switch x := stripConv(a[2]).(type) {
		case *ssa.MakeClosure:
			lit, _ = x.Fn.(*ssa.Function)
		case *ssa.Function:
			lit = x
		}
		if lit == nil || len(lit.Params) != 2 {
			return
		}
		cmpOK := true
		nRet := 0
		for _, b := range lit.Blocks {
			ret, ok := lastInstr(b).(*ssa.Return)
			if !ok {
				continue
			}
			nRet++
			cc, ok := retResults(ret)[0].(*ssa.Call)
			if !ok {
				cmpOK = false
				continue
			}
			nm := calleeName(cc)
			if o := cc.Common().StaticCallee(); o != nil && o.Origin() != nil {
				nm = o.Origin().String()
			}
			if nm != "strings.Compare" && nm != "cmp.Compare" {
				cmpOK = false
				continue
			}
			ca := cc.Common().Args
			base, fld := loadedField(ca[0])
			if fld != nameF || base != ssa.Value(lit.Params[0]) || ca[1] != ssa.Value(lit.Params[1]) {
				cmpOK = false
			}
		}
		// the function returns the `found` result
		retFound := true
		for _, b := range find.Blocks {
			if ret, ok := lastInstr(b).(*ssa.Return); ok {
				ex, ok := retResults(ret)[0].(*ssa.Extract)
				if !ok || ex.Index != 1 || ex.Tuple != c.Value() {
					retFound = false
				}
			}
		}
		if cmpOK && nRet > 0 && retFound {
			okGE, okEQ = true, true
		}
	})
	r.Cond(okGE, rule, "findInFileList search predicate", p.Pos(find.Pos()), "sort.Search predicate must be list[i].Name >= name")
	r.Cond(okEQ, rule, "findInFileList equality", p.Pos(find.Pos()), "result must be list[i].Name == name for the index found")
	// ReceiveFileList returns the list it sorted
	rfl := anchorFunc(p, r, pkgReceiver, "Transfer", "ReceiveFileList")
	if rfl != nil {
		var sorted ssa.Value
		var sortCall ssa.Instruction
		allCalls(rfl, func(c ssa.CallInstruction) {
			if c.Common().StaticCallee() == sortFn {
				sorted, sortCall = c.Common().Args[0], c
			}
		})
		n := 0
		for _, b := range rfl.Blocks {
			ret, ok := lastInstr(b).(*ssa.Return)
			if !ok || len(ret.Results) != 2 || isNilConst(retResults(ret)[0]) {
				continue
			}
			n++
			ok2 := sortCall != nil && retResults(ret)[0] == sorted && InstrDominates(sortCall, ret)
			r.Cond(ok2, rule, "ReceiveFileList returns sorted list", p.Pos(ret.Pos()), "the returned list must be the value passed to sortFileList, sorted before returning")
		}
		if n == 0 {
			r.Bad(rule, "ReceiveFileList returns sorted list", p.Pos(rfl.Pos()), "no non-nil list return found")
		}
	}
	// every production call of (*receiver.Transfer).Do passes ReceiveFileList's result
	do := anchorFunc(p, r, pkgReceiver, "Transfer", "Do")
	if do != nil && rfl != nil {
		for _, fn := range p.ModFuncs {
			if isTestSupport(pkgPathOfFunc(fn)) {
				continue
			}
			allCalls(fn, func(c ssa.CallInstruction) {
				if c.Common().StaticCallee() != do {
					return
				}
				a := c.Common().Args
				call, idx := extractOf(a[2])
				ok := call != nil && idx == 0 && call.Common().StaticCallee() == rfl
				r.Cond(ok, rule, fmt.Sprintf("%s → Do(fileList)", funcKey(fn)), p.Pos(instrPos(c)), "file list passed to Do must come from ReceiveFileList (sorted)")
			})
		}
	}
}

// checkIOErrorSticky — C09/IOERROR-STICKY: the I/O error flag the sender
// writes after the file list must reflect an error in ANY of the walks (one per
// source argument): the receiver refuses to delete only when it is non-zero.
// The value written is a flag that is only ever raised: starting from a
// constant, every later assignment is a non-zero constant or combines the
// previous value (|, +, max); it is never overwritten by a per-walk result.
func checkIOErrorSticky(p *Prog, r *Report) {
	rule := "C09/IOERROR-STICKY"
	r.Rule(rule, "the I/O error flag the sender writes after the file list is sticky over all source arguments: the written value starts as a constant and every other assignment to it is a non-zero constant or combines the previous value (|, +, max) — never a per-walk result that can reset it to zero (the receiver skips --delete only when the flag is non-zero)", 1)
	g := p.ModGraph()
	sfl := p.Func(pkgSender, "Transfer", "SendFileList")
	if sfl == nil {
		r.Unk(rule, "SendFileList", "-", "anchor not found")
		return
	}
	// the last Buffer.WriteInt32 in SendFileList before the list is flushed
	var w ssa.CallInstruction
	// the function of the unit that writes the end-of-list marker (Buffer.WriteByte(0)); its last WriteInt32
	for _, fn := range g.unitFuncs(sfl) {
		endMarker := false
		allCalls(fn, func(c ssa.CallInstruction) {
			if calleeName(c) == "(*"+pkgWire+".Buffer).WriteByte" {
				if k, ok := constInt(c.Common().Args[1]); ok && k == 0 {
					endMarker = true
				}
			}
		})
		if !endMarker {
			continue
		}
		var last ssa.CallInstruction
		allCalls(fn, func(c ssa.CallInstruction) {
			if calleeName(c) == "(*"+pkgWire+".Buffer).WriteInt32" {
				if last == nil || c.Pos() > last.Pos() {
					last = c
				}
			}
		})
		if last != nil {
			w = last
		}
	}
	if w == nil {
		r.Unk(rule, "I/O error flag write", p.Pos(sfl.Pos()), "no Buffer.WriteInt32 after the end-of-list marker in the SendFileList unit: the end of the file list is written differently now, re-read")
		return
	}
	v := w.Common().Args[1]
	pos := p.Pos(instrPos(w))
	// written by a split-out helper: the flag is its parameter, follow it to the caller
	if _, isP := v.(*ssa.Parameter); isP {
		if roots := g.paramRoots(v, 0); len(roots) == 1 {
			v = roots[0]
			if in, ok := v.(ssa.Instruction); ok && in.Parent() != nil {
				sfl = in.Parent()
			}
		}
	}
	bad := ""
	if ld, ok := v.(*ssa.UnOp); ok && ld.Op == token.MUL {
		if cell, ok := ld.X.(*ssa.Alloc); ok {
			// all stores to the cell, in SendFileList and in closures that capture it
			type storeAt struct {
				st   *ssa.Store
				self func(ssa.Value) bool
			}
			var stores []storeAt
			selfHere := func(x ssa.Value) bool {
				l, ok := x.(*ssa.UnOp)
				return ok && l.Op == token.MUL && l.X == ssa.Value(cell)
			}
			for _, ref := range *cell.Referrers() {
				switch x := ref.(type) {
				case *ssa.Store:
					if x.Addr == ssa.Value(cell) {
						stores = append(stores, storeAt{x, selfHere})
					}
				case *ssa.MakeClosure:
					lit, _ := x.Fn.(*ssa.Function)
					for i, bnd := range x.Bindings {
						if bnd != ssa.Value(cell) || lit == nil || i >= len(lit.FreeVars) {
							continue
						}
						fv := lit.FreeVars[i]
						selfFv := func(y ssa.Value) bool { l, ok := y.(*ssa.UnOp); return ok && l.Op == token.MUL && l.X == ssa.Value(fv) }
						for _, r2 := range *fv.Referrers() {
							if st, ok := r2.(*ssa.Store); ok && st.Addr == ssa.Value(fv) {
								stores = append(stores, storeAt{st, selfFv})
							}
						}
					}
				}
			}
			loops := naturalLoops(sfl)
			for _, sa := range stores {
				if k, ok := constInt(sa.st.Val); ok {
					if k == 0 && sa.st.Parent() == sfl && len(loopsContaining(loops, sa.st.Block())) > 0 {
						bad = "the flag is reset to 0 inside the per-argument loop at " + p.Pos(sa.st.Pos())
					}
					if k == 0 && sa.st.Parent() != sfl {
						bad = "the flag is reset to 0 in " + funcKey(sa.st.Parent())
					}
					continue
				}
				if !combinesSelf(sa.st.Val, sa.self, 0) {
					bad = "the flag is overwritten at " + p.Pos(sa.st.Pos()) + " by `" + sa.st.Val.String() + "`, which does not include its previous value"
				}
			}
			r.Cond(bad == "", rule, "SendFileList: I/O error flag", pos, bad+": an error in an earlier source argument is forgotten and the receiver deletes the destination's copies of files the sender could not read")
			return
		}
	}
	// the flag lives in a field of a small struct (set through a method)
	if ld, ok := v.(*ssa.UnOp); ok && ld.Op == token.MUL {
		if _, fv := fieldOfAddr(ld.X); fv != nil && fv.Pkg() != nil && isModPath(fv.Pkg().Path()) {
			n := 0
			for _, fn := range p.ModFuncs {
				if fn.Blocks == nil || isTestSupport(pkgPathOfFunc(fn)) {
					continue
				}
				for _, b := range fn.Blocks {
					for _, in := range b.Instrs {
						st, ok := in.(*ssa.Store)
						if !ok {
							continue
						}
						if _, f2 := fieldOfAddr(st.Addr); f2 != fv {
							continue
						}
						n++
						if k, isK := constInt(st.Val); isK {
							if k == 0 {
								bad = "the flag field is reset to 0 at " + p.Pos(st.Pos())
							}
							continue
						}
						self := func(y ssa.Value) bool {
							l, ok := y.(*ssa.UnOp)
							if !ok || l.Op != token.MUL {
								return false
							}
							_, f3 := fieldOfAddr(l.X)
							return f3 == fv
						}
						if !combinesSelf(st.Val, self, 0) {
							bad = "the flag field is overwritten at " + p.Pos(st.Pos()) + " by `" + st.Val.String() + "`"
						}
					}
				}
			}
			// the struct must be created once, outside the per-argument loop
			if a, ok := ld.X.(*ssa.FieldAddr); ok {
				if al, ok := unwrapLocal(a.X).(*ssa.Alloc); ok && al.Parent() != nil {
					if len(loopsContaining(naturalLoops(al.Parent()), al.Block())) > 0 {
						bad = "the flag is re-created inside the per-argument loop at " + p.Pos(al.Pos())
					}
				}
			}
			if n == 0 && bad == "" {
				bad = "the flag field is never raised"
			}
			msg := ""
			if bad != "" {
				msg = bad + ": an error in an earlier source argument is forgotten and the receiver deletes the destination's copies of files the sender could not read"
			}
			r.Cond(bad == "", rule, "SendFileList: I/O error flag", pos, msg)
			return
		}
	}
	// SSA value form: leaves through phis
	var phis []ssa.Value
	var walk func(x ssa.Value, depth int)
	seen := map[ssa.Value]bool{}
	walk = func(x ssa.Value, depth int) {
		if seen[x] || depth > 10 || bad != "" {
			return
		}
		seen[x] = true
		switch y := x.(type) {
		case *ssa.Phi:
			phis = append(phis, y)
			for _, e := range y.Edges {
				walk(e, depth+1)
			}
		case *ssa.Const:
		case *ssa.BinOp:
			if y.Op == token.OR || y.Op == token.ADD {
				walk(y.X, depth+1)
				walk(y.Y, depth+1)
				return
			}
			bad = "`" + y.String() + "`"
		case *ssa.Call:
			if bi, ok := y.Common().Value.(*ssa.Builtin); ok && bi.Name() == "max" {
				for _, a := range y.Common().Args {
					walk(a, depth+1)
				}
				return
			}
			bad = "`" + y.String() + "`"
		default:
			bad = "`" + x.String() + "`"
		}
	}
	walk(v, 0)
	// a non-phi operand of | / + / max may be any per-walk value as long as the previous value takes part:
	// the walk above is stricter (all leaves constant or combined); relax: if v is a phi and every non-constant
	// edge is a combination that mentions one of the phis, accept
	if bad != "" {
		okCombine := false
		if ph, isPhi := v.(*ssa.Phi); isPhi {
			okCombine = true
			isSelf := func(y ssa.Value) bool {
				for _, q := range phis {
					if q == y {
						return true
					}
				}
				return y == ssa.Value(ph)
			}
			for _, e := range ph.Edges {
				if _, isK := constInt(e); isK {
					continue
				}
				if !combinesSelf(e, isSelf, 0) {
					okCombine = false
				}
			}
		}
		if okCombine {
			bad = ""
		}
	}
	msg := ""
	if bad != "" {
		msg = "the flag written is " + bad + ", not a value that is only ever raised: an error in an earlier source argument is forgotten and the receiver deletes the destination's copies of files the sender could not read"
	}
	r.Cond(bad == "", rule, "SendFileList: I/O error flag", pos, msg)
}

// combinesSelf: v is self | x, self + x, max(self, x) (nested), for a value
// recognised by isSelf.
func combinesSelf(v ssa.Value, isSelf func(ssa.Value) bool, depth int) bool {
	if depth > 6 {
		return false
	}
	if isSelf(v) {
		return true
	}
	switch y := v.(type) {
	case *ssa.BinOp:
		if y.Op == token.OR || y.Op == token.ADD {
			return combinesSelf(y.X, isSelf, depth+1) || combinesSelf(y.Y, isSelf, depth+1)
		}
	case *ssa.Call:
		if bi, ok := y.Common().Value.(*ssa.Builtin); ok && bi.Name() == "max" {
			for _, a := range y.Common().Args {
				if combinesSelf(a, isSelf, depth+1) {
					return true
				}
			}
		}
	case *ssa.Phi:
		for _, e := range y.Edges {
			if !combinesSelf(e, isSelf, depth+1) {
				if _, isK := constInt(e); !isK {
					return false
				}
			}
		}
		return true
	}
	return false
}
