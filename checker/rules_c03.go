package main

import (
	"fmt"
	"go/token"
	"go/types"

	"golang.org/x/tools/go/ssa"
)

func init() { register("C03", checkC03) }

const (
	fnCloseReplace = "(*" + pkgRenameio + ".PendingFile).CloseAtomicallyReplace"
	fnCleanup      = "(*" + pkgRenameio + ".PendingFile).Cleanup"
	fnPFName       = "(*" + pkgRenameio + ".PendingFile).Name"
	fnMD4New       = "github.com/mmcloughlin/md4.New"
)

// errValueOf returns the error-typed result value(s) of a call: the call
// itself (single result) or its Extract instructions of error type.
func errValuesOf(c *ssa.Call) []ssa.Value {
	sig := c.Common().Signature()
	res := sig.Results()
	isErr := func(t types.Type) bool { return types.Identical(t, types.Universe.Lookup("error").Type()) }
	if res.Len() == 1 {
		if isErr(res.At(0).Type()) {
			return []ssa.Value{c}
		}
		return nil
	}
	var out []ssa.Value
	for _, ref := range *c.Referrers() {
		if e, ok := ref.(*ssa.Extract); ok && isErr(res.At(e.Index).Type()) {
			out = append(out, e)
		}
	}
	return out
}

// errPropagated: the error result of call c is returned directly, or tested
// against nil with a non-nil error returned on the non-nil edge, possibly
// through a local variable slot (named results / captured err).
func errPropagated(c *ssa.Call) (bool, string) {
	sig := c.Common().Signature()
	res := sig.Results()
	if res.Len() == 0 {
		return false, "callee returns no error"
	}
	vals := errValuesOf(c)
	if res.Len() > 1 {
		// tuple returned directly: return f()
		for _, ref := range *c.Referrers() {
			if _, ok := ref.(*ssa.Return); ok {
				return true, ""
			}
		}
	}
	if len(vals) == 0 {
		return false, "error result is discarded"
	}
	for _, v := range vals {
		// follow one level of store into a local/named-result slot
		cands := []ssa.Value{v}
		for _, ref := range *v.Referrers() {
			if st, ok := ref.(*ssa.Store); ok && st.Val == v {
				if a, ok := st.Addr.(*ssa.Alloc); ok {
					for _, r2 := range *a.Referrers() {
						if ld, ok := r2.(*ssa.UnOp); ok && ld.Op == token.MUL && mayFollow(st, ld) {
							cands = append(cands, ld)
						}
					}
				}
			}
		}
		for _, cv := range cands {
			for _, ref := range *cv.Referrers() {
				switch x := ref.(type) {
				case *ssa.Return:
					return true, ""
				case *ssa.BinOp:
					if x.Op != token.NEQ && x.Op != token.EQL {
						continue
					}
					if !isNilConst(x.X) && !isNilConst(x.Y) {
						continue
					}
					// every path from the non-nil edge must end in a return of a
					// non-nil error: it may neither fall back into the loop around the
					// call (the error would be swallowed and the session carry on) nor
					// return nil.
					for _, ref2 := range *x.Referrers() {
						ifi, isIf := ref2.(*ssa.If)
						if !isIf {
							continue
						}
						start := ifi.Block().Succs[0]
						if x.Op == token.EQL {
							start = ifi.Block().Succs[1]
						}
						seen := map[*ssa.BasicBlock]bool{}
						good, why := true, ""
						var walk func(b *ssa.BasicBlock)
						walk = func(b *ssa.BasicBlock) {
							if seen[b] || !good {
								return
							}
							seen[b] = true
							if b == c.Block() {
								good, why = false, "on the error edge control can return to the call site (error swallowed, e.g. `continue`)"
								return
							}
							if ret, ok := lastInstr(b).(*ssa.Return); ok {
								okRet := false
								for _, rv := range retResults(ret) {
									if types.Identical(rv.Type(), types.Universe.Lookup("error").Type()) && !isNilConst(rv) {
										okRet = true
									}
								}
								if !okRet {
									good, why = false, "a nil error is returned on the error edge"
								}
								return
							}
							for _, sc := range b.Succs {
								walk(sc)
							}
						}
						walk(start)
						if good && len(seen) > 0 {
							return true, ""
						}
						if !good {
							return false, why
						}
					}
				case *ssa.Phi:
					// merged then returned
					for _, r3 := range *x.Referrers() {
						if _, ok := r3.(*ssa.Return); ok {
							return true, ""
						}
					}
				}
			}
		}
	}
	return false, "error result is neither returned nor tested-and-returned"
}

// derivesFrom: v is src, or a conversion of it, or a load of a single-store
// cell holding it.
func derivesFrom(v, src ssa.Value) bool {
	for i := 0; i < 6; i++ {
		if v == src {
			return true
		}
		switch x := v.(type) {
		case *ssa.ChangeInterface:
			v = x.X
		case *ssa.MakeInterface:
			v = x.X
		case *ssa.ChangeType:
			v = x.X
		case *ssa.UnOp:
			if x.Op != token.MUL {
				return false
			}
			var cell ssa.Value = x.X
			var stored ssa.Value
			n := 0
			var refs *[]ssa.Instruction
			switch c := cell.(type) {
			case *ssa.Alloc:
				refs = c.Referrers()
			case *ssa.FreeVar:
				// captured cell: look in the parent for the binding
				fn := c.Parent()
				idx := -1
				for i, fv := range fn.FreeVars {
					if fv == c {
						idx = i
					}
				}
				if fn.Parent() == nil || idx < 0 {
					return false
				}
				for _, b := range fn.Parent().Blocks {
					for _, in := range b.Instrs {
						if mc, ok := in.(*ssa.MakeClosure); ok && mc.Fn == fn && idx < len(mc.Bindings) {
							if a, ok := mc.Bindings[idx].(*ssa.Alloc); ok {
								refs = a.Referrers()
							}
						}
					}
				}
			}
			if refs == nil {
				return false
			}
			for _, ref := range *refs {
				if st, ok := ref.(*ssa.Store); ok {
					stored = st.Val
					n++
				}
			}
			if n != 1 {
				return false
			}
			v = stored
		default:
			return false
		}
	}
	return false
}

// hashSeeding describes the seeded whole-file hash of one function.
type hashSeeding struct {
	newCall  *ssa.Call // md4.New()
	seedCall *ssa.Call // binary.Write(h, LittleEndian, X.Seed)
	ok       bool
	why      string
}

// findHashSeeding checks: exactly one md4.New in fn; one binary.Write whose
// writer derives from it, whose order is binary.LittleEndian and whose data is
// the Transfer's Seed field; and that this call dominates every other
// instruction of fn (incl. closure creations) that uses the hash.
func findHashSeeding(p *Prog, fn *ssa.Function, seedField *types.Var) hashSeeding {
	hs := hashSeeding{}
	n := 0
	allCalls(fn, func(c ssa.CallInstruction) {
		if call, ok := c.(*ssa.Call); ok && calleeName(c) == fnMD4New {
			hs.newCall = call
			n++
		}
	})
	if n != 1 {
		hs.why = "expected exactly one md4.New() for the whole-file hash"
		return hs
	}
	allCalls(fn, func(c ssa.CallInstruction) {
		call, ok := c.(*ssa.Call)
		if !ok || calleeName(c) != "encoding/binary.Write" {
			return
		}
		a := call.Common().Args
		if len(a) != 3 || !derivesFrom(a[0], hs.newCall) {
			return
		}
		le := false
		if mi, ok := a[1].(*ssa.MakeInterface); ok {
			if ld, ok := mi.X.(*ssa.UnOp); ok && ld.Op == token.MUL {
				if g, ok := ld.X.(*ssa.Global); ok && g.Name() == "LittleEndian" && g.Pkg.Pkg.Path() == "encoding/binary" {
					le = true
				}
			}
		}
		seed := false
		if mi, ok := a[2].(*ssa.MakeInterface); ok && isFieldLoad(mi.X, seedField) {
			seed = true
		}
		if le && seed {
			hs.seedCall = call
		}
	})
	if hs.seedCall == nil {
		hs.why = "no binary.Write(h, binary.LittleEndian, <Transfer>.Seed) on the whole-file hash"
		return hs
	}
	// every other user of the hash is dominated by the seeding call
	for _, b := range fn.Blocks {
		for _, in := range b.Instrs {
			if in == ssa.Instruction(hs.seedCall) || in == ssa.Instruction(hs.newCall) {
				continue
			}
			uses := false
			for _, op := range in.Operands(nil) {
				if *op != nil && derivesFrom(*op, hs.newCall) {
					uses = true
				}
			}
			if mc, ok := in.(*ssa.MakeClosure); ok {
				for _, bnd := range mc.Bindings {
					if a, ok := bnd.(*ssa.Alloc); ok {
						for _, ref := range *a.Referrers() {
							if st, ok := ref.(*ssa.Store); ok && derivesFrom(st.Val, hs.newCall) {
								uses = true
							}
						}
					}
				}
			}
			if !uses {
				continue
			}
			switch in.(type) {
			case *ssa.Store, *ssa.ChangeInterface, *ssa.MakeInterface, *ssa.UnOp, *ssa.DebugRef:
				continue // pure moves
			}
			if !InstrDominates(hs.seedCall, in) {
				hs.why = "hash used at " + p.Pos(instrPos(in)) + " before/without the seed being mixed in"
				return hs
			}
		}
	}
	hs.ok = true
	return hs
}

func checkC03(p *Prog, r *Report) {
	recvFuncs := p.FuncsInPkg(pkgReceiver)
	for _, fn := range recvFuncs {
		r.FuncsSeen[funcKey(fn)] = true
	}
	seedR := p.Field(pkgReceiver, "Transfer", "Seed")
	seedS := p.Field(pkgSender, "Transfer", "Seed")
	connReader := p.Field(pkgWire, "Conn", "Reader")
	if seedR == nil || seedS == nil || connReader == nil {
		r.Fatalf("anchor unresolved: Transfer.Seed / Conn.Reader")
		return
	}

	r.Rule("C03/VERIFY-GATE", "every CloseAtomicallyReplace in package receiver is dominated by the true edge of bytes.Equal(a,b) where one operand is the unsliced h.Sum(nil) of the seeded whole-file hash (computed after the last write) and the other the unsliced buffer filled by a dominating io.ReadFull(Conn.Reader, buf)", 1)
	r.Rule("C03/HASH-SEES-ALL", "the pending file is used only as io.MultiWriter(out, h) operand (with the same h), and as receiver of Cleanup/CloseAtomicallyReplace/Name; every Write in the function goes to that MultiWriter", 4)
	for _, fn := range recvFuncs {
		allCalls(fn, func(c ssa.CallInstruction) {
			if calleeName(c) != fnCloseReplace {
				return
			}
			checkVerifyGate(p, r, fn, c, seedR, connReader)
		})
	}

	r.Rule("C03/SEED-MIX", "sender (sendFile, hashSearch) and receiver (receiveData) initialise the whole-file hash identically: md4.New() then binary.Write(h, LittleEndian, Transfer.Seed) before any other use", 3)
	for _, a := range []struct {
		pkg, name string
		seed      *types.Var
	}{{pkgSender, "sendFile", seedS}, {pkgSender, "hashSearch", seedS}, {pkgReceiver, "receiveData", seedR}} {
		fn := anchorFunc(p, r, a.pkg, "Transfer", a.name)
		if fn == nil {
			continue
		}
		hs := findHashSeeding(p, fn, a.seed)
		r.Cond(hs.ok, "C03/SEED-MIX", funcKey(fn)+" whole-file hash seeding", p.Pos(fn.Pos()), hs.why)
	}

	r.Rule("C03/NO-REPLACE-ON-CLOSE", "renameio.WithReplaceOnClose and (*PendingFile).Close are never called in production code (either would replace the destination without passing the checksum gate)", 0)
	nScanned := 0
	for _, fn := range p.ModFuncs {
		if isTestSupport(pkgPathOfFunc(fn)) {
			continue
		}
		nScanned++
		allCalls(fn, func(c ssa.CallInstruction) {
			switch calleeName(c) {
			case pkgRenameio + ".WithReplaceOnClose", "(*" + pkgRenameio + ".PendingFile).Close":
				r.Bad("C03/NO-REPLACE-ON-CLOSE", funcKey(fn)+" → "+calleeName(c), p.Pos(instrPos(c)), "replaces the destination on Close, bypassing the checksum comparison")
			}
		})
	}
	r.OK("C03/NO-REPLACE-ON-CLOSE", "module scanned", "-", "")
	r.Info("C03/NO-REPLACE-ON-CLOSE scanned %d functions", nScanned)

	r.Rule("C03/ERROR-PROPAGATES", "the error of receiveData reaches the session's return value: at every call site of receiveData, recvFile1, RecvFiles, GenerateFiles, recvGenerator, waitFor, (*errgroup.Group).Wait and (*receiver.Transfer).Do in production code the error result is returned or tested and returned", 8)
	chain := map[string]bool{"receiveData": true, "recvFile1": true, "RecvFiles": true, "GenerateFiles": true, "recvGenerator": true, "waitFor": true, "Do": true}
	for _, fn := range p.ModFuncs {
		if isTestSupport(pkgPathOfFunc(fn)) {
			continue
		}
		allCalls(fn, func(ci ssa.CallInstruction) {
			c, ok := ci.(*ssa.Call)
			if !ok {
				if sc := ci.Common().StaticCallee(); sc != nil && pkgPathOfFunc(sc) == pkgReceiver && chain[sc.Name()] {
					r.Bad("C03/ERROR-PROPAGATES", funcKey(fn)+" → "+sc.Name()+" (go/defer)", p.Pos(instrPos(ci)), "result discarded by go/defer")
				}
				return
			}
			name := ""
			if sc := c.Common().StaticCallee(); sc != nil && pkgPathOfFunc(sc) == pkgReceiver && chain[sc.Name()] {
				name = sc.Name()
			} else if calleeName(c) == "(*golang.org/x/sync/errgroup.Group).Wait" && pkgPathOfFunc(fn) == pkgReceiver {
				name = "errgroup.Wait"
			}
			if name == "" {
				return
			}
			ok2, why := errPropagated(c)
			r.Cond(ok2, "C03/ERROR-PROPAGATES", funcKey(fn)+" → "+name, p.Pos(instrPos(c)), why)
		})
	}
	checkDeferKeepsError(p, r)
	checkWindowFullyRead(p, r, "C03/SENDER-READ-WINDOW")
	r.Trust("MD4 detects corruption (probabilistic); renameio.CloseAtomicallyReplace is the only operation that makes the temp file visible under the final name")
	r.Uncovered("that the peer's trailer is the hash of what the peer read beyond the window-fill clause (C03/SENDER-READ-WINDOW); probability of MD4 collisions")
}

func checkVerifyGate(p *Prog, r *Report, fn *ssa.Function, closeCall ssa.CallInstruction, seedField, connReader *types.Var) {
	pos := p.Pos(instrPos(closeCall))
	base := funcKey(fn) + " → CloseAtomicallyReplace"
	out := closeCall.Common().Args[0]
	hs := findHashSeeding(p, fn, seedField)
	if !hs.ok {
		r.Bad("C03/VERIFY-GATE", base, pos, "cannot identify the seeded whole-file hash: "+hs.why)
		return
	}
	// the MultiWriter and the writes
	var mw *ssa.Call
	allCalls(fn, func(c ssa.CallInstruction) {
		if call, ok := c.(*ssa.Call); ok && calleeName(c) == "io.MultiWriter" {
			mw = call
		}
	})
	var writes []ssa.CallInstruction
	allCalls(fn, func(c ssa.CallInstruction) {
		if c.Common().IsInvoke() && c.Common().Method.Name() == "Write" {
			writes = append(writes, c)
		}
	})
	// gate
	gateOK := false
	why := "no dominating bytes.Equal(h.Sum(nil), <trailer read from the wire>) == true"
	for _, f := range FactsAt(closeCall) {
		eq, ok := f.Cond.(*ssa.Call)
		if !ok || !f.Val || calleeName(eq) != "bytes.Equal" {
			continue
		}
		a, b := eq.Common().Args[0], eq.Common().Args[1]
		// the comparison may sit in a helper (verifyFileSum(localSum)): a parameter
		// operand is the argument of the helper's (single) call site
		resolve := func(v ssa.Value) ssa.Value {
			if _, isP := v.(*ssa.Parameter); isP {
				if roots := p.ModGraph().paramRoots(v, 0); len(roots) == 1 {
					return roots[0]
				}
			}
			return v
		}
		a, b = resolve(a), resolve(b)
		for _, pair := range [][2]ssa.Value{{a, b}, {b, a}} {
			sum, buf := pair[0], pair[1]
			sc, ok := sum.(*ssa.Call)
			if !ok || !sc.Common().IsInvoke() || sc.Common().Method.Name() != "Sum" || !derivesFrom(sc.Common().Value, hs.newCall) {
				why = "bytes.Equal operand is not the full h.Sum(nil) of the whole-file hash (sliced or unrelated value)"
				continue
			}
			if len(sc.Common().Args) != 1 || !isNilConst(sc.Common().Args[0]) {
				why = "h.Sum must be called with nil"
				continue
			}
			// sum computed after the last write
			late := true
			for _, w := range writes {
				if mayFollow(sc, w) {
					late = false
				}
			}
			if !late {
				why = "a Write may follow h.Sum(nil): the compared sum would not cover all written bytes"
				continue
			}
			// buf filled by a dominating io.ReadFull(Conn.Reader, buf)
			if _, isMk := buf.(*ssa.MakeSlice); !isMk {
				why = "trailer operand is not an unsliced freshly allocated buffer"
				continue
			}
			filled := false
			// the sum is taken before the trailer is read: directly, or before the helper that reads it is called
			sumFirst := func(c ssa.CallInstruction) bool {
				if c.Parent() == sc.Parent() {
					return InstrDominates(sc, c)
				}
				okAll, n := true, 0
				allCalls(sc.Parent(), func(hc ssa.CallInstruction) {
					if hc.Common().StaticCallee() == c.Parent() {
						n++
						if !InstrDominates(sc, hc) {
							okAll = false
						}
					}
				})
				return okAll && n > 0
			}
			allCalls(eq.Parent(), func(c ssa.CallInstruction) {
				if calleeName(c) != "io.ReadFull" {
					return
				}
				ra := c.Common().Args
				if ra[1] == buf && isFieldLoad(stripConv(ra[0]), connReader) && InstrDominates(c, eq) && sumFirst(c) {
					if call, ok := c.(*ssa.Call); ok {
						// and its error aborts
						if ok2, _ := errPropagated(call); ok2 {
							filled = true
						}
					}
				}
			})
			if !filled {
				why = "trailer buffer is not filled by a dominating, error-checked io.ReadFull(Conn.Reader, buf) after the sum"
				continue
			}
			gateOK = true
		}
	}
	r.Cond(gateOK, "C03/VERIFY-GATE", base, pos, why)

	// HASH-SEES-ALL: uses of the pending file
	if mw == nil {
		r.Bad("C03/HASH-SEES-ALL", base+" [multiwriter]", pos, "no io.MultiWriter found")
		return
	}
	// the values that are the pending file: the variable may live in a cell when a
	// function literal (e.g. a deferred cleanup) captures it
	outs := []ssa.Value{out}
	if ld, ok := out.(*ssa.UnOp); ok && ld.Op == token.MUL {
		if cell, ok := ld.X.(*ssa.Alloc); ok {
			if v := unwrapLocal(out); v != out {
				outs = []ssa.Value{v}
				var addLoads func(addr ssa.Value)
				addLoads = func(addr ssa.Value) {
					for _, ref := range *addr.Referrers() {
						switch x := ref.(type) {
						case *ssa.UnOp:
							if x.Op == token.MUL {
								outs = append(outs, x)
							}
						case *ssa.MakeClosure:
							lit := x.Fn.(*ssa.Function)
							for i, bv := range x.Bindings {
								if bv == addr {
									addLoads(lit.FreeVars[i])
								}
							}
						}
					}
				}
				addLoads(cell)
			}
		}
	}
	isOut := func(v ssa.Value) bool {
		for _, o := range outs {
			if v == o || derivesFrom(v, o) {
				return true
			}
		}
		return false
	}
	elems := variadicElems(mw.Common().Args[0])
	okMW := len(elems) == 2
	if okMW {
		var hasOut, hasH bool
		for _, e := range elems {
			if isOut(e) {
				hasOut = true
			}
			if derivesFrom(e, hs.newCall) {
				hasH = true
			}
		}
		okMW = hasOut && hasH
	}
	r.Cond(okMW, "C03/HASH-SEES-ALL", base+" [multiwriter(out,h)]", p.Pos(mw.Pos()), "io.MultiWriter must combine exactly the pending file and the whole-file hash")
	for _, w := range writes {
		r.Cond(w.Common().Value == ssa.Value(mw), "C03/HASH-SEES-ALL", base+" [write goes to multiwriter]", p.Pos(instrPos(w)), "a Write that bypasses the MultiWriter reaches the file or the hash but not both")
	}
	// every referrer of out
	for _, o := range outs {
		refs := o.Referrers()
		if refs == nil {
			continue
		}
		for _, ref := range *refs {
			switch x := ref.(type) {
			case *ssa.DebugRef:
				continue
			case *ssa.Store:
				if x.Val == o && len(outs) > 1 {
					if _, isCell := x.Addr.(*ssa.Alloc); isCell && x.Val == outs[0] {
						continue // the one store into the variable's cell
					}
				}
				r.Bad("C03/HASH-SEES-ALL", base+" [pending file use]", p.Pos(instrPos(ref)), "the pending file is stored somewhere else")
			case ssa.CallInstruction:
				switch calleeName(x) {
				case fnCleanup, fnCloseReplace, fnPFName:
					continue
				}
				r.Bad("C03/HASH-SEES-ALL", base+" [pending file use: "+calleeName(x)+"]", p.Pos(instrPos(x)), "pending file passed to/used by another call: bytes could reach it without entering the hash")
			case *ssa.MakeInterface, *ssa.ChangeInterface:
				// must flow only into the MultiWriter slice
				okFlow := false
				for _, e := range elems {
					if e == x.(ssa.Value) {
						okFlow = true
					}
				}
				r.Cond(okFlow, "C03/HASH-SEES-ALL", base+" [pending file boxed]", p.Pos(instrPos(x)), "pending file converted to an interface outside the MultiWriter")
			case *ssa.FieldAddr:
				// embedded *os.File: only read-only metadata methods (Name) are allowed
				okField := true
				for _, r2 := range *x.Referrers() {
					ld, isLd := r2.(*ssa.UnOp)
					if !isLd {
						okField = false
						continue
					}
					for _, r3 := range *ld.Referrers() {
						ci, isCall := r3.(ssa.CallInstruction)
						if _, isDbg := r3.(*ssa.DebugRef); isDbg {
							continue
						}
						if !isCall || calleeName(ci) != "(*os.File).Name" {
							okField = false
						}
					}
				}
				r.Cond(okField, "C03/HASH-SEES-ALL", base+" [embedded file access]", p.Pos(instrPos(x)), "the embedded *os.File of the pending file is used for something other than Name(): bytes could bypass the hash")
			default:
				r.Bad("C03/HASH-SEES-ALL", base+" [pending file use]", p.Pos(instrPos(ref)), "unexpected use of the pending file (field access, store, …)")
			}
		}
	}
}

// checkDeferKeepsError: a function literal (typically deferred) that assigns
// to the enclosing function's named error result must not be able to replace a
// non-nil error by nil: the store is dominated by a test that the result is
// still nil, or the stored value is never nil. Otherwise the verification
// failure of receiveData (or any error below it) can be turned into success on
// the way out.
func checkDeferKeepsError(p *Prog, r *Report) {
	rule := "C03/DEFER-KEEPS-ERROR"
	r.Rule(rule, "in the receiver, daemon and client packages no function literal overwrites the enclosing function's named error result unless the result is known to be nil at that point or the new value is never nil", 0)
	nFn, nStores := 0, 0
	for _, fn := range p.ModFuncs {
		pk := pkgPathOfFunc(fn)
		if isTestSupport(pk) || fn.Parent() != nil || fn.Blocks == nil {
			continue
		}
		// named error results that live in cells: the Allocs the returns load from
		cells := map[*ssa.Alloc]bool{}
		for _, b := range fn.Blocks {
			ret, ok := lastInstr(b).(*ssa.Return)
			if !ok {
				continue
			}
			for i, rv := range ret.Results {
				if fn.Signature.Results().At(i).Name() == "" {
					continue // unnamed: a cell here is go/ssa's lowering of range-over-func returns
				}
				if ld, ok := rv.(*ssa.UnOp); ok && ld.Op == token.MUL && isErrorType(ld.Type()) {
					if a, ok := ld.X.(*ssa.Alloc); ok {
						cells[a] = true
					}
				}
			}
		}
		if len(cells) == 0 {
			continue
		}
		nFn++
		var visit func(lit *ssa.Function, bind map[*ssa.FreeVar]*ssa.Alloc)
		visit = func(lit *ssa.Function, bind map[*ssa.FreeVar]*ssa.Alloc) {
			for _, b := range lit.Blocks {
				for _, in := range b.Instrs {
					switch x := in.(type) {
					case *ssa.MakeClosure:
						sub := x.Fn.(*ssa.Function)
						nb := map[*ssa.FreeVar]*ssa.Alloc{}
						for i, bv := range x.Bindings {
							if a, ok := bv.(*ssa.Alloc); ok && cells[a] {
								nb[sub.FreeVars[i]] = a
							} else if fv, ok := bv.(*ssa.FreeVar); ok && bind[fv] != nil {
								nb[sub.FreeVars[i]] = bind[fv]
							}
						}
						if len(nb) > 0 {
							visit(sub, nb)
						}
					case *ssa.Store:
						fv, ok := x.Addr.(*ssa.FreeVar)
						if !ok || bind[fv] == nil {
							continue
						}
						nStores++
						okStore := neverNil(x.Val)
						if !okStore {
							// dominated by `result == nil`
							okStore = HasFact(x, true, func(c ssa.Value) bool {
								bo, isB := c.(*ssa.BinOp)
								if !isB || bo.Op != token.EQL || !isNilConst(bo.Y) {
									return false
								}
								ld, isL := bo.X.(*ssa.UnOp)
								return isL && ld.Op == token.MUL && ld.X == ssa.Value(fv)
							}) || HasFact(x, false, func(c ssa.Value) bool {
								bo, isB := c.(*ssa.BinOp)
								if !isB || bo.Op != token.NEQ || !isNilConst(bo.Y) {
									return false
								}
								ld, isL := bo.X.(*ssa.UnOp)
								return isL && ld.Op == token.MUL && ld.X == ssa.Value(fv)
							})
						}
						r.Cond(okStore, rule, funcKey(fn)+" literal overwrites named error result", p.Pos(x.Pos()), "a deferred/inner function assigns the named error result without knowing it is nil: a failure (e.g. the whole-file checksum mismatch) can leave the function as success")
					}
				}
			}
		}
		visit(fn, map[*ssa.FreeVar]*ssa.Alloc{})
	}
	r.OK(rule, "named error results scanned", "-", fmt.Sprintf("%d functions with named error results in cells, %d stores from literals", nFn, nStores))
}
