package main

import (
	"fmt"
	"go/ast"
	"go/token"
	"go/types"
	"os"
	"sort"
	"strings"

	"golang.org/x/tools/go/callgraph"
	"golang.org/x/tools/go/callgraph/cha"
	"golang.org/x/tools/go/callgraph/vta"
	"golang.org/x/tools/go/packages"
	"golang.org/x/tools/go/ssa"
	"golang.org/x/tools/go/ssa/ssautil"
)

const modPath = "github.com/gokrazy/rsync"

// Prog is the loaded, type-checked, SSA-built view of /repo's working tree
// for one build configuration.
type Prog struct {
	Repo   string
	Config string // e.g. linux/amd64
	Fset   *token.FileSet
	Pkgs   []*packages.Package          // module packages (roots)
	ByPath map[string]*packages.Package // all loaded packages incl. deps
	SSA    *ssa.Program
	// all source-level SSA functions of module packages (incl. anonymous)
	ModFuncs []*ssa.Function
	cg       *callgraph.Graph
	chaCG    *callgraph.Graph
	mg       *ModGraph
}

// test-support packages: loaded and type-checked, never treated as production.
var testSupport = map[string]bool{
	modPath + "/internal/rsynctest":   true,
	modPath + "/internal/testlogger":  true,
	modPath + "/internal/rsyncostest": true,
}

func isTestSupport(path string) bool {
	return testSupport[path] || strings.HasPrefix(path, modPath+"/integration")
}

func isModPath(path string) bool {
	return path == modPath || strings.HasPrefix(path, modPath+"/")
}

func Load(repo, goos, goarch string) (*Prog, error) {
	env := append(os.Environ(), "GOOS="+goos, "GOARCH="+goarch, "CGO_ENABLED=0", "GOWORK=off", "GOFLAGS=-mod=mod", "GOPROXY=off")
	cfg := &packages.Config{
		Mode:  packages.LoadAllSyntax,
		Dir:   repo,
		Env:   env,
		Tests: false,
	}
	pkgs, err := packages.Load(cfg, "./...")
	if err != nil {
		return nil, fmt.Errorf("packages.Load: %v", err)
	}
	if len(pkgs) == 0 {
		return nil, fmt.Errorf("zero packages loaded from %s", repo)
	}
	p := &Prog{Repo: repo, Config: goos + "/" + goarch, ByPath: map[string]*packages.Package{}}
	var errs []string
	packages.Visit(pkgs, nil, func(pk *packages.Package) {
		p.ByPath[pk.PkgPath] = pk
		if isModPath(pk.PkgPath) {
			for _, e := range pk.Errors {
				errs = append(errs, e.Error())
			}
		}
	})
	if len(errs) > 0 {
		return nil, fmt.Errorf("type/load errors in module packages: %s", strings.Join(errs, "; "))
	}
	for _, pk := range pkgs {
		if !isModPath(pk.PkgPath) {
			return nil, fmt.Errorf("unexpected root package %s", pk.PkgPath)
		}
	}
	p.Pkgs = pkgs
	p.Fset = pkgs[0].Fset
	prog, _ := ssautil.AllPackages(pkgs, ssa.InstantiateGenerics)
	prog.Build()
	p.SSA = prog
	for fn := range ssautil.AllFunctions(prog) {
		if fn.Pkg == nil || fn.Pkg.Pkg == nil || fn.Synthetic != "" {
			continue
		}
		if isModPath(fn.Pkg.Pkg.Path()) && fn.Blocks != nil {
			p.ModFuncs = append(p.ModFuncs, fn)
		}
	}
	sort.Slice(p.ModFuncs, func(i, j int) bool { return funcKey(p.ModFuncs[i]) < funcKey(p.ModFuncs[j]) })
	return p, nil
}

// CallGraph builds (once) the VTA call graph seeded with CHA.
func (p *Prog) CallGraph() *callgraph.Graph {
	if p.cg == nil {
		p.chaCG = cha.CallGraph(p.SSA)
		p.cg = vta.CallGraph(ssautil.AllFunctions(p.SSA), p.chaCG)
	}
	return p.cg
}

// funcKey is a stable, position-free name for an SSA function:
// pkgpath.(Recv).Name or parent$N for literals.
func funcKey(fn *ssa.Function) string {
	if fn == nil {
		return "<nil>"
	}
	if fn.Parent() != nil {
		// anonymous: parent key + $index among parent's AnonFuncs
		idx := 0
		for i, a := range fn.Parent().AnonFuncs {
			if a == fn {
				idx = i + 1
			}
		}
		return fmt.Sprintf("%s$%d", funcKey(fn.Parent()), idx)
	}
	s := fn.String()
	return strings.ReplaceAll(s, modPath, "rsync")
}

func shortKey(s string) string { return strings.ReplaceAll(s, modPath, "rsync") }

// Func resolves a package-level function or method by import path, receiver
// type name ("" for functions) and name; nil if it does not exist.
func (p *Prog) Func(pkgPath, recv, name string) *ssa.Function {
	pk := p.ByPath[pkgPath]
	if pk == nil || pk.Types == nil {
		return nil
	}
	sp := p.SSA.Package(pk.Types)
	if sp == nil {
		return nil
	}
	if recv == "" {
		return sp.Func(name)
	}
	obj := pk.Types.Scope().Lookup(recv)
	if obj == nil {
		return nil
	}
	named, ok := obj.Type().(*types.Named)
	if !ok {
		return nil
	}
	for _, t := range []types.Type{types.NewPointer(named), named} {
		ms := p.SSA.MethodSets.MethodSet(t)
		if sel := ms.Lookup(pk.Types, name); sel != nil {
			if fn := p.SSA.MethodValue(sel); fn != nil && fn.Synthetic == "" {
				return fn
			}
		}
	}
	return nil
}

// Field resolves a struct field object.
func (p *Prog) Field(pkgPath, typeName, field string) *types.Var {
	pk := p.ByPath[pkgPath]
	if pk == nil || pk.Types == nil {
		return nil
	}
	obj := pk.Types.Scope().Lookup(typeName)
	if obj == nil {
		return nil
	}
	st, ok := obj.Type().Underlying().(*types.Struct)
	if !ok {
		return nil
	}
	for i := 0; i < st.NumFields(); i++ {
		if st.Field(i).Name() == field {
			return st.Field(i)
		}
	}
	return nil
}

// Obj resolves a package-scope object (func, const, var, type).
func (p *Prog) Obj(pkgPath, name string) types.Object {
	pk := p.ByPath[pkgPath]
	if pk == nil || pk.Types == nil {
		return nil
	}
	return pk.Types.Scope().Lookup(name)
}

func (p *Prog) Pos(pos token.Pos) string {
	if !pos.IsValid() {
		return "?"
	}
	ps := p.Fset.Position(pos)
	f := strings.TrimPrefix(ps.Filename, p.Repo+"/")
	return fmt.Sprintf("%s:%d", f, ps.Line)
}

// FuncsInPkg returns source functions (incl. literals) of one package.
func (p *Prog) FuncsInPkg(pkgPath string) []*ssa.Function {
	var out []*ssa.Function
	for _, fn := range p.ModFuncs {
		if fn.Pkg.Pkg.Path() == pkgPath {
			out = append(out, fn)
		}
	}
	return out
}

// instrPos gives the best position for an instruction (SSA positions are
// sometimes NoPos; fall back to enclosing function).
func instrPos(in ssa.Instruction) token.Pos {
	if in.Pos().IsValid() {
		return in.Pos()
	}
	if c, ok := in.(ssa.CallInstruction); ok {
		if c.Common().Pos().IsValid() {
			return c.Common().Pos()
		}
	}
	if v, ok := in.(ssa.Value); ok {
		_ = v
	}
	return in.Parent().Pos()
}

// syntaxFor returns the *ast.FuncDecl / *ast.FuncLit node of fn.
func syntaxFor(fn *ssa.Function) ast.Node { return fn.Syntax() }

// shortFn: bare function name (method name without receiver).
func shortFn(fn *ssa.Function) string { return fn.Name() }
