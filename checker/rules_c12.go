package main

import (
	"go/token"
	"sort"
	"strings"

	"golang.org/x/tools/go/ssa"
)

func init() { register("C12", checkC12) }

func checkC12(p *Prog, r *Report) {
	checkSkipFileTable(p, r)
	checkModTimeEqual(p, r, "C12/SECOND-GRANULARITY")
	checkRequestTable(p, r)
	// the mtime must actually be applied for repeat syncs to be no-ops
	checkOptionGuardsAs(p, r, "C12/MTIME-APPLIED", true)
	checkSetPermsPathsAs(p, r, "C12/MTIME-APPLIED-PATHS")
	// the update rule compares with the sender's size, mtime and (under -c) checksum: they must be on the wire for every entry
	checkEncoderCarries(p, r, "C12/WIRE-FIELDS", "the update rule's inputs are on the wire for every entry: for every (file type × option subset) the entry encoder emits exactly one record sequence with the entry's own length and mtime (never 'same as previous', whose reference entry differs between the ends for the first entry of a source argument or after an excluded entry) and the 16-byte whole-file checksum iff -c")
	// the update rule's inputs are recomputed from the file system on every run
	r.Rule("C12/NO-STALE-INPUTS", "size, mtime and (under -c) the whole-file checksum that enter the update rule are computed from the file system in this session: code reachable from the sender's file-list construction and from the receiver's generator references no process-wide mutable state (caches keyed by name/size/mtime survive a content change that keeps size and mtime) beyond the reviewed allow-table", 1)
	{
		g := p.ModGraph()
		var entries []*ssa.Function
		for _, a := range [][3]string{{pkgSender, "Transfer", "SendFileList"}, {pkgReceiver, "Transfer", "GenerateFiles"}, {pkgReceiver, "Transfer", "skipFile"}} {
			if fn := p.Func(a[0], a[1], a[2]); fn != nil {
				entries = append(entries, fn)
			}
		}
		var scope []*ssa.Function
		for fn := range g.Reach(entries, nil) {
			if isModFunc(fn) && fn.Blocks != nil && !isTestSupport(pkgPathOfFunc(fn)) {
				scope = append(scope, fn)
			}
		}
		sort.Slice(scope, func(i, j int) bool { return funcKey(scope[i]) < funcKey(scope[j]) })
		if len(entries) < 3 {
			r.Unk("C12/NO-STALE-INPUTS", "entries", "-", "SendFileList / GenerateFiles / skipFile not found")
		} else {
			checkSharedStateUse(p, r, "C12/NO-STALE-INPUTS", scope)
		}
	}
	r.Trust("time.Time.Truncate/Equal semantics; bytes.Equal")
	r.Uncovered("that equal decision tables imply equal behaviour for all timestamps; repeat-sync idempotence end to end (needs C11: mtime applied after the rename)")
}

func checkSkipFileTable(p *Prog, r *Report) {
	rule := "C12/SKIPFILE-TABLE"
	r.Rule(rule, "decision table of receiver.(*Transfer).skipFile: S=(st.Size()!=f.Length) → request; else -c → content checksum equality of f.Checksum and RootChecksum(DestRoot,f.Name) (error → error); else -I → request; else modTimeEqual(st.ModTime(), f.ModTime)", 5)
	fn := anchorFunc(p, r, pkgReceiver, "Transfer", "skipFile")
	if fn == nil {
		return
	}
	lengthF := p.Field(pkgReceiver, "File", "Length")
	csumF := p.Field(pkgReceiver, "File", "Checksum")
	nameF := p.Field(pkgReceiver, "File", "Name")
	mtF := p.Field(pkgReceiver, "File", "ModTime")
	acF := p.Field(pkgReceiver, "TransferOpts", "AlwaysChecksum")
	itF := p.Field(pkgReceiver, "TransferOpts", "IgnoreTimes")
	destRoot := p.Field(pkgReceiver, "Transfer", "DestRoot")
	mte := anchorFunc(p, r, pkgReceiver, "", "modTimeEqual")
	if lengthF == nil || csumF == nil || acF == nil || itF == nil || mte == nil || len(fn.Params) != 3 {
		r.Fatalf("anchor unresolved for %s", rule)
		return
	}
	fP, stP := fn.Params[1], fn.Params[2]
	isInvoke := func(v ssa.Value, recv ssa.Value, m string) bool {
		c, ok := v.(*ssa.Call)
		return ok && c.Common().IsInvoke() && c.Common().Method.Name() == m && c.Common().Value == recv
	}
	fieldOfF := func(v ssa.Value, f interface{ Name() string }) bool {
		base, fld := loadedField(v)
		return fld != nil && fld.Name() == f.Name() && base == ssa.Value(fP)
	}
	isRootSum := func(v ssa.Value, idx int) bool {
		c, i := extractOf(v)
		if c == nil || i != idx || calleeName(c) != pkgChecksum+".RootChecksum" {
			return false
		}
		a := c.Common().Args
		return isFieldLoad(a[0], destRoot) && fieldOfF(a[1], nameF)
	}
	atom := func(cond ssa.Value) (string, bool, bool) {
		switch x := cond.(type) {
		case *ssa.BinOp:
			if x.Op == token.NEQ || x.Op == token.EQL {
				if (isInvoke(x.X, stP, "Size") && fieldOfF(x.Y, lengthF)) || (isInvoke(x.Y, stP, "Size") && fieldOfF(x.X, lengthF)) {
					return "S", x.Op == token.EQL, true
				}
				if (isRootSum(x.X, 1) && isNilConst(x.Y)) || (isRootSum(x.Y, 1) && isNilConst(x.X)) {
					return "CE", x.Op == token.EQL, true
				}
			}
		case *ssa.UnOp:
			if isFieldLoad(x, acF) {
				return "C", false, true
			}
			if isFieldLoad(x, itF) {
				return "I", false, true
			}
		}
		return "", false, false
	}
	pe := &PathEnum{Atom: atom, BackEdge: "loop", Outcome: func(last ssa.Instruction, _ []string) string {
		ret, ok := last.(*ssa.Return)
		if !ok || len(ret.Results) != 2 {
			return "?"
		}
		rr := retResults(ret)
		v, e := rr[0], rr[1]
		if !isNilConst(e) {
			if c, ok := v.(*ssa.Const); ok && c.Value != nil && c.Value.ExactString() == "false" && isRootSum(e, 1) {
				return "error"
			}
			return "?error-shape"
		}
		if c, ok := v.(*ssa.Const); ok && c.Value != nil {
			if c.Value.ExactString() == "false" {
				return "request"
			}
			return "skip-unconditionally"
		}
		if c, ok := v.(*ssa.Call); ok {
			a := c.Common().Args
			switch {
			case calleeName(c) == "bytes.Equal":
				// f.Checksum[:] vs sum[:]
				isCk := func(v ssa.Value) bool {
					sl, ok := v.(*ssa.Slice)
					if !ok || sl.Low != nil || sl.High != nil {
						return false
					}
					b, fld := fieldOfAddr(sl.X)
					return fld == csumF && b == ssa.Value(fP)
				}
				isSum := func(v ssa.Value) bool {
					sl, ok := v.(*ssa.Slice)
					return ok && sl.Low == nil && sl.High == nil && isRootSum(sl.X, 0)
				}
				if (isCk(a[0]) && isSum(a[1])) || (isCk(a[1]) && isSum(a[0])) {
					return "E"
				}
			case c.Common().StaticCallee() == mte:
				if (isInvoke(a[0], stP, "ModTime") && fieldOfF(a[1], mtF)) || (isInvoke(a[1], stP, "ModTime") && fieldOfF(a[0], mtF)) {
					return "T"
				}
			}
		}
		return "?unrecognised-result"
	}}
	pe.Run(fn)
	spec := func(ask func(string) bool) string {
		if ask("S") {
			return "request"
		}
		if ask("C") {
			if ask("CE") {
				return "error"
			}
			return "E"
		}
		if ask("I") {
			return "request"
		}
		return "T"
	}
	CheckTable(p, r, rule, "skipFile", pe, spec)
}

// paramOrReassigned: v is parameter prm, or a load of the local slot the
// parameter was spilled to.
func checkModTimeEqual(p *Prog, r *Report, rule string) {
	r.Rule(rule, "modTimeEqual(a,b) returns a.Truncate(time.Second).Equal(b.Truncate(time.Second))", 1)
	fn := anchorFunc(p, r, pkgReceiver, "", "modTimeEqual")
	if fn == nil || len(fn.Params) != 2 {
		return
	}
	truncOf := func(v ssa.Value, prm *ssa.Parameter) bool {
		c, ok := v.(*ssa.Call)
		if !ok || calleeName(c) != "(time.Time).Truncate" {
			return false
		}
		a := c.Common().Args
		k, isK := constInt(a[1])
		return a[0] == ssa.Value(prm) && isK && k == 1000000000
	}
	ok := false
	nret := 0
	for _, b := range fn.Blocks {
		ret, isRet := lastInstr(b).(*ssa.Return)
		if !isRet {
			continue
		}
		nret++
		c, isC := retResults(ret)[0].(*ssa.Call)
		if !isC || calleeName(c) != "(time.Time).Equal" {
			continue
		}
		a := c.Common().Args
		if (truncOf(a[0], fn.Params[0]) && truncOf(a[1], fn.Params[1])) || (truncOf(a[0], fn.Params[1]) && truncOf(a[1], fn.Params[0])) {
			ok = true
		}
	}
	r.Cond(ok && nret == 1, rule, "modTimeEqual", p.Pos(fn.Pos()), "must compare both times truncated to whole seconds with Equal (not a tolerance window, not raw times)")
}

func checkRequestTable(p *Prog, r *Report) {
	rule := "C12/REQUEST-TABLE"
	r.Rule(rule, "paths of receiver.(*Transfer).recvGenerator (unknown conditions explored both ways): for a regular list entry the index is requested iff the destination is missing (in a dry run also: a parent is not a directory yet, ENOTDIR), is not regular, or skipFile says no; Lstat/skipFile errors abort; an error return is always acceptable", 8)
	fn := anchorFunc(p, r, pkgReceiver, "Transfer", "recvGenerator")
	skip := anchorFunc(p, r, pkgReceiver, "Transfer", "skipFile")
	lo := anchorFunc(p, r, pkgReceiver, "Transfer", "listOnly")
	modeF := p.Field(pkgReceiver, "File", "Mode")
	nameF := p.Field(pkgReceiver, "File", "Name")
	pl := p.Field(pkgReceiver, "TransferOpts", "PreserveLinks")
	pd := p.Field(pkgReceiver, "TransferOpts", "PreserveDevices")
	dryF := p.Field(pkgReceiver, "TransferOpts", "DryRun")
	if fn == nil || skip == nil || lo == nil || modeF == nil || pl == nil || pd == nil || len(fn.Params) != 3 {
		r.Fatalf("anchor unresolved for %s", rule)
		return
	}
	idxP, fP := fn.Params[1], fn.Params[2]
	g := p.ModGraph()
	unit := g.unitFuncs(fn)
	inUnit := func(f *ssa.Function) bool {
		for _, u := range unit {
			if u == f {
				return true
			}
		}
		return false
	}
	var pe *PathEnum
	canon := func(v ssa.Value) ssa.Value {
		if pe == nil {
			return v
		}
		return pe.C(unwrapLocal(v))
	}
	isF := func(v ssa.Value) bool { v = canon(v); return v == ssa.Value(fP) || derivesFrom(v, fP) }
	isModeVal := func(v ssa.Value) bool {
		b, ok := v.(*ssa.BinOp)
		if !ok || b.Op != token.AND {
			return false
		}
		k, isK := constInt(b.Y)
		base, fld := loadedField(b.X)
		return isK && k == 0o170000 && fld == modeF && isF(base)
	}
	typeNames := map[int64]string{0o040000: "DIR", 0o120000: "LNK", 0o020000: "CHR", 0o060000: "BLK", 0o140000: "SOCK", 0o010000: "FIFO", 0o100000: "REGMODE"}
	// the Lstat of the destination entry: DestRoot.Lstat(f.Name) in recvGenerator, or in a
	// helper recvGenerator calls with f.Name (the helper's parameter is the Lstat argument)
	var lstat *ssa.Call
	allCalls(fn, func(c ssa.CallInstruction) {
		call, ok := c.(*ssa.Call)
		if !ok || lstat != nil {
			return
		}
		if calleeName(c) == "(*os.Root).Lstat" {
			if _, fld := loadedField(call.Common().Args[1]); fld == nameF {
				lstat = call
			}
			return
		}
		h := c.Common().StaticCallee()
		if h == nil || h.Blocks == nil || !inUnit(h) {
			return
		}
		allCalls(h, func(hc ssa.CallInstruction) {
			hcall, ok := hc.(*ssa.Call)
			if !ok || lstat != nil || calleeName(hc) != "(*os.Root).Lstat" {
				return
			}
			for k, pp := range h.Params {
				if hcall.Common().Args[1] == ssa.Value(pp) && k < len(c.Common().Args) {
					if _, fld := loadedField(c.Common().Args[k]); fld == nameF {
						lstat = hcall
					}
				}
			}
		})
	})
	if lstat == nil {
		for _, u := range unit {
			allCalls(u, func(c ssa.CallInstruction) {
				if call, ok := c.(*ssa.Call); ok && calleeName(c) == "(*os.Root).Lstat" && lstat == nil {
					if _, fld := loadedField(call.Common().Args[1]); fld == nameF {
						lstat = call
					}
				}
			})
		}
	}
	if lstat == nil {
		r.Fatalf("%s: no DestRoot.Lstat(f.Name) in recvGenerator", rule)
		return
	}
	isLstat := func(v ssa.Value, idx int) bool {
		c, i := extractOf(canon(v))
		return c == lstat && i == idx
	}
	isSkip := func(v ssa.Value, idx int) bool {
		c, i := extractOf(v)
		return c != nil && i == idx && c.Common().StaticCallee() == skip
	}
	atom := func(cond ssa.Value) (string, bool, bool) {
		if _, isP := cond.(*ssa.Parameter); isP {
			cond = canon(cond) // a helper's boolean parameter (missing(dryRun)) → the caller's argument
		}
		switch x := cond.(type) {
		case *ssa.Call:
			if x.Common().StaticCallee() == lo {
				return "L", false, true
			}
			if calleeName(x) == "os.IsNotExist" && isLstat(x.Common().Args[0], 1) {
				return "N", false, true
			}
			// errors.Is(err, syscall.ENOTDIR): a parent of the entry is not a directory (F28)
			if calleeName(x) == "errors.Is" && len(x.Common().Args) == 2 && isLstat(x.Common().Args[0], 1) {
				if mi, ok := x.Common().Args[1].(*ssa.MakeInterface); ok {
					if k, ok := constInt(mi.X); ok && k == 20 && strings.HasSuffix(mi.X.Type().String(), "syscall.Errno") {
						return "ND", false, true
					}
				}
			}
			if calleeName(x) == "(io/fs.FileMode).IsRegular" {
				a := x.Common().Args[0]
				if c, ok := a.(*ssa.Call); ok {
					if c.Common().IsInvoke() && c.Common().Method.Name() == "Mode" && isLstat(c.Common().Value, 0) {
						return "R", false, true
					}
					if sc := c.Common().StaticCallee(); sc != nil && sc.Name() == "FileMode" && pkgPathOfFunc(sc) == pkgReceiver && isF(c.Common().Args[0]) {
						return "REG", false, true
					}
				}
			}
		case *ssa.BinOp:
			if x.Op == token.EQL || x.Op == token.NEQ {
				if isModeVal(x.X) {
					if k, ok := constInt(x.Y); ok {
						if n, ok := typeNames[k]; ok {
							return n, x.Op == token.NEQ, true
						}
					}
				}
				if isLstat(x.X, 1) && isNilConst(x.Y) {
					return "LE", x.Op == token.EQL, true
				}
				if isSkip(x.X, 1) && isNilConst(x.Y) {
					return "KE", x.Op == token.EQL, true
				}
			}
		case *ssa.UnOp:
			if isFieldLoad(x, pl) {
				return "PL", false, true
			}
			if isFieldLoad(x, pd) {
				return "PD", false, true
			}
			if dryF != nil && isFieldLoad(x, dryF) {
				return "DRYQ", false, true
			}
		case *ssa.Extract:
			if isSkip(x, 0) {
				return "K", false, true
			}
		}
		return "", false, false
	}
	isIdx := func(v ssa.Value) bool {
		cv, ok := v.(*ssa.Convert)
		if ok {
			v = cv.X
		}
		v = canon(v)
		if v == ssa.Value(idxP) || derivesFrom(v, idxP) {
			return true
		}
		if ld, ok := v.(*ssa.UnOp); ok && ld.Op == token.MUL {
			v = ld.X
		}
		if fv, ok := v.(*ssa.FreeVar); ok && fv.Name() == idxP.Name() {
			return true
		}
		return false
	}
	writesIdxFirst := func(lit *ssa.Function) bool {
		// a WriteInt32(int32(idx)) that dominates every return of the literal
		var w ssa.Instruction
		allCalls(lit, func(c ssa.CallInstruction) {
			if w == nil && calleeName(c) == "(*"+pkgWire+".Conn).WriteInt32" && isIdx(c.Common().Args[1]) {
				w = c
			}
		})
		if w == nil {
			return false
		}
		for _, b := range lit.Blocks {
			if ret, ok := lastInstr(b).(*ssa.Return); ok && !InstrDominates(w, ret) {
				return false
			}
		}
		return true
	}
	event := func(in ssa.Instruction) string {
		c, ok := in.(ssa.CallInstruction)
		if !ok {
			return ""
		}
		if calleeName(c) == "(*"+pkgWire+".Conn).WriteInt32" && isIdx(c.Common().Args[1]) {
			return "request"
		}
		if sc := c.Common().StaticCallee(); sc != nil && sc.Parent() == nil && pkgPathOfFunc(sc) == pkgReceiver && sc.Blocks != nil && sc.Name() != "recvGenerator" {
			if _, isCall := in.(*ssa.Call); isCall && writesIdxFirstMethod(sc) {
				return "request"
			}
		}
		if mc, ok := c.Common().Value.(*ssa.MakeClosure); ok {
			if lit, ok := mc.Fn.(*ssa.Function); ok && inUnit(lit.Parent()) && writesIdxFirst(lit) {
				return "request"
			}
		}
		return ""
	}
	pe = &PathEnum{Atom: atom, Event: event, IgnoreUnknown: true, BackEdge: "loop", MaxPaths: 20000,
		Inline: func(f *ssa.Function) bool {
			switch f.Name() {
			case "setPerms", "createDevice", "symlink", "skipFile", "listOnly", "generateAndSendSums", "FileMode", "setUid", "openLocalFile":
				return false
			}
			return !writesIdxFirst(f) // a method that requests the file is an event, not walked
		},
		Outcome: func(last ssa.Instruction, events []string) string {
			for _, e := range events {
				if e == "request" {
					return "request"
				}
			}
			ret, ok := last.(*ssa.Return)
			if ok && len(ret.Results) == 1 && isNilConst(pe.V(retResults(ret)[0])) {
				return "nothing"
			}
			return "error"
		}}
	pe.Run(fn)
	spec := func(ask func(string) bool) string {
		// Entries that are not handled as regular files (list-only, directories,
		// symlinks under -l, special files under -D, unsupported types) never
		// request data: those paths return before the regular-file test.
		if !ask("?REG") || !ask("REG") {
			return "nothing"
		}
		if ask("N") {
			return "request"
		}
		// in a dry run a parent that is not a directory (yet) counts as "missing":
		// the real run would have replaced it; outside a dry run it is an error
		if ask("?ND") && ask("ND") {
			if ask("?DRYQ") && ask("DRYQ") {
				return "request"
			}
			return "error"
		}
		if ask("LE") {
			return "error"
		}
		if !ask("R") {
			return "request"
		}
		if ask("KE") {
			return "error"
		}
		if ask("K") {
			return "nothing"
		}
		return "request"
	}
	CheckTable(p, r, rule, "recvGenerator", pe, spec, func(got, want string) bool { return got == "error" })
}

// writesIdxFirstMethod: a method (not a literal) whose every return is
// dominated by a Conn.WriteInt32 of one of its own int parameters — the shape
// of requestFullFile after it was turned into a method.
func writesIdxFirstMethod(fn *ssa.Function) bool {
	var w ssa.Instruction
	allCalls(fn, func(c ssa.CallInstruction) {
		if w != nil || calleeName(c) != "(*"+pkgWire+".Conn).WriteInt32" {
			return
		}
		a := c.Common().Args[1]
		if cv, ok := a.(*ssa.Convert); ok {
			a = cv.X
		}
		if _, isParam := unwrapLocal(a).(*ssa.Parameter); isParam {
			w = c
		}
	})
	if w == nil {
		return false
	}
	for _, b := range fn.Blocks {
		if ret, ok := lastInstr(b).(*ssa.Return); ok && !InstrDominates(w, ret) {
			return false
		}
	}
	return true
}
