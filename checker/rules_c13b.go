package main

import (
	"fmt"
	"go/token"
	"sort"
	"strings"

	"golang.org/x/tools/go/ssa"
)

// Rules for the last sentence of C13 ("rule syntax the implementation cannot
// honour produces an error, never a silently different selection"), written
// after F27.

type edgeCond struct {
	cond  ssa.Value
	taken bool
}

// pathsBetween enumerates the acyclic paths from block `from` to block `to`
// and returns, per path, the branch conditions taken (UnOp NOT is folded into
// the polarity). ok=false when more than limit paths exist.
func pathsBetween(from, to *ssa.BasicBlock, limit int) (paths [][]edgeCond, ok bool) {
	fn := from.Parent()
	// blocks that can reach `to`
	canReach := map[*ssa.BasicBlock]bool{to: true}
	for changed := true; changed; {
		changed = false
		for _, b := range fn.Blocks {
			if canReach[b] {
				continue
			}
			for _, s := range b.Succs {
				if canReach[s] {
					canReach[b] = true
					changed = true
				}
			}
		}
	}
	ok = true
	onPath := map[*ssa.BasicBlock]bool{}
	var cur []edgeCond
	var dfs func(b *ssa.BasicBlock)
	dfs = func(b *ssa.BasicBlock) {
		if !ok {
			return
		}
		if b == to {
			if len(paths) >= limit {
				ok = false
				return
			}
			paths = append(paths, append([]edgeCond(nil), cur...))
			return
		}
		if onPath[b] || !canReach[b] {
			return
		}
		onPath[b] = true
		defer delete(onPath, b)
		if iff, isIf := lastInstr(b).(*ssa.If); isIf && len(b.Succs) == 2 {
			c, pol := iff.Cond, true
			for {
				if u, isU := c.(*ssa.UnOp); isU && u.Op == token.NOT {
					c, pol = u.X, !pol
					continue
				}
				break
			}
			for i, s := range b.Succs {
				cur = append(cur, edgeCond{c, (i == 0) == pol})
				dfs(s)
				cur = cur[:len(cur)-1]
			}
			return
		}
		for _, s := range b.Succs {
			dfs(s)
		}
	}
	dfs(from)
	return paths, ok
}

// shapeTest: the edge establishes that v has a known shape: HasPrefix(v, K)
// is true with K in the recognised set, or v is the empty string.
func shapeTest(e edgeCond, v ssa.Value, recognised map[string]bool) (string, bool) {
	switch c := e.cond.(type) {
	case *ssa.Call:
		if calleeName(c) == "strings.HasPrefix" && len(c.Common().Args) == 2 && c.Common().Args[0] == v {
			if k, isK := constStr(c.Common().Args[1]); isK && recognised[k] && e.taken {
				return fmt.Sprintf("HasPrefix(·, %q)", k), true
			}
			// an element of a package-level table all of whose entries are known prefixes
			if tbl, ok := tableElems(c.Common().Args[1]); ok && e.taken {
				all := len(tbl) > 0
				for _, k := range tbl {
					if !recognised[k] {
						all = false
					}
				}
				if all {
					return fmt.Sprintf("HasPrefix(·, one of %q)", tbl), true
				}
			}
		}
	case *ssa.BinOp:
		for _, pr := range [][2]ssa.Value{{c.X, c.Y}, {c.Y, c.X}} {
			if pr[0] != v {
				continue
			}
			if k, isK := constStr(pr[1]); isK && k == "" {
				if (c.Op == token.EQL && e.taken) || (c.Op == token.NEQ && !e.taken) {
					return `· == ""`, true
				}
			}
		}
	}
	return "", false
}

func checkUserRuleSyntax(p *Prog, r *Report) {
	rule := "C13/USER-RULE-SYNTAX"
	r.Rule(rule, "parseFilter takes a line without a known prefix for a literal exclude pattern (needed for protocol-27 peers, which send excludes bare); so every rule text the option parser appends to Options.filterRules is either a constant known prefix + the argument, or — on every path from where the argument is obtained to the append — has been tested to start with a prefix that parseFilter tests for (or to be empty); alternatively parseFilter itself returns a rule only on paths with a positive prefix test; an append helper (prefix, arg) is judged at its call sites, a validator helper by its nil returns", 1)
	pf := anchorFunc(p, r, pkgSender, "", "parseFilter")
	fr := p.Field(pkgOpts, "Options", "filterRules")
	if pf == nil || fr == nil {
		r.Bad(rule, "anchors", "-", "sender.parseFilter or rsyncopts.Options.filterRules not found")
		return
	}
	recognised := map[string]bool{}
	allCalls(pf, func(c ssa.CallInstruction) {
		if calleeName(c) == "strings.HasPrefix" && len(c.Common().Args) == 2 {
			if k, ok := constStr(c.Common().Args[1]); ok && k != "" {
				recognised[k] = true
			}
		}
	})
	var ks []string
	for k := range recognised {
		ks = append(ks, fmt.Sprintf("%q", k))
	}
	sort.Strings(ks)
	r.Info("%s: prefixes parseFilter tests for: %s", rule, strings.Join(ks, " "))
	if len(recognised) == 0 {
		r.Bad(rule, "parseFilter prefixes", p.Pos(pf.Pos()), "no strings.HasPrefix(line, K) in parseFilter")
		return
	}
	// alternative: parseFilter is strict by itself
	strict := len(pf.Params) > 0
	if strict {
		for _, b := range pf.Blocks {
			ret, isRet := lastInstr(b).(*ssa.Return)
			if !isRet || len(ret.Results) == 0 || isNilConst(ret.Results[0]) {
				continue
			}
			paths, ok := pathsBetween(pf.Blocks[0], b, 512)
			if !ok {
				strict = false
				break
			}
			for _, path := range paths {
				has := false
				for _, e := range path {
					if _, t := shapeTest(e, ssa.Value(pf.Params[0]), recognised); t {
						has = true
					}
				}
				if !has {
					strict = false
				}
			}
		}
	}
	r.Info("%s: parseFilter returns a rule without any positive prefix test on some path: %v", rule, !strict)

	n := 0
	for _, fn := range p.FuncsInPkg(pkgOpts) {
		for _, b := range fn.Blocks {
			for _, in := range b.Instrs {
				st, isSt := in.(*ssa.Store)
				if !isSt {
					continue
				}
				if _, f := fieldOfAddr(st.Addr); f != fr {
					continue
				}
				call, isCall := st.Val.(*ssa.Call)
				if !isCall {
					if isNilConst(st.Val) {
						continue
					}
					n++
					r.Unk(rule, funcKey(fn)+" stores filterRules", p.Pos(st.Pos()), "the rule list is assigned something other than append(list, rule): re-read")
					continue
				}
				bi, isB := call.Common().Value.(*ssa.Builtin)
				if !isB || bi.Name() != "append" || len(call.Common().Args) != 2 {
					n++
					r.Unk(rule, funcKey(fn)+" stores filterRules", p.Pos(st.Pos()), "the rule list is assigned something other than append(list, rule): re-read")
					continue
				}
				elems := variadicElems(call.Common().Args[1])
				if elems == nil {
					n++
					r.Unk(rule, funcKey(fn)+" appends to filterRules", p.Pos(st.Pos()), "appended elements not identified")
					continue
				}
				for _, e := range elems {
					n++
					key := funcKey(fn) + " appends a rule"
					if bo, isBo := e.(*ssa.BinOp); isBo && bo.Op == token.ADD {
						if k, isK := constStr(bo.X); isK && recognised[k] {
							r.OK(rule, key, p.Pos(st.Pos()), fmt.Sprintf("constant prefix %q + argument", k))
							continue
						}
					}
					if strict {
						r.OK(rule, key, p.Pos(st.Pos()), "raw argument; parseFilter rejects lines without a known prefix")
						continue
					}
					// prefix + arg with both from the helper's parameters: judged per call site
					if bo, isBo := e.(*ssa.BinOp); isBo && bo.Op == token.ADD {
						px, okX := bo.X.(*ssa.Parameter)
						py, okY := bo.Y.(*ssa.Parameter)
						if okX && okY && px.Parent() == fn && py.Parent() == fn {
							ix, iy := -1, -1
							for i, pp := range fn.Params {
								if pp == px {
									ix = i
								}
								if pp == py {
									iy = i
								}
							}
							g := p.ModGraph()
							nSites, badSite := 0, ""
							for _, ed := range g.In[fn] {
								cs, isCS := ed.Site.(ssa.CallInstruction)
								if isTestSupport(pkgPathOfFunc(ed.From)) {
									continue
								}
								nSites++
								if !isCS || ed.Escape || cs.Common().StaticCallee() != fn || ix >= len(cs.Common().Args) || iy >= len(cs.Common().Args) {
									badSite = "a caller is not a direct call"
									continue
								}
								k, isK := constStr(cs.Common().Args[ix])
								switch {
								case isK && recognised[k]:
								case isK && k == "":
									if _, okV := validatedAt(cs.Common().Args[iy], cs, recognised); !okV {
										badSite = "the raw argument passed at " + p.Pos(instrPos(cs)) + " is not tested"
									}
								default:
									badSite = "the prefix passed at " + p.Pos(instrPos(cs)) + " is not a known constant"
								}
							}
							if nSites > 0 && badSite == "" {
								r.OK(rule, key, p.Pos(st.Pos()), fmt.Sprintf("prefix + argument, %d call sites: a known constant prefix, or an empty prefix with a validated argument", nSites))
								continue
							}
							if badSite != "" {
								r.Bad(rule, key, p.Pos(st.Pos()), badSite+": unknown --filter syntax is taken for a literal exclude pattern (silently different selection)")
								continue
							}
						}
					}
					def, isInstr := e.(ssa.Instruction)
					if !isInstr || def.Block() == nil {
						r.Bad(rule, key, p.Pos(st.Pos()), "a rule text of unknown origin reaches the rule list untested: unknown syntax is taken for a literal exclude pattern")
						continue
					}
					paths, ok := pathsBetween(def.Block(), b, 512)
					if !ok {
						r.Unk(rule, key, p.Pos(st.Pos()), "too many paths between the argument and the append")
						continue
					}
					bad := 0
					var how []string
					for _, path := range paths {
						has := false
						for _, ec := range path {
							if d, t := shapeTest(ec, e, recognised); t {
								has = true
								how = appendUniq(how, d)
							}
						}
						if !has {
							bad++
						}
					}
					if bad == 0 && len(paths) > 0 {
						sort.Strings(how)
						r.OK(rule, key, p.Pos(st.Pos()), fmt.Sprintf("%d paths, each with one of: %s", len(paths), strings.Join(how, "; ")))
					} else {
						r.Bad(rule, key, p.Pos(st.Pos()), fmt.Sprintf("the user's --filter argument reaches the rule list on %d of %d paths without a test that it starts with a prefix parseFilter knows: 'exclude name', '-! name' or a bare 'name' are taken for literal exclude patterns (silently different selection)", bad, len(paths)))
					}
				}
			}
		}
	}
	if n == 0 {
		r.Bad(rule, "appends to filterRules", "-", "no store to Options.filterRules found in package rsyncopts")
	}
}

func checkAnchoredDecided(p *Prog, r *Report) {
	rule := "C13/ANCHORED-DECIDED"
	r.Rule(rule, "(*filterRule).matches decides by equality with names relative to the transfer root, which never begin with '/' (C13/EXACT-MATCH); a pattern with a leading slash therefore never matches. Rule construction (parseFilter, addRule, NewFilterRuleList, RecvFilterList and their helpers) must decide that case: a strings.HasPrefix(x, \"/\") test whose true edge reaches only returns with a non-nil error (rejected), or a strings.TrimPrefix/CutPrefix(x, \"/\") (honoured by stripping)", 1)
	g := p.ModGraph()
	var unit []*ssa.Function
	seen := map[*ssa.Function]bool{}
	for _, a := range [][2]string{{"", "parseFilter"}, {"filterRuleList", "addRule"}, {"", "NewFilterRuleList"}, {"", "RecvFilterList"}, {"filterRule", "matches"}} {
		fn := p.Func(pkgSender, a[0], a[1])
		if fn == nil {
			continue
		}
		for _, u := range g.unitFuncs(fn) {
			if !seen[u] {
				seen[u] = true
				unit = append(unit, u)
			}
		}
	}
	if len(unit) == 0 {
		r.Bad(rule, "anchors", "-", "rule construction functions not found")
		return
	}
	decided, where, why := false, "-", "no test of a leading '/' on rule patterns anywhere in rule construction: --exclude=/name succeeds and name is transferred"
	for _, fn := range unit {
		allCalls(fn, func(c ssa.CallInstruction) {
			if decided || len(c.Common().Args) != 2 {
				return
			}
			k, isK := constStr(c.Common().Args[1])
			if !isK || k != "/" {
				return
			}
			switch calleeName(c) {
			case "strings.TrimPrefix", "strings.CutPrefix":
				decided, where = true, p.Pos(instrPos(c))
			case "strings.HasPrefix":
				call, isCall := c.(*ssa.Call)
				if !isCall {
					return
				}
				// find the If on this value
				for _, ref := range *call.Referrers() {
					iff, isIf := ref.(*ssa.If)
					if !isIf {
						continue
					}
					tb := iff.Block().Succs[0]
					reach := map[*ssa.BasicBlock]bool{}
					var walk func(b *ssa.BasicBlock)
					walk = func(b *ssa.BasicBlock) {
						if reach[b] {
							return
						}
						reach[b] = true
						for _, s := range b.Succs {
							walk(s)
						}
					}
					walk(tb)
					all, nret := true, 0
					for b := range reach {
						if ret, isRet := lastInstr(b).(*ssa.Return); isRet {
							nret++
							res := retResults(ret)
							if len(res) == 0 || isNilConst(res[len(res)-1]) || !isErrorType(res[len(res)-1].Type()) {
								all = false
							}
						}
					}
					if all && nret > 0 {
						decided, where = true, p.Pos(instrPos(c))
					} else {
						why = "the leading-slash test at " + p.Pos(instrPos(c)) + " does not end in an error on every path"
					}
				}
			}
		})
	}
	r.Cond(decided, rule, "leading slash of a pattern is decided in rule construction", where, why)
}

// tableElems: v is an element of a package-level []string variable that is
// assigned exactly once, in the package initialiser, from a literal of
// constants; returns the constants.
func tableElems(v ssa.Value) ([]string, bool) {
	ld, ok := v.(*ssa.UnOp)
	if !ok || ld.Op != token.MUL {
		return nil, false
	}
	ia, ok := ld.X.(*ssa.IndexAddr)
	if !ok {
		return nil, false
	}
	sl, ok := ia.X.(*ssa.UnOp)
	if !ok || sl.Op != token.MUL {
		return nil, false
	}
	gl, ok := sl.X.(*ssa.Global)
	if !ok || gl.Pkg == nil {
		return nil, false
	}
	var out []string
	stores := 0
	for _, m := range gl.Pkg.Members {
		fn, ok := m.(*ssa.Function)
		if !ok {
			continue
		}
		fns := append([]*ssa.Function{fn}, fn.AnonFuncs...)
		for _, f := range fns {
			for _, b := range f.Blocks {
				for _, in := range b.Instrs {
					st, ok := in.(*ssa.Store)
					if !ok || st.Addr != ssa.Value(gl) {
						continue
					}
					stores++
					if f.Name() != "init" {
						return nil, false
					}
					elems := variadicElems(st.Val)
					if elems == nil {
						return nil, false
					}
					for _, e := range elems {
						k, ok := constStr(e)
						if !ok {
							return nil, false
						}
						out = append(out, k)
					}
				}
			}
		}
	}
	return out, stores == 1
}

// isRuleValidator: fn(rule string) error returns nil only on paths that carry
// a positive shape test of its parameter.
func isRuleValidator(fn *ssa.Function, recognised map[string]bool) bool {
	if fn == nil || fn.Blocks == nil || len(fn.Params) != 1 || fn.Signature.Results().Len() != 1 || !isErrorType(fn.Signature.Results().At(0).Type()) {
		return false
	}
	n := 0
	for _, b := range fn.Blocks {
		ret, ok := lastInstr(b).(*ssa.Return)
		if !ok || !isNilConst(ret.Results[0]) {
			continue
		}
		n++
		paths, ok := pathsBetween(fn.Blocks[0], b, 512)
		if !ok || len(paths) == 0 {
			return false
		}
		for _, path := range paths {
			has := false
			for _, e := range path {
				if _, t := shapeTest(e, ssa.Value(fn.Params[0]), recognised); t {
					has = true
				}
			}
			if !has {
				return false
			}
		}
	}
	return n > 0
}

// validatedAt: the value v has a known shape when `at` executes: some path
// test between its definition and `at`, or the nil-error edge of a validator
// called on it dominates `at`.
func validatedAt(v ssa.Value, at ssa.Instruction, recognised map[string]bool) (string, bool) {
	fn := at.Parent()
	for _, b := range fn.Blocks {
		for _, in := range b.Instrs {
			call, ok := in.(*ssa.Call)
			if !ok || len(call.Common().Args) != 1 || call.Common().Args[0] != v {
				continue
			}
			if !isRuleValidator(call.Common().StaticCallee(), recognised) {
				continue
			}
			if known, isNil := errIsNilAt(at, call); known && isNil {
				return "validated by " + funcKey(call.Common().StaticCallee()), true
			}
		}
	}
	def, isInstr := v.(ssa.Instruction)
	if !isInstr || def.Block() == nil || def.Parent() != fn {
		return "", false
	}
	paths, ok := pathsBetween(def.Block(), at.Block(), 512)
	if !ok || len(paths) == 0 {
		return "", false
	}
	for _, path := range paths {
		has := false
		for _, ec := range path {
			if _, t := shapeTest(ec, v, recognised); t {
				has = true
			}
		}
		if !has {
			return "", false
		}
	}
	return "tested on every path", true
}
