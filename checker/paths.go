package main

import (
	"fmt"
	"go/token"
	"sort"
	"strings"

	"golang.org/x/tools/go/ssa"
)

// Decision-table extraction (DESIGN A5) on the SSA control-flow graph:
// enumerate acyclic paths from the entry block to every exit, collecting the
// truth value of each branch condition as an (atom, value) fact. Conditions
// are mapped to atoms by a rule-supplied recogniser (by resolved callee and
// operand provenance, never by text). A condition the recogniser does not
// know makes the extraction undecided.

type PathRow struct {
	Facts   map[string]bool
	Order   []string // atoms in the order tested
	Outcome string
	Pos     token.Pos
}

func (r PathRow) String() string {
	var parts []string
	for _, a := range r.Order {
		if r.Facts[a] {
			parts = append(parts, a)
		} else {
			parts = append(parts, "¬"+a)
		}
	}
	return strings.Join(parts, "∧") + " → " + r.Outcome
}

type AtomFn func(cond ssa.Value) (name string, neg bool, ok bool)

type PathEnum struct {
	Atom    AtomFn
	Outcome func(last ssa.Instruction, events []string) string // for Return/Panic
	// Event: optional; a non-empty string is appended to the path's event list
	Event func(ssa.Instruction) string
	// IgnoreUnknown: explore both successors of an unrecognised condition
	// without recording a fact (the outcome must then not depend on it)
	IgnoreUnknown bool
	Excl          [][2]string // pairs of atoms that cannot both be true
	// BackEdge: outcome name when a path returns to a block already on it
	BackEdge string
	MaxPaths int
	// Inline: helpers of the same package that may be walked as part of the
	// function (nil = no inlining). Recognisers must compare pe.C(v) with
	// root-level values.
	Inline func(*ssa.Function) bool

	Rows    []PathRow
	Unknown []ssa.Value

	cur  *Frame
	env  *boolEnv
	vals map[ssa.Value]ssa.Value // results of inlined helpers on the current path
}

// V resolves a value through the results of helpers inlined on this path
// (e.g. `return rt.helper(...)` yields what the helper returned).
func (pe *PathEnum) V(v ssa.Value) ssa.Value {
	for i := 0; i < 8; i++ {
		if rv, ok := pe.vals[v]; ok && rv != nil {
			v = rv
			continue
		}
		return v
	}
	return v
}

// C canonicalises a value seen in the current (possibly inlined) frame.
func (pe *PathEnum) C(v ssa.Value) ssa.Value {
	if pe.cur != nil {
		v = pe.cur.Canon(v)
	}
	return structResolver{pe.vals}.resolveField(pe.cur, v)
}

// Known reports a boolean value decided on the current path (helper result,
// phi of constants).
func (pe *PathEnum) Known(v ssa.Value) (bool, bool) {
	if pe.env == nil {
		return false, false
	}
	return pe.env.eval(pe.cur, v)
}

// NilOf reports the nil-ness of a value decided on the current path (a result
// of an inlined helper, a value tested against nil on the way).
func (pe *PathEnum) NilOf(v ssa.Value) (isNil, known bool) {
	if pe.env == nil {
		return false, false
	}
	return pe.env.nilOf(pe.cur, v)
}

type peBlockKey struct {
	fr *Frame
	b  *ssa.BasicBlock
}

func (pe *PathEnum) Run(fn *ssa.Function) {
	if pe.MaxPaths == 0 {
		pe.MaxPaths = 4096
	}
	if len(fn.Blocks) == 0 {
		return
	}
	pe.env = newBoolEnv()
	pe.vals = map[ssa.Value]ssa.Value{}
	onPath := map[peBlockKey]bool{}
	facts := map[string]bool{}
	var order []string
	var events []string
	seenRow := map[string]bool{}
	emit := func(outcome string, pos token.Pos) {
		if len(pe.Rows) >= pe.MaxPaths {
			return
		}
		f := map[string]bool{}
		for k, v := range facts {
			f[k] = v
		}
		row := PathRow{Facts: f, Order: append([]string(nil), order...), Outcome: outcome, Pos: pos}
		if seenRow[row.String()] {
			return
		}
		seenRow[row.String()] = true
		pe.Rows = append(pe.Rows, row)
	}
	consistent := func(name string, val bool) bool {
		if v, ok := facts[name]; ok {
			return v == val
		}
		if val {
			for _, ex := range pe.Excl {
				other := ""
				if ex[0] == name {
					other = ex[1]
				} else if ex[1] == name {
					other = ex[0]
				}
				if other != "" && facts[other] {
					return false
				}
			}
		}
		return true
	}
	root := &Frame{fn: fn}
	// walk continues at instruction idx of block b in frame fr; resume is the
	// continuation of the caller when fr is an inlined helper.
	var walk func(fr *Frame, b *ssa.BasicBlock, idx int, pred *ssa.BasicBlock, resume func())
	walk = func(fr *Frame, b *ssa.BasicBlock, idx int, pred *ssa.BasicBlock, resume func()) {
		if len(pe.Rows) >= pe.MaxPaths {
			return
		}
		key := peBlockKey{fr, b}
		if idx == 0 {
			if onPath[key] {
				pe.cur = fr
				emit(pe.BackEdge, b.Instrs[0].Pos())
				return
			}
			onPath[key] = true
			defer func() { onPath[key] = false }()
			m := pe.env.mark()
			defer pe.env.rollback(m)
			pe.env.enterBlock(fr, b, pred)
		}
		nEv := len(events)
		defer func() { events = events[:nEv] }()
		for i := idx; i < len(b.Instrs)-1; i++ {
			in := b.Instrs[i]
			pe.cur = fr
			if callee := inlinableCall(fn, fr, in, pe.Inline); callee != nil && pe.Inline != nil {
				sub := &Frame{call: in.(*ssa.Call), fn: callee, parent: fr, depth: fr.depth + 1}
				bb, ii := b, i
				walk(sub, callee.Blocks[0], 0, nil, func() { walk(fr, bb, ii+1, nil, resume) })
				return
			}
			if pe.Event != nil {
				if ev := pe.Event(in); ev != "" {
					events = append(events, ev)
				}
			}
		}
		last := lastInstr(b)
		pe.cur = fr
		switch x := last.(type) {
		case *ssa.If:
			cond := x.Cond
			neg := false
			for {
				u, ok := cond.(*ssa.UnOp)
				if !ok || u.Op != token.NOT {
					break
				}
				cond, neg = u.X, !neg
			}
			if v, known := pe.env.eval(fr, cond); known {
				k := 1
				if v != neg {
					k = 0
				}
				walk(fr, b.Succs[k], 0, b, resume)
				return
			}
			// a helper's result / a phi whose value on this path is an undecided
			// expression: decide that expression (in its own frame)
			condFr := fr
			for i := 0; i < 8; i++ {
				c2, f2 := pe.env.resolveAlias(condFr, cond)
				if c2 == cond {
					break
				}
				cond, condFr = c2, f2
				for {
					u, ok := cond.(*ssa.UnOp)
					if !ok || u.Op != token.NOT {
						break
					}
					cond, neg = u.X, !neg
				}
				if v, known := pe.env.eval(condFr, cond); known {
					k := 1
					if v != neg {
						k = 0
					}
					walk(fr, b.Succs[k], 0, b, resume)
					return
				}
			}
			pe.cur = condFr
			name, n2, ok := pe.Atom(cond)
			pe.cur = fr
			if !ok {
				if pe.IgnoreUnknown {
					nx, trueMeansNil, isNilCmp := nilCompare(cond)
					for k, s := range b.Succs {
						m := pe.env.mark()
						if isNilCmp {
							condTrue := (k == 0) != neg
							pe.env.setNil(nx, condTrue == trueMeansNil)
						}
						walk(fr, s, 0, b, resume)
						pe.env.rollback(m)
					}
					return
				}
				pe.Unknown = append(pe.Unknown, cond)
				emit("?unrecognised-condition", x.Pos())
				return
			}
			if n2 {
				neg = !neg
			}
			for k, s := range b.Succs {
				val := (k == 0) != neg
				if !consistent(name, val) {
					continue
				}
				_, had := facts[name]
				if !had {
					facts[name] = val
					order = append(order, name)
				}
				m := pe.env.mark()
				pe.env.set(cond, val != n2) // the raw condition's value on this edge
				walk(fr, s, 0, b, resume)
				pe.env.rollback(m)
				if !had {
					delete(facts, name)
					order = order[:len(order)-1]
				}
			}
		case *ssa.Jump:
			walk(fr, b.Succs[0], 0, b, resume)
		case *ssa.Return:
			if fr.call != nil && resume != nil {
				m := pe.env.mark()
				pe.env.bindResults(fr, x)
				pe.env.bindNilness(fr, x)
				results := retResults(x)
				saved := map[ssa.Value]ssa.Value{}
				setVal := func(target, rv ssa.Value) {
					saved[target] = pe.vals[target]
					pe.vals[target] = fr.Canon(pe.V(rv))
				}
				if len(results) == 1 {
					setVal(fr.call, results[0])
				} else {
					for _, ref := range *fr.call.Referrers() {
						if ex, ok := ref.(*ssa.Extract); ok && ex.Index < len(results) {
							setVal(ex, results[ex.Index])
						}
					}
				}
				resume()
				for k, v := range saved {
					if v == nil {
						delete(pe.vals, k)
					} else {
						pe.vals[k] = v
					}
				}
				pe.env.rollback(m)
				return
			}
			emit(pe.Outcome(last, events), last.Pos())
		case *ssa.Panic:
			emit(pe.Outcome(last, events), last.Pos())
		default:
			emit("?unexpected-terminator", last.Pos())
		}
	}
	walk(root, fn.Blocks[0], 0, nil, nil)
	pe.cur = nil
}

// needAtom is raised by a specification when it needs an atom the path did
// not decide.
type needAtom struct{ name string }

// SpecEval evaluates a specification procedure on a (partial) assignment.
// Atoms the path did not decide are completed in every possible way: if the
// specification's answer is the same for all completions, the path's outcome
// is determined regardless of the order in which the code tested things;
// otherwise the first atom that makes a difference is reported as missing.
func SpecEval(row PathRow, spec func(ask func(string) bool) string, excl ...[2]string) (outcome string, missing string) {
	var free []string
	run := func(comp map[string]bool) (out string, need string) {
		defer func() {
			if e := recover(); e != nil {
				if n, ok := e.(needAtom); ok {
					need = n.name
					return
				}
				panic(e)
			}
		}()
		ask := func(name string) bool {
			if strings.HasPrefix(name, "?") { // "?X": has X been decided on this path?
				_, decided := row.Facts[name[1:]]
				return decided
			}
			if v, ok := row.Facts[name]; ok {
				return v
			}
			if v, ok := comp[name]; ok {
				return v
			}
			panic(needAtom{name})
		}
		return spec(ask), ""
	}
	for round := 0; round < 12; round++ {
		results := map[string]bool{}
		var need string
		n := len(free)
		for m := 0; m < 1<<n && need == ""; m++ {
			comp := map[string]bool{}
			for i, a := range free {
				comp[a] = m&(1<<i) != 0
			}
			// skip completions that violate a declared mutual exclusion
			bad := false
			for _, ex := range excl {
				va, oka := comp[ex[0]]
				if !oka {
					va, oka = row.Facts[ex[0]]
				}
				vb, okb := comp[ex[1]]
				if !okb {
					vb, okb = row.Facts[ex[1]]
				}
				if oka && okb && va && vb {
					bad = true
				}
			}
			if bad {
				continue
			}
			out, nd := run(comp)
			if nd != "" {
				need = nd
				break
			}
			results[out] = true
		}
		if need != "" {
			free = append(free, need)
			continue
		}
		if len(results) == 1 {
			for o := range results {
				return o, ""
			}
		}
		if len(free) > 0 {
			return "", free[0]
		}
		return "", "?"
	}
	return "", "?"
}

// CheckTable compares every extracted row with the specification and emits
// one obligation per row. Rows are keyed by their fact string (not by
// position).
func CheckTable(p *Prog, r *Report, rule, fnKey string, pe *PathEnum, spec func(ask func(string) bool) string, accept ...func(got, want string) bool) {
	sort.SliceStable(pe.Rows, func(i, j int) bool { return pe.Rows[i].String() < pe.Rows[j].String() })
	for _, row := range pe.Rows {
		key := fnKey + " path " + row.String()
		if strings.HasPrefix(row.Outcome, "?") {
			what := ""
			for i, u := range pe.Unknown {
				if i >= 3 {
					break
				}
				pos := u.Pos()
				if in, ok := u.(ssa.Instruction); ok && !pos.IsValid() {
					pos = instrPos(in)
				}
				what += "; condition `" + u.String() + "` at " + p.Pos(pos)
			}
			r.Unk(rule, fnKey+" "+row.Outcome, p.Pos(row.Pos), "a branch condition outside the rule's atom vocabulary; extend the vocabulary after reading the code: path so far "+row.String()+what)
			continue
		}
		want, missing := SpecEval(row, spec, pe.Excl...)
		switch {
		case missing != "":
			r.Unk(rule, key, p.Pos(row.Pos), fmt.Sprintf("outcome %q reached without deciding %s, which the specification consults at this point (missing test, or tests reordered: re-read and adapt the specification order)", row.Outcome, missing))
		case want != row.Outcome && !(len(accept) > 0 && accept[0](row.Outcome, want)):
			r.Bad(rule, key, p.Pos(row.Pos), fmt.Sprintf("specification says %q", want))
		default:
			r.OK(rule, key, p.Pos(row.Pos), "")
		}
	}
}
