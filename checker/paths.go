package main

import (
	"fmt"
	"go/token"
	"sort"
	"strings"

	"golang.org/x/tools/go/ssa"
)

// Decision-table extraction (DESIGN A5) on the SSA control-flow graph:
// enumerate acyclic paths from the entry block to every exit, collecting the
// truth value of each branch condition as an (atom, value) fact. Conditions
// are mapped to atoms by a rule-supplied recogniser (by resolved callee and
// operand provenance, never by text). A condition the recogniser does not
// know makes the extraction undecided.

type PathRow struct {
	Facts   map[string]bool
	Order   []string // atoms in the order tested
	Outcome string
	Pos     token.Pos
}

func (r PathRow) String() string {
	var parts []string
	for _, a := range r.Order {
		if r.Facts[a] {
			parts = append(parts, a)
		} else {
			parts = append(parts, "¬"+a)
		}
	}
	return strings.Join(parts, "∧") + " → " + r.Outcome
}

type AtomFn func(cond ssa.Value) (name string, neg bool, ok bool)

type PathEnum struct {
	Atom    AtomFn
	Outcome func(last ssa.Instruction, events []string) string // for Return/Panic
	// Event: optional; a non-empty string is appended to the path's event list
	Event func(ssa.Instruction) string
	// IgnoreUnknown: explore both successors of an unrecognised condition
	// without recording a fact (the outcome must then not depend on it)
	IgnoreUnknown bool
	Excl    [][2]string                       // pairs of atoms that cannot both be true
	// BackEdge: outcome name when a path returns to a block already on it
	BackEdge string
	MaxPaths int

	Rows    []PathRow
	Unknown []ssa.Value
}

func (pe *PathEnum) Run(fn *ssa.Function) {
	if pe.MaxPaths == 0 {
		pe.MaxPaths = 4096
	}
	if len(fn.Blocks) == 0 {
		return
	}
	onPath := map[*ssa.BasicBlock]bool{}
	facts := map[string]bool{}
	var order []string
	var events []string
	seenRow := map[string]bool{}
	var walk func(b *ssa.BasicBlock)
	emit := func(outcome string, pos token.Pos) {
		if len(pe.Rows) >= pe.MaxPaths {
			return
		}
		f := map[string]bool{}
		for k, v := range facts {
			f[k] = v
		}
		row := PathRow{Facts: f, Order: append([]string(nil), order...), Outcome: outcome, Pos: pos}
		if seenRow[row.String()] {
			return
		}
		seenRow[row.String()] = true
		pe.Rows = append(pe.Rows, row)
	}
	consistent := func(name string, val bool) bool {
		if v, ok := facts[name]; ok {
			return v == val
		}
		if val {
			for _, ex := range pe.Excl {
				other := ""
				if ex[0] == name {
					other = ex[1]
				} else if ex[1] == name {
					other = ex[0]
				}
				if other != "" && facts[other] {
					return false
				}
			}
		}
		return true
	}
	walk = func(b *ssa.BasicBlock) {
		if onPath[b] {
			emit(pe.BackEdge, b.Instrs[0].Pos())
			return
		}
		onPath[b] = true
		nEv := len(events)
		defer func() { onPath[b] = false; events = events[:nEv] }()
		if pe.Event != nil {
			for _, in := range b.Instrs {
				if ev := pe.Event(in); ev != "" {
					events = append(events, ev)
				}
			}
		}
		last := lastInstr(b)
		switch x := last.(type) {
		case *ssa.If:
			cond := x.Cond
			neg := false
			for {
				u, ok := cond.(*ssa.UnOp)
				if !ok || u.Op != token.NOT {
					break
				}
				cond, neg = u.X, !neg
			}
			name, n2, ok := pe.Atom(cond)
			if !ok {
				if pe.IgnoreUnknown {
					for _, s := range b.Succs {
						walk(s)
					}
					return
				}
				pe.Unknown = append(pe.Unknown, cond)
				emit("?unrecognised-condition", x.Pos())
				return
			}
			if n2 {
				neg = !neg
			}
			for k, s := range b.Succs {
				val := (k == 0) != neg
				if !consistent(name, val) {
					continue
				}
				_, had := facts[name]
				if !had {
					facts[name] = val
					order = append(order, name)
				}
				walk(s)
				if !had {
					delete(facts, name)
					order = order[:len(order)-1]
				}
			}
		case *ssa.Jump:
			walk(b.Succs[0])
		case *ssa.Return, *ssa.Panic:
			emit(pe.Outcome(last, events), last.Pos())
		default:
			emit("?unexpected-terminator", last.Pos())
		}
	}
	walk(fn.Blocks[0])
}

// needAtom is raised by a specification when it needs an atom the path did
// not decide.
type needAtom struct{ name string }

// SpecEval evaluates a specification procedure on a (partial) assignment.
func SpecEval(row PathRow, spec func(ask func(string) bool) string) (outcome string, missing string) {
	defer func() {
		if e := recover(); e != nil {
			if n, ok := e.(needAtom); ok {
				missing = n.name
				return
			}
			panic(e)
		}
	}()
	ask := func(name string) bool {
		if strings.HasPrefix(name, "?") { // "?X": has X been decided on this path?
			_, decided := row.Facts[name[1:]]
			return decided
		}
		v, ok := row.Facts[name]
		if !ok {
			panic(needAtom{name})
		}
		return v
	}
	return spec(ask), ""
}

// CheckTable compares every extracted row with the specification and emits
// one obligation per row. Rows are keyed by their fact string (not by
// position).
func CheckTable(p *Prog, r *Report, rule, fnKey string, pe *PathEnum, spec func(ask func(string) bool) string, accept ...func(got, want string) bool) {
	sort.SliceStable(pe.Rows, func(i, j int) bool { return pe.Rows[i].String() < pe.Rows[j].String() })
	for _, row := range pe.Rows {
		key := fnKey + " path " + row.String()
		if strings.HasPrefix(row.Outcome, "?") {
			r.Unk(rule, fnKey+" "+row.Outcome, p.Pos(row.Pos), "a branch condition outside the rule's atom vocabulary; extend the vocabulary after reading the code: path so far "+row.String())
			continue
		}
		want, missing := SpecEval(row, spec)
		switch {
		case missing != "":
			r.Unk(rule, key, p.Pos(row.Pos), fmt.Sprintf("outcome %q reached without deciding %s, which the specification consults at this point (missing test, or tests reordered: re-read and adapt the specification order)", row.Outcome, missing))
		case want != row.Outcome && !(len(accept) > 0 && accept[0](row.Outcome, want)):
			r.Bad(rule, key, p.Pos(row.Pos), fmt.Sprintf("specification says %q", want))
		default:
			r.OK(rule, key, p.Pos(row.Pos), "")
		}
	}
}
