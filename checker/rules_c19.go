package main

import (
	"go/constant"
	"go/token"

	"golang.org/x/tools/go/ssa"
)

func init() { register("C19", checkC19) }

func constStr(v ssa.Value) (string, bool) {
	c, ok := v.(*ssa.Const)
	if !ok || c.Value == nil || c.Value.Kind() != constant.String {
		return "", false
	}
	return constant.StringVal(c.Value), true
}

func isBuiltinLenOf(v ssa.Value, of ssa.Value) bool {
	c, ok := v.(*ssa.Call)
	if !ok {
		return false
	}
	b, ok := c.Common().Value.(*ssa.Builtin)
	return ok && b.Name() == "len" && len(c.Common().Args) == 1 && c.Common().Args[0] == of
}

func checkC19(p *Prog, r *Report) {
	fn := anchorFunc(p, r, pkgRsyncd, "", "checkACL")
	if fn == nil {
		return
	}
	if len(fn.Params) != 2 {
		r.Fatalf("checkACL signature changed")
		return
	}
	acls, remoteAddr := fn.Params[0], fn.Params[1]

	var pe *PathEnum
	canon := func(v ssa.Value) ssa.Value { // a helper's parameter / result → the caller's value
		if pe == nil {
			return v
		}
		return pe.V(pe.C(unwrapLocal(pe.V(v))))
	}
	// provenance helpers
	isSplit := func(v ssa.Value, idx int) bool {
		c, i := extractOf(canon(v))
		if c == nil || i != idx || calleeName(c) != "net.SplitHostPort" {
			return false
		}
		a := canon(c.Common().Args[0])
		if a == ssa.Value(remoteAddr) {
			return true
		}
		// inside an address-parsing helper: its parameter, which every caller binds to remoteAddr
		hp, isP := a.(*ssa.Parameter)
		if !isP || hp.Parent() == fn {
			return false
		}
		h := hp.Parent()
		k := -1
		for j, pp := range h.Params {
			if pp == hp {
				k = j
			}
		}
		n := 0
		for _, e := range p.ModGraph().In[h] {
			if isTestSupport(pkgPathOfFunc(e.From)) {
				continue
			}
			cs, ok := e.Site.(ssa.CallInstruction)
			if !ok || e.Escape || cs.Common().StaticCallee() != h || e.From != fn || k < 0 || k >= len(cs.Common().Args) || unwrapLocal(cs.Common().Args[k]) != ssa.Value(remoteAddr) {
				return false
			}
			n++
		}
		return n > 0
	}
	// the host, possibly with its IPv6 zone cut off: strings.Cut(host, "%") #0
	isHost := func(v ssa.Value) bool {
		if isSplit(v, 0) {
			return true
		}
		c, i := extractOf(v)
		if c != nil && i == 0 && calleeName(c) == "strings.Cut" {
			if sep, ok := constStr(c.Common().Args[1]); ok && sep == "%" {
				return isSplit(c.Common().Args[0], 0)
			}
		}
		return false
	}
	isRemoteIP := func(v ssa.Value) bool {
		c, ok := canon(v).(*ssa.Call)
		return ok && calleeName(c) == "net.ParseIP" && isHost(c.Common().Args[0])
	}
	// C19/ZONE-STRIPPED (F29): Accept names a link-local IPv6 peer with its
	// zone, net.ParseIP rejects zones
	r.Rule("C19/ZONE-STRIPPED", "the peer host that checkACL hands to net.ParseIP has had an IPv6 zone removed (strings.Cut(host, \"%\") before the call): Accept reports link-local peers as [fe80::1%eth0]:port and ParseIP rejects a zone, so without this every non-empty ACL refuses such a client whatever its rules say", 1)
	zsUnit := p.ModGraph().unitFuncs(fn) // checkACL and the helpers its address parsing is split into
	forZS := func(f func(ssa.CallInstruction)) {
		for _, u := range zsUnit {
			allCalls(u, f)
		}
	}
	forZS(func(c ssa.CallInstruction) {
		if calleeName(c) != "net.ParseIP" {
			return
		}
		cc, i := extractOf(c.Common().Args[0])
		stripped := false
		if cc != nil && i == 0 && calleeName(cc) == "strings.Cut" {
			if sep, ok := constStr(cc.Common().Args[1]); ok && sep == "%" {
				stripped = true
			}
		}
		r.Cond(stripped, "C19/ZONE-STRIPPED", "checkACL → net.ParseIP(host)", p.Pos(instrPos(c)), "the host reaches net.ParseIP with a possible %zone: a link-local IPv6 client is refused (\"BUG: invalid remote host\") by every module with an ACL, also when the first matching rule says allow")
	})
	// range index: t21 = phi(-1, t21)+1 ; cond t21 < len(acls)
	isRangeIdx := func(v ssa.Value) bool {
		add, ok := v.(*ssa.BinOp)
		if !ok || add.Op != token.ADD {
			return false
		}
		if k, ok := constInt(add.Y); !ok || k != 1 {
			return false
		}
		phi, ok := add.X.(*ssa.Phi)
		if !ok || len(phi.Edges) != 2 {
			return false
		}
		okInit, okStep := false, false
		for _, e := range phi.Edges {
			if k, ok := constInt(e); ok && k == -1 {
				okInit = true
			}
			if e == ssa.Value(add) {
				okStep = true
			}
		}
		return okInit && okStep
	}
	isACL := func(v ssa.Value) bool { // acls[rangeidx]
		ld, ok := v.(*ssa.UnOp)
		if !ok || ld.Op != token.MUL {
			return false
		}
		ia, ok := ld.X.(*ssa.IndexAddr)
		return ok && ia.X == acls && isRangeIdx(ia.Index)
	}
	isSpaceIdx := func(v ssa.Value) bool {
		c, ok := v.(*ssa.Call)
		if !ok || calleeName(c) != "strings.Index" {
			return false
		}
		s, ok2 := constStr(c.Common().Args[1])
		return ok2 && s == " " && isACL(c.Common().Args[0])
	}
	isCutOfACL := func(v ssa.Value, idx int) bool { // strings.Cut(acl, " ") #idx
		c, i := extractOf(v)
		if c == nil || i != idx || calleeName(c) != "strings.Cut" {
			return false
		}
		sep, ok := constStr(c.Common().Args[1])
		return ok && sep == " " && isACL(c.Common().Args[0])
	}
	isAction := func(v ssa.Value) bool { // acl[:i]
		if isCutOfACL(v, 0) {
			return true
		}
		sl, ok := v.(*ssa.Slice)
		return ok && isACL(sl.X) && sl.Low == nil && sl.High != nil && isSpaceIdx(sl.High) && sl.Max == nil
	}
	isWho := func(v ssa.Value) bool { // acl[i+1:]
		if isCutOfACL(v, 1) {
			return true
		}
		sl, ok := v.(*ssa.Slice)
		if !ok || !isACL(sl.X) || sl.High != nil || sl.Low == nil {
			return false
		}
		add, ok := sl.Low.(*ssa.BinOp)
		if !ok || add.Op != token.ADD || !isSpaceIdx(add.X) {
			return false
		}
		k, ok := constInt(add.Y)
		return ok && k == 1
	}
	isCIDR := func(v ssa.Value, idx int) bool {
		c, i := extractOf(v)
		return c != nil && i == idx && calleeName(c) == "net.ParseCIDR" && isWho(c.Common().Args[0])
	}
	cmpStr := func(b *ssa.BinOp, isLHS func(ssa.Value) bool, lit string) (neg, ok bool) {
		if b.Op != token.EQL && b.Op != token.NEQ {
			return false, false
		}
		var other ssa.Value
		switch {
		case isLHS(b.X):
			other = b.Y
		case isLHS(b.Y):
			other = b.X
		default:
			return false, false
		}
		s, isC := constStr(other)
		if !isC || s != lit {
			return false, false
		}
		return b.Op == token.NEQ, true
	}
	errNil := func(b *ssa.BinOp, isErr func(ssa.Value) bool) (neg, ok bool) { // atom: err != nil
		if b.Op != token.EQL && b.Op != token.NEQ {
			return false, false
		}
		if isErr(b.X) && isNilConst(b.Y) || isErr(b.Y) && isNilConst(b.X) {
			return b.Op == token.EQL, true
		}
		return false, false
	}

	atom := func(cond ssa.Value) (string, bool, bool) {
		switch x := cond.(type) {
		case *ssa.BinOp:
			// Z: len(acls) == 0
			if (x.Op == token.EQL || x.Op == token.NEQ) && isBuiltinLenOf(x.X, acls) {
				if k, ok := constInt(x.Y); ok && k == 0 {
					return "Z", x.Op == token.NEQ, true
				}
			}
			if neg, ok := errNil(x, func(v ssa.Value) bool { return isSplit(v, 2) }); ok {
				return "H", neg, true
			}
			// P: remoteIP == nil
			if (x.Op == token.EQL || x.Op == token.NEQ) && (isRemoteIP(x.X) && isNilConst(x.Y) || isRemoteIP(x.Y) && isNilConst(x.X)) {
				return "P", x.Op == token.NEQ, true
			}
			// MORE: rangeidx < len(acls)
			if x.Op == token.LSS && isRangeIdx(x.X) && isBuiltinLenOf(x.Y, acls) {
				return "MORE", false, true
			}
			// NS: i < 0
			if x.Op == token.LSS && isSpaceIdx(x.X) {
				if k, ok := constInt(x.Y); ok && k == 0 {
					return "NS", false, true
				}
			}
			if neg, ok := cmpStr(x, isAction, "allow"); ok {
				return "A", neg, true
			}
			if neg, ok := cmpStr(x, isAction, "deny"); ok {
				return "D", neg, true
			}
			if neg, ok := cmpStr(x, isWho, "all"); ok {
				return "ALL", neg, true
			}
			if neg, ok := errNil(x, func(v ssa.Value) bool { return isCIDR(v, 2) }); ok {
				return "BAD", neg, true
			}
		case *ssa.Extract:
			// _, _, ok := strings.Cut(acl, " "): NS is its negation
			if isCutOfACL(x, 2) {
				return "NS", true, true
			}
		case *ssa.Call:
			// IN: (*net.IPNet).Contains(cidr, remoteIP)
			if calleeName(x) == "(*net.IPNet).Contains" {
				a := x.Common().Args
				if len(a) == 2 && isCIDR(a[0], 1) && isRemoteIP(a[1]) {
					return "IN", false, true
				}
			}
		}
		return "", false, false
	}

	r.Rule("C19/ACL-TABLE", "decision table of rsyncd.checkACL extracted path by path (atoms identified by provenance: Z=len(acls)==0, H/P=peer address unparsable, MORE=range over acls in order, NS=no space, A/D=action text, ALL=who==\"all\", BAD=ParseCIDR error, IN=(*net.IPNet).Contains(peer IP)) and compared with first-match allow/deny, default allow, error on a malformed rule reached", 12)
	pe = &PathEnum{
		Atom: atom,
		// helpers of the package that checkACL is split into (address parsing, error construction)
		Inline: func(f *ssa.Function) bool { return pkgPathOfFunc(f) == pkgRsyncd },
		Outcome: func(last ssa.Instruction, _ []string) string {
			ret, ok := last.(*ssa.Return)
			if !ok {
				return "panic"
			}
			if isNilConst(retResults(ret)[0]) {
				return "allow"
			}
			return "error"
		},
		Excl:     [][2]string{{"A", "D"}},
		BackEdge: "next-rule",
	}
	pe.Run(fn)
	spec := func(ask func(string) bool) string {
		if ask("Z") {
			return "allow"
		}
		if ask("H") {
			return "error"
		}
		if ask("P") {
			return "error"
		}
		if !ask("MORE") {
			return "allow" // list exhausted: default allow
		}
		if ask("NS") {
			return "error"
		}
		if !ask("A") && !ask("D") {
			return "error"
		}
		if !ask("ALL") {
			if ask("BAD") {
				return "error"
			}
			if !ask("IN") {
				return "next-rule"
			}
		}
		if ask("A") {
			return "allow"
		}
		return "error" // deny
	}
	CheckTable(p, r, "C19/ACL-TABLE", "checkACL", pe, spec)

	checkC19Order(p, r, fn)
	r.Trust("net.IPNet.Contains normalises IPv4-mapped IPv6 addresses with To4(); net.ParseIP/ParseCIDR/SplitHostPort semantics")
	r.Assume("HandleConnArgs/InternalHandleConn are library/command-mode entry points whose caller chooses the module (no ACL applies by design)")
	r.Uncovered("address-family corner cases inside the net package")
}

// checkC19Order: in HandleDaemonConn the OK reply and handleConn are
// dominated by successful getModule and checkACL on that module's ACL with
// the connection's peer name; conn.name for TCP is RemoteAddr().String().
func checkC19Order(p *Prog, r *Report, acl *ssa.Function) {
	rule := "C19/ORDER"
	r.Rule(rule, "in HandleDaemonConn the \"@RSYNCD: OK\" reply and the call of handleConn are dominated by the nil-error edges of getModule(requested) and checkACL(module.ACL, conn.name) for that module; error edges return", 4)
	hd := anchorFunc(p, r, pkgRsyncd, "Server", "HandleDaemonConn")
	getMod := anchorFunc(p, r, pkgRsyncd, "Server", "getModule")
	hc := anchorFunc(p, r, pkgRsyncd, "Server", "handleConn")
	aclF := p.Field(pkgRsyncd, "Module", "ACL")
	nameF := p.Field(pkgRsyncd, "Conn", "name")
	if hd == nil || getMod == nil || hc == nil || aclF == nil || nameF == nil {
		r.Fatalf("anchor unresolved for C19/ORDER")
		return
	}
	var gm, ac *ssa.Call
	allCalls(hd, func(c ssa.CallInstruction) {
		call, ok := c.(*ssa.Call)
		if !ok {
			return
		}
		switch call.Common().StaticCallee() {
		case getMod:
			gm = call
		case acl:
			ac = call
		}
	})
	if gm == nil || ac == nil {
		r.Bad(rule, "HandleDaemonConn calls getModule and checkACL", p.Pos(hd.Pos()), "module lookup or ACL check missing")
		return
	}
	// checkACL args: module.ACL of getModule's result, conn.name
	var gmErr, gmMod ssa.Value
	for _, ref := range *gm.Referrers() {
		if e, ok := ref.(*ssa.Extract); ok {
			if e.Index == 0 {
				gmMod = e
			} else {
				gmErr = e
			}
		}
	}
	argOK := false
	a := ac.Common().Args
	if base, f := loadedField(a[0]); f == aclF && base != nil {
		// base is the module value (Extract) or the address of a cell holding it
		if base == gmMod {
			argOK = true
		} else if al, ok := base.(*ssa.Alloc); ok {
			for _, ref := range *al.Referrers() {
				if st, ok := ref.(*ssa.Store); ok && st.Val == gmMod {
					argOK = true
				}
			}
		}
	}
	nameOK := isFieldLoad(a[1], nameF)
	r.Cond(argOK && nameOK, rule, "checkACL(module.ACL, conn.name)", p.Pos(ac.Pos()), "checkACL must receive the ACL of the module just looked up and the connection's peer name")
	// dominated effects
	n := 0
	allCalls(hd, func(c ssa.CallInstruction) {
		label := ""
		if c.Common().StaticCallee() == hc {
			label = "handleConn"
		} else if calleeName(c) == "io.WriteString" {
			if s, ok := constStr(c.Common().Args[1]); ok && s == "@RSYNCD: OK\n" {
				label = "write @RSYNCD: OK"
			}
		}
		if label == "" {
			return
		}
		n++
		k1, nil1 := errIsNilAt(c, gmErr)
		k2, nil2 := errIsNilAt(c, ac)
		r.Cond(gmErr != nil && k1 && nil1 && k2 && nil2, rule, "HandleDaemonConn → "+label, p.Pos(instrPos(c)), "not dominated by getModule()==nil error and checkACL()==nil")
	})
	if n < 2 {
		r.Bad(rule, "HandleDaemonConn effects", p.Pos(hd.Pos()), "expected the OK reply and the handleConn call")
	}
	// on the error edges: returns, no call reaching handleConn
	for _, ev := range []ssa.Value{gmErr, ac} {
		if ev == nil {
			continue
		}
		ok2, why := errPropagated(map[bool]*ssa.Call{true: gm, false: ac}[ev == gmErr])
		r.Cond(ok2, rule, "error edge returns ("+map[bool]string{true: "getModule", false: "checkACL"}[ev == gmErr]+")", p.Pos(hd.Pos()), why)
	}

	// PEER-ADDRESS
	r.Rule("C19/PEER-ADDRESS", "in (*Server).Serve the name given to NewConnection is RemoteAddr().String() of the accepted connection", 1)
	serve := anchorFunc(p, r, pkgRsyncd, "Server", "Serve")
	newConn := anchorFunc(p, r, pkgRsyncd, "", "NewConnection")
	if serve != nil && newConn != nil {
		found := false
		gPA := p.ModGraph()
		// fromRemoteAddr: the value is conn.RemoteAddr() of the accepted
		// connection, possibly through a captured variable, a closure binding
		// or a helper's parameter (go s.serveConn(ctx, conn, remoteAddr))
		var fromRemoteAddr func(src ssa.Value, depth int) bool
		fromRemoteAddr = func(src ssa.Value, depth int) bool {
			if depth > 5 {
				return false
			}
			switch x := src.(type) {
			case *ssa.Call:
				return x.Common().IsInvoke() && x.Common().Method.Name() == "RemoteAddr"
			case *ssa.UnOp:
				if x.Op != token.MUL {
					return false
				}
				if fv, isFV := x.X.(*ssa.FreeVar); isFV {
					// captured variable: its stores in the enclosing function
					parent := fv.Parent().Parent()
					n, all := 0, true
					for ; parent != nil; parent = parent.Parent() {
						for _, b := range parent.Blocks {
							for _, in := range b.Instrs {
								if st, isSt := in.(*ssa.Store); isSt {
									if al, isAl := st.Addr.(*ssa.Alloc); isAl && al.Comment == fv.Name() {
										n++
										if !fromRemoteAddr(st.Val, depth+1) {
											all = false
										}
									}
								}
							}
						}
					}
					return n > 0 && all
				}
				if al, isAl := x.X.(*ssa.Alloc); isAl {
					n, all := 0, true
					for _, ref := range *al.Referrers() {
						if st, isSt := ref.(*ssa.Store); isSt && st.Addr == ssa.Value(al) {
							n++
							if !fromRemoteAddr(st.Val, depth+1) {
								all = false
							}
						}
					}
					return n > 0 && all
				}
			case *ssa.FreeVar:
				f := x.Parent()
				n, all := 0, true
				if f.Parent() != nil {
					for _, b := range f.Parent().Blocks {
						for _, in := range b.Instrs {
							if mc, isMC := in.(*ssa.MakeClosure); isMC && mc.Fn == ssa.Value(f) {
								for bi, fv2 := range f.FreeVars {
									if fv2 == x {
										n++
										if !fromRemoteAddr(mc.Bindings[bi], depth+1) {
											all = false
										}
									}
								}
							}
						}
					}
				}
				return n > 0 && all
			case *ssa.Parameter:
				f := x.Parent()
				idx := -1
				for i, pp := range f.Params {
					if pp == x {
						idx = i
					}
				}
				n, all := 0, true
				for _, e := range gPA.In[f] {
					cs, isCS := e.Site.(ssa.CallInstruction)
					if isTestSupport(pkgPathOfFunc(e.From)) {
						continue
					}
					if !isCS || e.Escape || cs.Common().StaticCallee() != f || idx < 0 || idx >= len(cs.Common().Args) {
						return false
					}
					n++
					if !fromRemoteAddr(cs.Common().Args[idx], depth+1) {
						all = false
					}
				}
				return n > 0 && all
			}
			return false
		}
		scope := append([]*ssa.Function{}, gPA.unitFuncs(serve)...)
		seenF := map[*ssa.Function]bool{}
		for _, f := range scope {
			seenF[f] = true
		}
		for _, f := range serve.AnonFuncs {
			if !seenF[f] {
				scope = append(scope, f)
			}
		}
		for _, f := range scope {
			f := f
			allCalls(f, func(c ssa.CallInstruction) {
				if c.Common().StaticCallee() != newConn {
					return
				}
				found = true
				nm := c.Common().Args[2]
				ok := false
				if sc, isCall := nm.(*ssa.Call); isCall && sc.Common().IsInvoke() && sc.Common().Method.Name() == "String" {
					ok = fromRemoteAddr(sc.Common().Value, 0)
				}
				r.Cond(ok, "C19/PEER-ADDRESS", funcKey(f)+" → NewConnection(name)", p.Pos(instrPos(c)), "peer name must be the accepted connection's RemoteAddr().String(), not peer-supplied text")
			})
		}
		if !found {
			r.Bad("C19/PEER-ADDRESS", "Serve → NewConnection", p.Pos(serve.Pos()), "Serve no longer builds the connection")
		}
	}

	// NO-BYPASS
	r.Rule("C19/NO-BYPASS", "handleConn is called only from HandleDaemonConn (gated above) and the explicit-module library entry points HandleConnArgs/InternalHandleConn", 3)
	g := p.ModGraph()
	for _, e := range g.In[hc] {
		from := e.From
		ok := from == hd || (pkgPathOfFunc(from) == pkgRsyncd && (from.Name() == "HandleConnArgs" || from.Name() == "InternalHandleConn"))
		r.Cond(ok && !e.Escape, "C19/NO-BYPASS", funcKey(from)+" → handleConn", p.Pos(instrPos(e.Site)), "unexpected caller of handleConn (bypasses module lookup/ACL)")
	}
}
