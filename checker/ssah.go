package main

import (
	"go/constant"
	"go/token"
	"go/types"
	"os"

	"golang.org/x/tools/go/ssa"
)

// Fact: condition value Cond is known to be Val at some program point.
type Fact struct {
	Cond ssa.Value
	Val  bool
	If   *ssa.If
}

// edgeDominates reports whether succ (a successor of d) is entered only
// through d (or through back edges from blocks it dominates), i.e. the edge
// d→succ dominates everything succ dominates.
func edgeDominates(d, succ *ssa.BasicBlock) bool {
	for _, p := range succ.Preds {
		if p == d {
			continue
		}
		if !succ.Dominates(p) {
			return false
		}
	}
	// a block that is both successors of d carries no information
	if len(d.Succs) == 2 && d.Succs[0] == d.Succs[1] {
		return false
	}
	return true
}

// FactsAtBlock returns the branch facts that hold on entry to block b:
// for every block c on b's dominator chain whose immediate dominator ends in
// an If and reaches c by an edge that dominates c.
func FactsAtBlock(b *ssa.BasicBlock) []Fact {
	var out []Fact
	for c := b; c != nil; c = c.Idom() {
		d := c.Idom()
		if d == nil {
			break
		}
		ifi, ok := lastInstr(d).(*ssa.If)
		if !ok {
			continue
		}
		for k, s := range d.Succs {
			if s == c && edgeDominates(d, c) {
				out = append(out, normFact(Fact{Cond: ifi.Cond, Val: k == 0, If: ifi}))
			}
		}
	}
	return out
}

// factGraph: set when a program is loaded; lets FactsAt inherit the facts
// that hold at every call site of a private helper.
var factGraph *ModGraph

// FactsAt returns the branch facts that hold at `in`: the local ones, the
// ones derived by looking through single-return accessor/predicate helpers
// (`rt.dryRun()` ≡ `rt.Opts.DryRun`), and — for a function all of whose
// callers are direct calls inside the module — the facts that hold at every
// one of its call sites (a guard established by the caller before calling a
// helper). Inherited facts are about the caller's values; predicates that
// identify values by shape (field loads, accessor calls) see them, predicates
// that compare with a specific value of the callee do not match them.
func FactsAt(in ssa.Instruction) []Fact {
	return factsAtDepth(in, 0, map[*ssa.Function]bool{})
}

func factsAtDepth(in ssa.Instruction, depth int, seen map[*ssa.Function]bool) []Fact {
	out := expandFacts(FactsAtBlock(in.Block()))
	fn := in.Parent()
	if factGraph == nil || depth >= 3 || fn == nil || seen[fn] {
		return out
	}
	seen[fn] = true
	defer delete(seen, fn)
	if fn.Parent() != nil {
		// a function literal: the facts at its creation site hold when it runs only
		// if it is called synchronously; that is rule-specific (see Lift), so stop.
		return out
	}
	if o := fn.Object(); o != nil && o.Exported() {
		return out // callable from outside the module
	}
	var inherited []Fact
	n := 0
	for _, e := range factGraph.In[fn] {
		if isTestSupport(pkgPathOfFunc(e.From)) {
			continue
		}
		c, ok := e.Site.(ssa.CallInstruction)
		if !ok || e.Escape || c.Common().IsInvoke() || c.Common().StaticCallee() != fn {
			return out // escapes as a value or is called dynamically: callers unknown
		}
		if _, isGo := e.Site.(*ssa.Go); isGo {
			return out
		}
		fs := factsAtDepth(e.Site, depth+1, seen)
		// a local fact about a boolean parameter is a fact about the argument
		// at this call site (setModTime(f, st, isSymlink) with
		// isSymlink := mode&S_IFMT == S_IFLNK)
		for _, lf := range out {
			prm, isP := lf.Cond.(*ssa.Parameter)
			if !isP || prm.Parent() != fn {
				continue
			}
			for i, pp := range fn.Params {
				if pp == prm && i < len(c.Common().Args) {
					fs = append(fs, expandFacts([]Fact{{Cond: c.Common().Args[i], Val: lf.Val, If: lf.If}})...)
				}
			}
		}
		if n == 0 {
			inherited = fs
		} else {
			inherited = intersectFacts(inherited, fs)
		}
		n++
	}
	if n == 0 {
		return out
	}
	return append(out, inherited...)
}

// intersectFacts keeps facts of a that have a same-shaped partner in b.
func intersectFacts(a, b []Fact) []Fact {
	var out []Fact
	for _, x := range a {
		for _, y := range b {
			if x.Val == y.Val && sameShape(x.Cond, y.Cond, 0) {
				out = append(out, x)
				break
			}
		}
	}
	return out
}

// sameShape: structural equality of two condition values up to the identity of
// loads of the same field / calls of the same callee / equal constants.
func sameShape(a, b ssa.Value, depth int) bool {
	if a == b {
		return true
	}
	if depth > 6 {
		return false
	}
	switch x := a.(type) {
	case *ssa.UnOp:
		y, ok := b.(*ssa.UnOp)
		if !ok || x.Op != y.Op {
			return false
		}
		if x.Op == token.MUL {
			_, f1 := loadedField(x)
			_, f2 := loadedField(y)
			return f1 != nil && f1 == f2
		}
		return sameShape(x.X, y.X, depth+1)
	case *ssa.BinOp:
		y, ok := b.(*ssa.BinOp)
		return ok && x.Op == y.Op && sameShape(x.X, y.X, depth+1) && sameShape(x.Y, y.Y, depth+1)
	case *ssa.Const:
		y, ok := b.(*ssa.Const)
		return ok && ((x.Value == nil && y.Value == nil) || (x.Value != nil && y.Value != nil && x.Value.ExactString() == y.Value.ExactString()))
	case *ssa.Call:
		y, ok := b.(*ssa.Call)
		if !ok || calleeName(x) == "" || calleeName(x) != calleeName(y) || len(x.Common().Args) != len(y.Common().Args) {
			return false
		}
		return true
	case *ssa.Extract:
		y, ok := b.(*ssa.Extract)
		return ok && x.Index == y.Index && sameShape(x.Tuple, y.Tuple, depth+1)
	}
	return false
}

// expandFacts adds, for every fact whose condition is a boolean result of a
// direct call to a module helper, what that outcome implies inside the helper:
// the result can only have come from a return statement whose value in that
// position is not the opposite constant, so whatever holds at all of those
// returns (their dominating facts, and the returned expression itself when it
// is not a constant) holds too. Facts are about the helper's own values.
func expandFacts(fs []Fact) []Fact {
	out := fs
	for _, f := range fs {
		out = append(out, impliedByResult(f)...)
		out = append(out, impliedByNilError(f)...)
	}
	return out
}

// impliedByNilError: the fact says that the error result of a direct call to a
// module helper is nil (`h(...) == nil` true, `!= nil` false, also for the
// error position of a multi-result call). Then whatever holds at every return
// of the helper that can carry a nil error holds too (facts about the helper's
// own values).
var nilErrDepth int

func impliedByNilError(f Fact) []Fact {
	if nilErrDepth > 1 || os.Getenv("RV_NONILERR") != "" {
		return nil // the helper's own returns are examined with local facts only
	}
	nilErrDepth++
	defer func() { nilErrDepth-- }()
	bo, ok := f.Cond.(*ssa.BinOp)
	if !ok || (bo.Op != token.EQL && bo.Op != token.NEQ) {
		return nil
	}
	var x ssa.Value
	switch {
	case isNilConst(bo.Y):
		x = bo.X
	case isNilConst(bo.X):
		x = bo.Y
	default:
		return nil
	}
	isNil := (bo.Op == token.EQL) == f.Val
	if !isNil || !isErrorType(x.Type()) {
		return nil
	}
	x = unwrapLocal(x)
	var call *ssa.Call
	idx := 0
	switch y := x.(type) {
	case *ssa.Call:
		call = y
	case *ssa.Extract:
		c, ok := y.Tuple.(*ssa.Call)
		if !ok {
			return nil
		}
		call, idx = c, y.Index
	default:
		return nil
	}
	callee := call.Common().StaticCallee()
	if callee == nil || callee.Blocks == nil || !isModFunc(callee) {
		return nil
	}
	var acc []Fact
	n := 0
	for _, b := range callee.Blocks {
		ret, ok := lastInstr(b).(*ssa.Return)
		if !ok {
			continue
		}
		rr := retResults(ret)
		if idx >= len(rr) {
			return nil
		}
		if neverNil(rr[idx]) {
			continue
		}
		if known, nilHere := errIsNilAt(ret, rr[idx]); known && !nilHere {
			continue
		}
		here := append([]Fact{}, FactsAtBlock(b)...)
		if n == 0 {
			acc = here
		} else {
			acc = intersectFacts(acc, here)
		}
		n++
	}
	return acc
}

func impliedByResult(f Fact) []Fact {
	var call *ssa.Call
	idx := 0
	switch x := f.Cond.(type) {
	case *ssa.Call:
		call = x
	case *ssa.Extract:
		c, ok := x.Tuple.(*ssa.Call)
		if !ok {
			return nil
		}
		call, idx = c, x.Index
	default:
		return nil
	}
	if !isBoolT(f.Cond.Type()) {
		return nil
	}
	callee := call.Common().StaticCallee()
	if callee == nil || callee.Blocks == nil || !isModFunc(callee) {
		return nil
	}
	var acc []Fact
	n := 0
	for _, b := range callee.Blocks {
		ret, ok := lastInstr(b).(*ssa.Return)
		if !ok {
			continue
		}
		rr := retResults(ret)
		if idx >= len(rr) {
			return nil
		}
		here := append([]Fact{}, FactsAtBlock(b)...)
		if k, isK := rr[idx].(*ssa.Const); isK && k.Value != nil {
			if constant.BoolVal(k.Value) != f.Val {
				continue // this return cannot have produced the observed result
			}
		} else {
			here = append(here, normFact(Fact{Cond: rr[idx], Val: f.Val, If: f.If}))
		}
		if n == 0 {
			acc = here
		} else {
			acc = intersectFacts(acc, here)
		}
		n++
	}
	return acc
}

func lastInstr(b *ssa.BasicBlock) ssa.Instruction {
	if len(b.Instrs) == 0 {
		return nil
	}
	return b.Instrs[len(b.Instrs)-1]
}

// normFact strips logical negation.
func normFact(f Fact) Fact {
	for {
		u, ok := f.Cond.(*ssa.UnOp)
		if !ok || u.Op != token.NOT {
			return f
		}
		f.Cond, f.Val = u.X, !f.Val
	}
}

// HasFact: some fact at `in` satisfies pred with the wanted truth value.
func HasFact(in ssa.Instruction, want bool, pred func(ssa.Value) bool) bool {
	for _, f := range FactsAt(in) {
		if f.Val == want && pred(f.Cond) {
			return true
		}
	}
	return false
}

// ---- value shape predicates ----

// fieldOfAddr: if v is &X.f returns (X, field var).
func fieldOfAddr(v ssa.Value) (ssa.Value, *types.Var) {
	fa, ok := v.(*ssa.FieldAddr)
	if !ok {
		return nil, nil
	}
	pt, ok := fa.X.Type().Underlying().(*types.Pointer)
	if !ok {
		return nil, nil
	}
	st, ok := pt.Elem().Underlying().(*types.Struct)
	if !ok {
		return nil, nil
	}
	return fa.X, st.Field(fa.Field)
}

// loadedField: if v is a load of struct field f (either *(&X.f) or X.f on a
// struct value) returns (base, f).
func loadedField(v ssa.Value) (ssa.Value, *types.Var) {
	switch x := v.(type) {
	case *ssa.UnOp:
		if x.Op == token.MUL {
			return fieldOfAddr(x.X)
		}
	case *ssa.Field:
		st, ok := x.X.Type().Underlying().(*types.Struct)
		if ok {
			return x.X, st.Field(x.Field)
		}
	}
	return nil, nil
}

func isFieldLoad(v ssa.Value, f *types.Var) bool {
	_, g := loadedField(v)
	return g != nil && g == f
}

// calleeOf returns the resolved callee object of a call: the static callee's
// object, or the interface method for invoke-mode calls; nil for dynamic
// calls of function values.
func calleeOf(c ssa.CallInstruction) *types.Func {
	cc := c.Common()
	if cc.IsInvoke() {
		return cc.Method
	}
	if sc := cc.StaticCallee(); sc != nil {
		if f, ok := sc.Object().(*types.Func); ok {
			return f
		}
		// instantiated generic or closure: use origin
		if sc.Origin() != nil {
			if f, ok := sc.Origin().Object().(*types.Func); ok {
				return f
			}
		}
	}
	return nil
}

func calleeName(c ssa.CallInstruction) string {
	if f := calleeOf(c); f != nil {
		return f.FullName()
	}
	if sc := c.Common().StaticCallee(); sc != nil {
		return funcKey(sc)
	}
	return ""
}

// isCallTo: v is the result of a call whose resolved callee has FullName name.
func isCallTo(v ssa.Value, name string) bool {
	c, ok := v.(*ssa.Call)
	return ok && calleeName(c) == name
}

// extractOf: if v = extract(call, i) return call, i
func extractOf(v ssa.Value) (*ssa.Call, int) {
	e, ok := v.(*ssa.Extract)
	if !ok {
		return nil, 0
	}
	c, ok := e.Tuple.(*ssa.Call)
	if !ok {
		return nil, 0
	}
	return c, e.Index
}

func constInt(v ssa.Value) (int64, bool) {
	c, ok := v.(*ssa.Const)
	if !ok || c.Value == nil {
		return 0, false
	}
	if c.Value.Kind() != constant.Int {
		return 0, false
	}
	return c.Int64(), true
}

func isNilConst(v ssa.Value) bool {
	c, ok := v.(*ssa.Const)
	return ok && c.Value == nil
}

// stripConv removes value-preserving wrappers.
func stripConv(v ssa.Value) ssa.Value {
	for {
		switch x := v.(type) {
		case *ssa.ChangeType:
			v = x.X
		case *ssa.Convert:
			v = x.X
		case *ssa.MakeInterface:
			v = x.X
		case *ssa.ChangeInterface:
			v = x.X
		default:
			return v
		}
	}
}

// allCalls enumerates call-like instructions (Call, Defer, Go) of fn.
func allCalls(fn *ssa.Function, f func(ssa.CallInstruction)) {
	for _, b := range fn.Blocks {
		for _, in := range b.Instrs {
			if c, ok := in.(ssa.CallInstruction); ok {
				f(c)
			}
		}
	}
}

// errNilFact: is `v` known to be a nil error / non-nil error at `in`?
// Looks for facts of the shape (v != nil) / (v == nil).
func errIsNilAt(in ssa.Instruction, errv ssa.Value) (known bool, isNil bool) {
	for _, f := range FactsAt(in) {
		b, ok := f.Cond.(*ssa.BinOp)
		if !ok {
			continue
		}
		var other ssa.Value
		if b.X == errv || reachingStore(b.X) == errv {
			other = b.Y
		} else if b.Y == errv || reachingStore(b.Y) == errv {
			other = b.X
		} else {
			continue
		}
		if !isNilConst(other) {
			continue
		}
		switch b.Op {
		case token.NEQ:
			return true, !f.Val
		case token.EQL:
			return true, f.Val
		}
	}
	return false, false
}

// instrIndex returns position of in within its block.
func instrIndex(in ssa.Instruction) int {
	for i, x := range in.Block().Instrs {
		if x == in {
			return i
		}
	}
	return -1
}

// InstrDominates: a executes before b on every path to b.
func InstrDominates(a, b ssa.Instruction) bool {
	if a.Block() == b.Block() {
		return instrIndex(a) < instrIndex(b)
	}
	return a.Block().Dominates(b.Block())
}

// reachableFrom: blocks reachable from block b (forward), including b.
func reachableFrom(b *ssa.BasicBlock) map[*ssa.BasicBlock]bool {
	seen := map[*ssa.BasicBlock]bool{}
	var walk func(*ssa.BasicBlock)
	walk = func(x *ssa.BasicBlock) {
		if seen[x] {
			return
		}
		seen[x] = true
		for _, s := range x.Succs {
			walk(s)
		}
	}
	walk(b)
	return seen
}

// mayFollow: instruction b may execute after a (same function).
func mayFollow(a, b ssa.Instruction) bool {
	if a.Block() == b.Block() && instrIndex(a) < instrIndex(b) {
		return true
	}
	for _, s := range a.Block().Succs {
		if reachableFrom(s)[b.Block()] {
			return true
		}
	}
	return false
}

// phiLeaves flattens nested phis into their non-phi leaves.
func phiLeaves(v ssa.Value) []ssa.Value {
	var out []ssa.Value
	seen := map[ssa.Value]bool{}
	var walk func(ssa.Value)
	walk = func(x ssa.Value) {
		if seen[x] {
			return
		}
		seen[x] = true
		if p, ok := x.(*ssa.Phi); ok {
			for _, e := range p.Edges {
				walk(e)
			}
			return
		}
		out = append(out, x)
	}
	walk(v)
	return out
}

// retResults returns the returned values of a Return, resolving the
// "defer spill" shape of go/ssa (`*r = v; rundefers; t = *r; return t`) to v.
func retResults(ret *ssa.Return) []ssa.Value {
	out := make([]ssa.Value, len(ret.Results))
	for i, rv := range ret.Results {
		out[i] = rv
		ld, ok := rv.(*ssa.UnOp)
		if !ok || ld.Op != token.MUL {
			continue
		}
		a, ok := ld.X.(*ssa.Alloc)
		if !ok {
			continue
		}
		// last store to a in this block before the load
		b := ret.Block()
		var last ssa.Value
		for _, in := range b.Instrs {
			if in == ssa.Instruction(ld) {
				break
			}
			if st, ok := in.(*ssa.Store); ok && st.Addr == ssa.Value(a) {
				last = st.Val
			}
		}
		if last != nil {
			out[i] = last
		}
	}
	return out
}

// unwrapLocal: if v is a load of a local slot with exactly one store, return
// the stored value (repeatedly); otherwise v.
func unwrapLocal(v ssa.Value) ssa.Value {
	for i := 0; i < 4; i++ {
		ld, ok := v.(*ssa.UnOp)
		if !ok || ld.Op != token.MUL {
			return v
		}
		a, ok := ld.X.(*ssa.Alloc)
		if !ok {
			return v
		}
		var stored ssa.Value
		n := 0
		for _, ref := range *a.Referrers() {
			if st, ok := ref.(*ssa.Store); ok && st.Addr == ssa.Value(a) {
				// `return namedResult, …` stores the variable into itself first
				if l2, ok := st.Val.(*ssa.UnOp); ok && l2.Op == token.MUL && l2.X == ssa.Value(a) {
					continue
				}
				stored = st.Val
				n++
			}
		}
		if n != 1 {
			return v
		}
		v = stored
	}
	return v
}

// helperResult: if v is the (extracted) result of a direct call to a module
// function with a single return statement, return the expression that
// function returns in that position (in the callee's own values); else v.
func helperResult(v ssa.Value) ssa.Value {
	var call *ssa.Call
	idx := 0
	switch x := v.(type) {
	case *ssa.Extract:
		c, ok := x.Tuple.(*ssa.Call)
		if !ok {
			return v
		}
		call, idx = c, x.Index
	case *ssa.Call:
		call = x
	default:
		return v
	}
	callee := call.Common().StaticCallee()
	if callee == nil || callee.Blocks == nil || !isModFunc(callee) {
		return v
	}
	var ret *ssa.Return
	n := 0
	for _, b := range callee.Blocks {
		if r, ok := lastInstr(b).(*ssa.Return); ok {
			ret = r
			n++
		}
	}
	if n != 1 || idx >= len(ret.Results) {
		return v
	}
	return retResults(ret)[idx]
}

// neverNil: v is a value that is never nil (see boolEnv.nilOf).
func neverNil(v ssa.Value) bool {
	switch x := v.(type) {
	case *ssa.MakeInterface, *ssa.Alloc:
		return true
	case *ssa.Call:
		switch calleeName(x) {
		case "fmt.Errorf", "errors.New":
			return true
		}
	}
	return false
}

// helperOKReturns: v is result #i of a direct call to a module helper whose
// last result is an error (#j, j != i). Returns the call, the helper and the
// helper's return statements that may carry a nil error.
func helperOKReturns(v ssa.Value) (call *ssa.Call, h *ssa.Function, i, j int, rets []*ssa.Return) {
	call, i = extractOf(v)
	if call == nil {
		return nil, nil, 0, 0, nil
	}
	h = call.Common().StaticCallee()
	if h == nil || h.Blocks == nil || !isModFunc(h) {
		return nil, nil, 0, 0, nil
	}
	res := h.Signature.Results()
	j = res.Len() - 1
	if j < 1 || i == j || !isErrorType(res.At(j).Type()) {
		return nil, nil, 0, 0, nil
	}
	for _, b := range h.Blocks {
		ret, ok := lastInstr(b).(*ssa.Return)
		if !ok {
			continue
		}
		rr := retResults(ret)
		if j >= len(rr) {
			return nil, nil, 0, 0, nil
		}
		if neverNil(rr[j]) {
			continue
		}
		if known, isNil := errIsNilAt(ret, rr[j]); known && !isNil {
			continue // returned under `err != nil`
		}
		rets = append(rets, ret)
	}
	return call, h, i, j, rets
}

func isErrorType(t types.Type) bool {
	n, ok := t.(*types.Named)
	return ok && n.Obj().Pkg() == nil && n.Obj().Name() == "error"
}

// errResultOf: the Extract of result #j of call, if any.
func errResultOf(call *ssa.Call, j int) ssa.Value {
	for _, ref := range *call.Referrers() {
		if ex, ok := ref.(*ssa.Extract); ok && ex.Index == j {
			return ex
		}
	}
	return nil
}

// cmpFactsVia: comparisons that hold for v at `at` because v is a result of a
// helper whose error result is known to be nil at `at`: the comparisons that
// hold for the returned value at every return of the helper that may carry a
// nil error. Operands that are parameters of the helper are replaced by the
// call's arguments.
func cmpFactsVia(v ssa.Value, at ssa.Instruction) []cmpFact {
	call, h, i, j, rets := helperOKReturns(stripConv(v))
	if call == nil || len(rets) == 0 {
		return nil
	}
	ev := errResultOf(call, j)
	if ev == nil {
		return nil
	}
	if known, isNil := errIsNilAt(at, ev); !known || !isNil {
		return nil
	}
	mapArg := func(o ssa.Value) ssa.Value {
		if pp, ok := stripConv(o).(*ssa.Parameter); ok && pp.Parent() == h {
			for k, q := range h.Params {
				if q == pp && k < len(call.Common().Args) {
					return call.Common().Args[k]
				}
			}
		}
		return o
	}
	var acc []cmpFact
	for n, ret := range rets {
		var here []cmpFact
		for _, f := range cmpFactsFor(retResults(ret)[i], ret) {
			here = append(here, cmpFact{f.op, mapArg(f.other)})
		}
		if n == 0 {
			acc = here
			continue
		}
		var keep []cmpFact
		for _, a := range acc {
			for _, b := range here {
				if a.op == b.op && sameShape(a.other, b.other, 0) {
					keep = append(keep, a)
					break
				}
			}
		}
		acc = keep
	}
	return acc
}

// reachingStore: v is a load of a local slot (e.g. a named result that lives
// in a cell because a deferred literal captures it); returns the value of the
// store to that slot that precedes the load in the same block with nothing in
// between that could write the slot, else nil. Calls in between are harmless
// when the only literals capturing the slot are deferred (they run at exit).
func reachingStore(v ssa.Value) ssa.Value {
	ld, ok := v.(*ssa.UnOp)
	if !ok || ld.Op != token.MUL {
		return nil
	}
	a, ok := ld.X.(*ssa.Alloc)
	if !ok || a.Referrers() == nil {
		return nil
	}
	onlyDeferred := true
	for _, ref := range *a.Referrers() {
		switch x := ref.(type) {
		case *ssa.Store:
			if x.Addr != ssa.Value(a) {
				return nil
			}
		case *ssa.UnOp, *ssa.DebugRef:
		case *ssa.MakeClosure:
			if x.Referrers() != nil {
				for _, r2 := range *x.Referrers() {
					if _, isDefer := r2.(*ssa.Defer); !isDefer {
						onlyDeferred = false
					}
				}
			}
		default:
			return nil
		}
	}
	instrs := ld.Block().Instrs
	for i := instrIndex(ld) - 1; i >= 0; i-- {
		switch x := instrs[i].(type) {
		case *ssa.Store:
			if x.Addr == ssa.Value(a) {
				return x.Val
			}
		case ssa.CallInstruction:
			if _, isDefer := x.(*ssa.Defer); !isDefer && !onlyDeferred {
				return nil
			}
		}
	}
	return nil
}
