package main

import (
	"go/token"
	"go/types"
	"strings"

	"golang.org/x/tools/go/ssa"
)

func init() { register("C20", checkC20) }

const pkgSSH = "golang.org/x/crypto/ssh"

func checkC20(p *Prog, r *Report) {
	g := p.ModGraph()
	for _, fn := range p.FuncsInPkg(pkgAnonssh) {
		r.FuncsSeen[funcKey(fn)] = true
	}
	serve := anchorFunc(p, r, pkgAnonssh, "", "Serve")
	akF := p.Field(pkgAnonssh, "Listener", "authorizedKeys")
	if serve == nil || akF == nil {
		r.Fatalf("anchor unresolved: anonssh.Serve / Listener.authorizedKeys")
		return
	}

	// ---- AUTH-SURFACE ----
	r.Rule("C20/AUTH-SURFACE", "every ssh.ServerConfig in production code is a composite literal that sets only PublicKeyCallback; NoClientAuth, PasswordCallback, KeyboardInteractiveCallback, GSSAPIWithMICConfig, NoClientAuthCallback are never stored", 1)
	scObj := p.ByPath[pkgSSH]
	var scType types.Type
	if scObj != nil {
		if o := scObj.Types.Scope().Lookup("ServerConfig"); o != nil {
			scType = o.Type()
		}
	}
	if scType == nil {
		r.Fatalf("anchor unresolved: ssh.ServerConfig")
		return
	}
	nCfg := 0
	for _, fn := range p.ModFuncs {
		if isTestSupport(pkgPathOfFunc(fn)) {
			continue
		}
		for _, b := range fn.Blocks {
			for _, in := range b.Instrs {
				switch x := in.(type) {
				case *ssa.Alloc:
					if pt, ok := x.Type().(*types.Pointer); ok && types.Identical(pt.Elem(), scType) {
						nCfg++
						r.OK("C20/AUTH-SURFACE", funcKey(fn)+" builds ssh.ServerConfig", p.Pos(x.Pos()), "")
					}
				case *ssa.Store:
					base, f := fieldOfAddr(x.Addr)
					if f == nil || base == nil {
						continue
					}
					if pt, ok := base.Type().Underlying().(*types.Pointer); ok && types.Identical(pt.Elem(), scType) {
						okF := f.Name() == "PublicKeyCallback"
						r.Cond(okF, "C20/AUTH-SURFACE", funcKey(fn)+" sets ServerConfig."+f.Name(), p.Pos(x.Pos()), "only public-key authentication may be enabled")
					}
				}
			}
		}
	}
	if nCfg == 0 {
		r.Bad("C20/AUTH-SURFACE", "ssh.ServerConfig literal", "-", "no server configuration found")
	}

	// ---- KEY-TABLE ----
	r.Rule("C20/KEY-TABLE", "decision table of the PublicKeyCallback: authorizedKeys==nil (anonymous listener) → accept; key found in the set (looked up by string(pubKey.Marshal()) of the callback's key) → accept; otherwise non-nil error", 3)
	var cb *ssa.Function
	for _, lit := range serve.AnonFuncs {
		sig := lit.Signature
		if sig.Params().Len() == 2 && sig.Results().Len() == 2 {
			if n := namedOf(sig.Params().At(1).Type()); n != nil && n.Obj().Name() == "PublicKey" {
				cb = lit
			}
		}
	}
	if cb == nil {
		r.Fatalf("C20/KEY-TABLE: PublicKeyCallback literal not found in anonssh.Serve")
	} else {
		r.FuncsSeen[funcKey(cb)] = true
		keyP := cb.Params[1]
		var pe *PathEnum
		isLookup := func(v ssa.Value) bool {
			// map lookup authorizedKeys[string(pubKey.Marshal())]
			lk, ok := v.(*ssa.Lookup)
			if !ok {
				if e, isE := v.(*ssa.Extract); isE {
					lk, ok = e.Tuple.(*ssa.Lookup)
				}
			}
			if !ok || !isFieldLoad(lk.X, akF) {
				return false
			}
			cv, isC := lk.Index.(*ssa.Convert)
			if !isC {
				return false
			}
			mc, isCall := cv.X.(*ssa.Call)
			return isCall && mc.Common().IsInvoke() && mc.Common().Method.Name() == "Marshal" && pe.C(mc.Common().Value) == ssa.Value(keyP)
		}
		atom := func(cond ssa.Value) (string, bool, bool) {
			if bo, ok := cond.(*ssa.BinOp); ok && (bo.Op == token.EQL || bo.Op == token.NEQ) && isFieldLoad(bo.X, akF) && isNilConst(bo.Y) {
				return "ANON", bo.Op == token.NEQ, true
			}
			if isLookup(cond) {
				return "HIT", false, true
			}
			return "", false, false
		}
		// the decision may live in a method of the listener that the literal forwards to
		pe = &PathEnum{Atom: atom, BackEdge: "loop", Inline: func(h *ssa.Function) bool { return pkgPathOfFunc(h) == pkgAnonssh }, Outcome: func(last ssa.Instruction, _ []string) string {
			ret, ok := last.(*ssa.Return)
			if !ok {
				return "panic"
			}
			if nl, known := pe.NilOf(retResults(ret)[1]); known && nl {
				return "accept"
			}
			if isNilConst(retResults(ret)[1]) {
				return "accept"
			}
			return "reject"
		}}
		pe.Run(cb)
		CheckTable(p, r, "C20/KEY-TABLE", "PublicKeyCallback", pe, func(ask func(string) bool) string {
			if ask("ANON") {
				return "accept"
			}
			if ask("HIT") {
				return "accept"
			}
			return "reject"
		})
	}

	// ---- KEYS-NON-NIL ----
	r.Rule("C20/KEYS-NON-NIL", "ListenerFromConfig: when AuthorizedSSH.Address != \"\" the key set is the result of loadAuthorizedKeys (an empty AuthorizedKeys path is an error); loadAuthorizedKeys returns a non-nil map on every nil-error return; the only store to Listener.authorizedKeys is that value", 3)
	lfc := anchorFunc(p, r, pkgAnonssh, "", "ListenerFromConfig")
	lak := anchorFunc(p, r, pkgAnonssh, "", "loadAuthorizedKeys")
	if lfc != nil && lak != nil {
		// loadAuthorizedKeys nil-error returns return the make(map)
		okMap, n := true, 0
		for _, b := range lak.Blocks {
			ret, ok := lastInstr(b).(*ssa.Return)
			if !ok {
				continue
			}
			rr := retResults(ret)
			if !isNilConst(rr[1]) {
				continue
			}
			n++
			if _, isMk := rr[0].(*ssa.MakeMap); !isMk {
				okMap = false
			}
		}
		r.Cond(okMap && n > 0, "C20/KEYS-NON-NIL", "loadAuthorizedKeys returns a non-nil set", p.Pos(lak.Pos()), "a nil map would turn an authorised listener into an anonymous one")
		// store to authorizedKeys
		for _, st := range storesToField(p, akF) {
			if isTestSupport(pkgPathOfFunc(st.Parent())) {
				continue
			}
			okSt := st.Parent() == lfc
			if okSt {
				for _, leaf := range phiLeaves(st.Val) {
					if isNilConst(leaf) {
						continue // the anonymous case: must be the Address=="" edge (checked below)
					}
					c, idx := extractOf(leaf)
					if c == nil || idx != 0 || c.Common().StaticCallee() != lak {
						okSt = false
					}
				}
			}
			r.Cond(okSt, "C20/KEYS-NON-NIL", funcKey(st.Parent())+" store Listener.authorizedKeys", p.Pos(st.Pos()), "key set must be nil (anonymous) or the loadAuthorizedKeys result")
		}
		// the loadAuthorizedKeys call is on the Address != "" edge and its error is returned
		allCalls(lfc, func(c ssa.CallInstruction) {
			if c.Common().StaticCallee() != lak {
				return
			}
			addrNonEmpty := HasFact(c, true, func(v ssa.Value) bool {
				bo, ok := v.(*ssa.BinOp)
				if !ok || bo.Op != token.NEQ {
					return false
				}
				s, isC := constStr(bo.Y)
				_, f := loadedField(bo.X)
				return isC && s == "" && f != nil && f.Name() == "Address"
			})
			call, _ := c.(*ssa.Call)
			prop := false
			if call != nil {
				prop, _ = errPropagated(call)
			}
			r.Cond(addrNonEmpty && prop, "C20/KEYS-NON-NIL", "ListenerFromConfig loads keys iff an authorised address is configured", p.Pos(instrPos(c)), "")
		})
	}

	// ---- CHANNEL-SURFACE ----
	r.Rule("C20/CHANNEL-SURFACE", "handleChannel accepts only channel type \"session\" (everything else is rejected); (*session).request handles only \"env\" (no effect) and \"exec\"; any other request type returns an error; no os.Setenv/exec is reachable from request handling except through the configured main callback", 4)
	checkStringSwitch(p, r, "C20/CHANNEL-SURFACE", anchorFunc(p, r, pkgAnonssh, "anonssh", "handleChannel"), map[string]bool{"session": true})
	checkStringSwitch(p, r, "C20/CHANNEL-SURFACE", anchorFunc(p, r, pkgAnonssh, "session", "request"), map[string]bool{"env": true, "exec": true})
	for _, fn := range p.FuncsInPkg(pkgAnonssh) {
		allCalls(fn, func(c ssa.CallInstruction) {
			n := calleeName(c)
			if n == "os.Setenv" || strings.HasPrefix(n, "os/exec.") || strings.HasPrefix(n, "(*os/exec.") {
				r.Bad("C20/CHANNEL-SURFACE", funcKey(fn)+" → "+n, p.Pos(instrPos(c)), "the SSH front end must not change the environment or spawn processes")
			}
		})
	}

	r.Rule("C20/MODULES-FROM-CONFIG", "every rsyncd.NewServer reachable from the anonymous exec callback receives Config.Modules of the daemon's configuration unchanged", 1)
	// ---- EXEC-ONLY-DAEMON ----
	r.Rule("C20/EXEC-ONLY-DAEMON", "from the exec callback given to anonssh.Serve on the anonymous listener (the call site not dominated by AuthorizedSSH.Address != \"\") none of these is reachable: os/exec, net.Listen, (net.Dialer).DialContext, maincmd.Main, clientMain, rsyncMain, doCmd, socketClient, (*Server).InternalHandleConn, HandleConnArgs, (*Server).Serve, anonssh.Serve, namespace; (*Server).HandleDaemonConn must be reachable", 2)
	nAnon := 0
	for _, fn := range p.ModFuncs {
		if isTestSupport(pkgPathOfFunc(fn)) {
			continue
		}
		allCalls(fn, func(c ssa.CallInstruction) {
			if c.Common().StaticCallee() != serve {
				return
			}
			authorised := HasFact(c, true, func(v ssa.Value) bool {
				bo, ok := v.(*ssa.BinOp)
				if !ok || bo.Op != token.NEQ {
					return false
				}
				s, isC := constStr(bo.Y)
				_, f := loadedField(bo.X)
				return isC && s == "" && f != nil && f.Name() == "Address"
			})
			if authorised {
				r.Info("C20/EXEC-ONLY-DAEMON: anonssh.Serve call at %s is the authorised-SSH listener (out of the rule's scope)", p.Pos(instrPos(c)))
				return
			}
			nAnon++
			a := c.Common().Args
			var lit *ssa.Function
			switch x := stripConv(a[len(a)-1]).(type) {
			case *ssa.MakeClosure:
				lit, _ = x.Fn.(*ssa.Function)
			case *ssa.Function:
				lit = x
			}
			if lit == nil {
				r.Unk("C20/EXEC-ONLY-DAEMON", funcKey(fn)+" anonymous exec callback", p.Pos(instrPos(c)), "callback is not a function literal/value the checker can resolve")
				return
			}
			reach := g.Reach([]*ssa.Function{lit}, nil)
			forbiddenFn := map[string]bool{"Main": true, "clientMain": true, "rsyncMain": true, "doCmd": true, "socketClient": true, "namespace": true, "ClientRun": true}
			sawDaemon := false
			bad := 0
			for f := range reach {
				pk := pkgPathOfFunc(f)
				name := f.Name()
				if pk == pkgRsyncd && name == "HandleDaemonConn" {
					sawDaemon = true
				}
				why := ""
				switch {
				case pk == pkgMaincmd && forbiddenFn[name] && f.Parent() == nil:
					why = "CLI/client entry point"
				case pk == pkgRsyncd && (name == "InternalHandleConn" || name == "HandleConnArgs" || name == "Serve") && f.Parent() == nil:
					why = "command-mode server / listener"
				case pk == pkgAnonssh && name == "Serve":
					why = "nested SSH listener"
				case pk == pkgClient:
					why = "library client"
				}
				if !isModFunc(f) {
					if o := f.Object(); o != nil && o.Pkg() != nil {
						fn := o.(*types.Func).FullName()
						if strings.HasPrefix(fn, "os/exec.") || strings.HasPrefix(fn, "(*os/exec.") || fn == "net.Listen" || fn == "(*net.Dialer).DialContext" || fn == "(*net.Dialer).Dial" || fn == "net.Dial" {
							why = "process/network primitive"
						}
					}
				}
				if why != "" {
					bad++
					r.Bad("C20/EXEC-ONLY-DAEMON", funcKey(lit)+" ⇒ "+funcKey(f), p.Pos(instrPos(c)), why+" reachable from an anonymous SSH session: "+g.Chain(reach, f))
				}
			}
			// the module table served to an anonymous session is the configured one
			modsF := p.Field(pkgConfig, "Config", "Modules")
			for f := range reach {
				if !isModFunc(f) || f.Blocks == nil {
					continue
				}
				allCalls(f, func(nc ssa.CallInstruction) {
					if calleeName(nc) != pkgRsyncd+".NewServer" {
						return
					}
					arg := nc.Common().Args[0]
					okMods := false
					if base, fld := loadedField(arg); fld == modsF && modsF != nil {
						okMods = true
						for _, leaf := range phiLeaves(base) {
							if _, isP := leaf.(*ssa.Parameter); isP {
								continue
							}
							if ec, idx := extractOf(leaf); ec != nil && idx == 0 && strings.HasPrefix(calleeName(ec), pkgConfig+".From") {
								continue
							}
							okMods = false
						}
					}
					r.Cond(okMods, "C20/MODULES-FROM-CONFIG", funcKey(f)+" → rsyncd.NewServer(modules)", p.Pos(instrPos(nc)), "on the anonymous path the module table must be exactly Config.Modules of the configuration (not extended from options parsed from the peer's command line)")
				})
			}
			r.Cond(sawDaemon, "C20/EXEC-ONLY-DAEMON", funcKey(lit)+" reaches HandleDaemonConn", p.Pos(instrPos(c)), "the anonymous session must be able to speak the daemon protocol")
			if bad == 0 {
				r.OK("C20/EXEC-ONLY-DAEMON", funcKey(lit)+" forbidden targets unreachable", p.Pos(instrPos(c)), "")
			}
		})
	}
	if nAnon == 0 {
		r.Bad("C20/EXEC-ONLY-DAEMON", "anonymous anonssh.Serve call site", "-", "no anonymous-listener call site found")
	}
	checkAnonNoAmbientWrites(p, r)
	r.Trust("golang.org/x/crypto/ssh enforces the configured authentication callbacks and channel/request framing")
	r.Assume("the rule is context-insensitive: a repair that keeps calling the general CLI entry and adds a run-time mode check would still be reported")
	r.Uncovered("key parsing quirks in loadAuthorizedKeys (start-up time, not peer-triggered); what authorised users may do after authentication")
}

// checkStringSwitch: the function dispatches on a string with == tests; the
// set of accepted literals must equal `allowed`, and the fall-through
// (no literal matched) must not reach an accepting effect: it must return a
// non-nil error or call Reject.
func checkStringSwitch(p *Prog, r *Report, rule string, fn *ssa.Function, allowed map[string]bool) {
	if fn == nil {
		return
	}
	seen := map[string]bool{}
	var subject ssa.Value
	for _, b := range fn.Blocks {
		ifi, ok := lastInstr(b).(*ssa.If)
		if !ok {
			continue
		}
		bo, ok := ifi.Cond.(*ssa.BinOp)
		if !ok || (bo.Op != token.EQL && bo.Op != token.NEQ) {
			continue
		}
		if s, isC := constStr(bo.Y); isC {
			seen[s] = true
			if subject == nil {
				subject = bo.X
			} else if subject != bo.X {
				r.Unk(rule, funcKey(fn)+" dispatch subject", p.Pos(ifi.Pos()), "string comparisons on different values")
			}
		}
	}
	for s := range seen {
		r.Cond(allowed[s], rule, funcKey(fn)+" accepts \""+s+"\"", p.Pos(fn.Pos()), "unexpected channel/request type accepted")
	}
	for s := range allowed {
		if !seen[s] {
			r.Bad(rule, funcKey(fn)+" accepts \""+s+"\"", p.Pos(fn.Pos()), "expected type no longer dispatched")
		}
	}
	// default edge: block(s) where all comparisons are false
	okDefault := false
	for _, b := range fn.Blocks {
		facts := FactsAtBlock(b)
		nFalse := 0
		for _, f := range facts {
			if bo, ok := f.Cond.(*ssa.BinOp); ok && ((bo.Op == token.EQL && !f.Val) || (bo.Op == token.NEQ && f.Val)) {
				if _, isC := constStr(bo.Y); isC {
					nFalse++
				}
			}
		}
		if nFalse != len(seen) || len(seen) == 0 {
			continue
		}
		// in this region: a Reject call or a non-nil error return
		for _, in := range b.Instrs {
			if c, ok := in.(ssa.CallInstruction); ok && c.Common().IsInvoke() && c.Common().Method.Name() == "Reject" {
				okDefault = true
			}
			if ret, ok := in.(*ssa.Return); ok {
				rr := retResults(ret)
				if len(rr) > 0 && !isNilConst(rr[len(rr)-1]) {
					okDefault = true
				}
			}
		}
	}
	r.Cond(okDefault, rule, funcKey(fn)+" default rejects", p.Pos(fn.Pos()), "types other than the accepted ones must be refused")
}
