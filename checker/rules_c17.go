package main

import (
	"go/constant"
	"go/token"
	"go/types"

	"golang.org/x/tools/go/ssa"
)

func init() { register("C17", checkC17) }

func scopeConstInt(p *Prog, pkg, name string) (int64, bool) {
	c, ok := p.Obj(pkg, name).(*types.Const)
	if !ok {
		return 0, false
	}
	return constant.Int64Val(constant.ToInt(c.Val()))
}

// bufferInvariant decides C17/BUFFER and is reused by C08 to discharge the
// panic in (*MultiplexReader).Read.
func bufferInvariant(p *Prog, report func(ok bool, key, pos, detail string)) bool {
	maxMsg, okC := scopeConstInt(p, pkgWire, "maxMessageSize")
	mrT := p.Obj(pkgWire, "MultiplexReader")
	if !okC || mrT == nil {
		report(false, "anchors", "-", "rsyncwire.maxMessageSize / MultiplexReader unresolved")
		return false
	}
	all := true
	rep := func(ok bool, key, pos, detail string) {
		if !ok {
			all = false
		}
		report(ok, key, pos, detail)
	}
	n := 0
	for _, fn := range p.ModFuncs {
		if isTestSupport(pkgPathOfFunc(fn)) {
			continue
		}
		for _, b := range fn.Blocks {
			for _, in := range b.Instrs {
				al, ok := in.(*ssa.Alloc)
				if !ok {
					continue
				}
				pt, ok := al.Type().(*types.Pointer)
				if !ok || !types.Identical(pt.Elem(), mrT.Type()) {
					continue
				}
				n++
				base := funcKey(fn) + " MultiplexReader"
				// uses of the reader value: field inits and conversion to io.Reader
				for _, ref := range *al.Referrers() {
					switch x := ref.(type) {
					case *ssa.FieldAddr, *ssa.DebugRef:
					case *ssa.MakeInterface:
						for _, r2 := range *x.Referrers() {
							c, isCall := r2.(*ssa.Call)
							if !isCall || calleeName(c) != "bufio.NewReaderSize" || c.Common().Args[0] != ssa.Value(x) {
								rep(false, base+" flows only into bufio.NewReaderSize", p.Pos(instrPos(r2)), "the demultiplexer hands out whole frames and must sit behind a buffer ≥ the largest frame")
								continue
							}
							sz, isK := constInt(c.Common().Args[1])
							rep(isK && sz >= maxMsg, base+" buffer ≥ maxMessageSize", p.Pos(c.Pos()), "bufio.NewReaderSize size must be a constant ≥ rsyncwire.maxMessageSize")
							// uses of the *bufio.Reader
							for _, r3 := range *c.Referrers() {
								switch y := r3.(type) {
								case *ssa.DebugRef:
								case *ssa.MakeInterface:
									// io.Reader conversion: fine (only Read is reachable through io.Reader)
									if it, ok := y.Type().Underlying().(*types.Interface); !ok || it.NumMethods() != 1 || it.Method(0).Name() != "Read" {
										rep(false, base+" bufio.Reader converted to a wider interface", p.Pos(y.Pos()), "only io.Reader (Read) may be reached")
									} else {
										rep(true, base+" bufio.Reader used as io.Reader", p.Pos(y.Pos()), "")
									}
								case ssa.CallInstruction:
									f := calleeOf(y)
									okM := f != nil && f.Name() == "Read"
									rep(okM, base+" bufio.Reader method "+calleeName(y), p.Pos(instrPos(y)), "ReadByte/Peek/ReadString/Discard may call the underlying reader with a partial buffer smaller than a frame")
								default:
									rep(false, base+" bufio.Reader other use", p.Pos(instrPos(r3)), "unexpected use of the buffered demultiplexer")
								}
							}
						}
					default:
						rep(false, base+" other use", p.Pos(instrPos(ref)), "MultiplexReader used outside a bufio.NewReaderSize wrapper (e.g. Read called directly)")
					}
				}
			}
		}
	}
	rep(n >= 1, "a MultiplexReader is constructed", "-", "no construction site found")
	return all
}

func checkC17(p *Prog, r *Report) {
	maxMsg, _ := scopeConstInt(p, pkgWire, "maxMessageSize")
	r.Rule("C17/BUFFER", "every rsyncwire.MultiplexReader constructed in production code flows only into bufio.NewReaderSize(_, N) with constant N ≥ rsyncwire.maxMessageSize, and the *bufio.Reader is used only through io.Reader/Read", 3)
	bufferInvariant(p, func(ok bool, key, pos, detail string) { r.Cond(ok, "C17/BUFFER", key, pos, detail) })

	// ---- LENGTH-GATE ----
	r.Rule("C17/LENGTH-GATE", "in (*MultiplexReader).ReadMsg the allocation and the payload read are dominated by length>maxMessageSize being false, length = header & 0xFFFFFF, tag = uint8(header>>24) - mplexBase; (*MultiplexReader).Read: error frame → non-nil error, info frame → (0,nil), unknown tag → error, only data frames reach copy", 6)
	rm := anchorFunc(p, r, pkgWire, "MultiplexReader", "ReadMsg")
	if rm != nil {
		for _, b := range rm.Blocks {
			for _, in := range b.Instrs {
				var lenV ssa.Value
				label := ""
				switch x := in.(type) {
				case *ssa.MakeSlice:
					lenV, label = x.Len, "make payload"
				case ssa.CallInstruction:
					if calleeName(x) == "io.ReadFull" {
						if mk, ok := x.Common().Args[1].(*ssa.MakeSlice); ok {
							lenV, label = mk.Len, "ReadFull payload"
						}
					}
				}
				if label == "" {
					continue
				}
				core := stripConv(helperResult(stripConv(lenV)))
				and, isAnd := core.(*ssa.BinOp)
				maskOK := isAnd && and.Op == token.AND
				if maskOK {
					k, isK := constInt(and.Y)
					maskOK = isK && k == 0x00FFFFFF
				}
				gate := false
				for _, f := range cmpFactsFor(lenV, in) {
					if k, ok := constInt(f.other); ok && k <= maxMsg && (f.op == token.LEQ || f.op == token.LSS) {
						gate = true
					}
				}
				r.Cond(maskOK && gate, "C17/LENGTH-GATE", "ReadMsg "+label, p.Pos(instrPos(in)), "payload length must be header&0xFFFFFF and bounded by maxMessageSize before allocating/reading")
			}
		}
	}
	checkMuxReadTable(p, r)

	// ---- FULL-READS ----
	r.Rule("C17/FULL-READS", "outside package rsyncwire every use of a Conn.Reader value is as the reader argument of io.ReadFull / binary.Read / io.Copy* / io.ReadAll (a bare Read may return a short count at a frame boundary and truncate an integer)", 8)
	readerF := p.Field(pkgWire, "Conn", "Reader")
	okFull := map[string]bool{"io.ReadFull": true, "encoding/binary.Read": true, "io.Copy": true, "io.CopyN": true, "io.CopyBuffer": true, "io.ReadAll": true, "io.ReadAtLeast": false}
	for _, fn := range p.ModFuncs {
		if isTestSupport(pkgPathOfFunc(fn)) {
			continue
		}
		for _, b := range fn.Blocks {
			for _, in := range b.Instrs {
				ld, ok := in.(*ssa.UnOp)
				if !ok || !isFieldLoad(ld, readerF) {
					continue
				}
				for _, ref := range *ld.Referrers() {
					switch x := ref.(type) {
					case *ssa.DebugRef:
					case ssa.CallInstruction:
						key := funcKey(fn) + " Conn.Reader → " + calleeName(x)
						if x.Common().IsInvoke() && x.Common().Value == ssa.Value(ld) {
							inWire := pkgPathOfFunc(fn) == pkgWire
							r.Cond(inWire, "C17/FULL-READS", key, p.Pos(instrPos(x)), "bare method call on the session reader outside rsyncwire")
							continue
						}
						r.Cond(okFull[calleeName(x)], "C17/FULL-READS", key, p.Pos(instrPos(x)), "the session reader must be consumed with a full-read helper")
					case *ssa.Store, *ssa.MakeInterface, *ssa.ChangeInterface, *ssa.Phi:
						// moved/boxed: conservative — flag unless inside rsyncwire
						r.Cond(pkgPathOfFunc(fn) == pkgWire || isStoreOfReader(ref, readerF), "C17/FULL-READS", funcKey(fn)+" Conn.Reader escapes", p.Pos(instrPos(ref)), "session reader copied to another value; its reads are no longer checked")
					}
				}
			}
		}
	}

	// ---- NO-WIDENING ----
	r.Rule("C17/NO-WIDENING", "no production code type-asserts an io.Reader (the session reader or anything wrapping the demultiplexer) to a wider interface (io.ByteReader, io.WriterTo, …): methods other than Read reach bufio's partial-buffer paths, which give up after 100 empty reads and may hand the demultiplexer a buffer smaller than a frame", 0)
	nTA := 0
	for _, fn := range p.ModFuncs {
		pk := pkgPathOfFunc(fn)
		if isTestSupport(pk) {
			continue
		}
		for _, b := range fn.Blocks {
			for _, in := range b.Instrs {
				ta, ok := in.(*ssa.TypeAssert)
				if !ok {
					continue
				}
				nTA++
				xi, ok := ta.X.Type().Underlying().(*types.Interface)
				if !ok || xi.NumMethods() != 1 || xi.Method(0).Name() != "Read" {
					continue
				}
				ai, isIface := ta.AssertedType.Underlying().(*types.Interface)
				wider := false
				if isIface {
					for i := 0; i < ai.NumMethods(); i++ {
						if ai.Method(i).Name() != "Read" {
							wider = true
						}
					}
				}
				if wider {
					r.Bad("C17/NO-WIDENING", funcKey(fn)+" asserts io.Reader to "+types.TypeString(ta.AssertedType, nil), p.Pos(ta.Pos()), "a reader is widened beyond Read: re-framing (empty/info frames, small frames) can now change the result")
				}
			}
		}
	}
	r.OK("C17/NO-WIDENING", "module scanned for reader widening", "-", "")
	r.Info("C17/NO-WIDENING scanned %d type assertions", nTA)

	// ---- EMIT-BOUNDED ----
	r.Rule("C17/EMIT-BOUNDED", "in (*MultiplexWriter).WriteMsg every emitted header encodes a payload length bounded by a constant ≤ maxMessageSize (min() with the constant, a slice with a constant bound, or a dominating comparison), and the bytes written after that header are exactly that many", 1)
	wm := anchorFunc(p, r, pkgWire, "MultiplexWriter", "WriteMsg")
	if wm != nil {
		n := 0
		gEB := p.ModGraph()
		for _, unitFn := range gEB.unitFuncs(wm) {
			unitFn := unitFn
			allCalls(unitFn, func(c ssa.CallInstruction) {
				if calleeName(c) != "encoding/binary.Write" {
					return
				}
				n++
				hdr := stripConv(c.Common().Args[2])
				// the header may be built by a single-return helper: look at its result
				// expression and map its parameters back to the call's arguments
				argOf := func(v ssa.Value) ssa.Value { return v }
				if hcall, isCall := hdr.(*ssa.Call); isCall {
					if res := stripConv(helperResult(hcall)); res != ssa.Value(hcall) {
						callee := hcall.Common().StaticCallee()
						argOf = func(v ssa.Value) ssa.Value {
							for i, pp := range callee.Params {
								if ssa.Value(pp) == stripConv(v) && i < len(hcall.Common().Args) {
									return hcall.Common().Args[i]
								}
							}
							return v
						}
						hdr = res
					}
				}
				or, ok := hdr.(*ssa.BinOp)
				okHdr := ok && or.Op == token.OR
				var lenPart ssa.Value
				if okHdr {
					// (base+tag)<<24 | uint32(len)
					shl, isShl := or.X.(*ssa.BinOp)
					if isShl && shl.Op == token.SHL {
						if k, isK := constInt(shl.Y); isK && k == 24 {
							lenPart = or.Y
						}
					}
				}
				bounded := false
				why := "header is not (mplexBase+tag)<<24 | uint32(length)"
				if lenPart != nil {
					why = "encoded length is not bounded by a constant ≤ maxMessageSize (a payload ≥ 2^24 spills into the tag byte)"
					core := stripConv(argOf(lenPart))
					// min(len(p), K)
					if call, isCall := core.(*ssa.Call); isCall {
						if bi, isB := call.Common().Value.(*ssa.Builtin); isB && bi.Name() == "min" {
							for _, a := range call.Common().Args {
								if k, isK := constInt(a); isK && k <= maxMsg && k <= 0xFFFFFF {
									bounded = true
								}
							}
						}
					}
					for _, f := range cmpFactsFor(core, c) {
						if k, isK := constInt(f.other); isK && k <= 0xFFFFFF && (f.op == token.LEQ || f.op == token.LSS) {
							bounded = true
						}
					}
					// len(x) of a value whose length has a constant upper bound through
					// helper results and parameters (writeFrame(tag, chunk) with
					// chunk, p = splitAt(p, maxMessageSize))
					if lc, isCall := core.(*ssa.Call); isCall && !bounded {
						if bi, isB := lc.Common().Value.(*ssa.Builtin); isB && bi.Name() == "len" && len(lc.Common().Args) == 1 {
							x := unwrapLocal(lc.Common().Args[0])
							if ub, okUB := gEB.ubLen(x, nil, 0); okUB && ub <= maxMsg && ub <= 0xFFFFFF {
								// the payload written is x itself
								match := false
								allCalls(unitFn, func(w ssa.CallInstruction) {
									if w.Common().IsInvoke() && w.Common().Method.Name() == "Write" && len(w.Common().Args) == 1 && unwrapLocal(w.Common().Args[0]) == x {
										match = true
									}
								})
								if match {
									r.Cond(true, "C17/EMIT-BOUNDED", "WriteMsg header", p.Pos(instrPos(c)), "")
									return
								}
								why = "the payload written after the header is not the slice of exactly the encoded length"
							}
						}
					}
					// payload written next is p[:length]
					if bounded {
						match := false
						allCalls(unitFn, func(w ssa.CallInstruction) {
							if w.Common().IsInvoke() && w.Common().Method.Name() == "Write" && InstrDominates(c, w) {
								if sl, isSl := w.Common().Args[0].(*ssa.Slice); isSl && sl.High != nil && sameCore(sl.High, core) && sl.Low == nil {
									match = true
								} else if sameLen(w.Common().Args[0], core) {
									match = true
								}
							}
						})
						if !match {
							bounded = false
							why = "the payload written after the header is not the slice of exactly the encoded length"
						}
					}
				}
				r.Cond(bounded, "C17/EMIT-BOUNDED", "WriteMsg header", p.Pos(instrPos(c)), why)
			})
		}
		if n == 0 {
			r.Bad("C17/EMIT-BOUNDED", "WriteMsg header", p.Pos(wm.Pos()), "no header write found")
		}
	}
	// chunkSize ≤ maxMessageSize so that our own client can read what our server emits in one frame
	if cs, ok := scopeConstInt(p, pkgSender, "chunkSize"); ok {
		r.Rule("C17/CHUNK-FITS", "sender.chunkSize ≤ rsyncwire.maxMessageSize", 1)
		r.Cond(cs <= maxMsg, "C17/CHUNK-FITS", "sender.chunkSize ≤ maxMessageSize", "-", "data chunks larger than the reader's frame limit")
	}

	checkSwitchOnce(p, r)
	checkFrameAtomic(p, r)
	checkSingleFramer(p, r)
	r.Trust("bufio.Reader.Read calls the underlying reader with its whole buffer or with a caller slice at least that large (standard library behaviour)")
	r.Uncovered("equality of results across re-framings as an end-to-end fact")
}

func isStoreOfReader(in ssa.Instruction, f *types.Var) bool {
	st, ok := in.(*ssa.Store)
	if !ok {
		return false
	}
	_, g := fieldOfAddr(st.Addr)
	return g == f
}

// sameLen: v is a value whose length is the given core (v = x[:core]).
func sameLen(v ssa.Value, core ssa.Value) bool {
	sl, ok := v.(*ssa.Slice)
	return ok && sl.High != nil && sameCore(sl.High, core)
}

func checkMuxReadTable(p *Prog, r *Report) {
	rule := "C17/LENGTH-GATE"
	fn := anchorFunc(p, r, pkgWire, "MultiplexReader", "Read")
	rm := p.Func(pkgWire, "MultiplexReader", "ReadMsg")
	if fn == nil || rm == nil {
		return
	}
	tagVals := map[int64]string{}
	for _, n := range []string{"MsgData", "MsgInfo", "MsgError"} {
		if v, ok := scopeConstInt(p, pkgWire, n); ok {
			tagVals[v] = n
		}
	}
	isRM := func(v ssa.Value, idx int) bool {
		c, i := extractOf(v)
		return c != nil && i == idx && c.Common().StaticCallee() == rm
	}
	var pe *PathEnum
	atom := func(cond ssa.Value) (string, bool, bool) {
		bo, ok := cond.(*ssa.BinOp)
		if !ok {
			return "", false, false
		}
		if (bo.Op == token.NEQ || bo.Op == token.EQL) && isRM(pe.C(bo.X), 2) && isNilConst(bo.Y) {
			return "E", bo.Op == token.EQL, true
		}
		if (bo.Op == token.EQL || bo.Op == token.NEQ) && isRM(pe.C(bo.X), 0) {
			if k, isK := constInt(bo.Y); isK {
				if n, ok := tagVals[k]; ok {
					return n, bo.Op == token.NEQ, true
				}
			}
		}
		if bo.Op == token.LSS {
			return "SHORT", false, true
		}
		return "", false, false
	}
	pe = &PathEnum{Atom: atom, BackEdge: "loop", Excl: [][2]string{{"MsgData", "MsgInfo"}, {"MsgData", "MsgError"}, {"MsgInfo", "MsgError"}},
		Inline: func(h *ssa.Function) bool { return h != rm }, // a tag-dispatch helper split out of Read
		Event: func(in ssa.Instruction) string {
			if c, ok := in.(ssa.CallInstruction); ok {
				if bi, ok := c.Common().Value.(*ssa.Builtin); ok && bi.Name() == "copy" {
					return "copy"
				}
			}
			return ""
		},
		Outcome: func(last ssa.Instruction, ev []string) string {
			ret, ok := last.(*ssa.Return)
			if !ok {
				return "panic"
			}
			rr := retResults(ret)
			if !isNilConst(rr[1]) {
				return "error"
			}
			for _, e := range ev {
				if e == "copy" {
					return "copy"
				}
			}
			if k, isK := constInt(rr[0]); isK && k == 0 {
				return "zero-nil"
			}
			return "?"
		}}
	pe.Run(fn)
	spec := func(ask func(string) bool) string {
		if ask("E") {
			return "error"
		}
		if ask("MsgError") {
			return "error"
		}
		if ask("MsgInfo") {
			return "zero-nil"
		}
		if !ask("MsgData") {
			return "error"
		}
		if ask("SHORT") {
			return "panic-or-error"
		}
		return "copy"
	}
	CheckTable(p, r, rule, "MultiplexReader.Read", pe, spec, func(got, want string) bool {
		return want == "panic-or-error" && (got == "panic" || got == "error")
	})
}

func checkSwitchOnce(p *Prog, r *Report) {
	rule := "C17/SWITCH-ONCE"
	r.Rule(rule, "server: Conn.Writer is switched to the MultiplexWriter exactly once, after the seed write and before the role dispatch; client: Conn.Reader is switched to the buffered demultiplexer exactly once, after the seed read and before any transfer call", 2)
	writerF := p.Field(pkgWire, "Conn", "Writer")
	readerF := p.Field(pkgWire, "Conn", "Reader")
	hc := anchorFunc(p, r, pkgRsyncd, "Server", "handleConn")
	if hc != nil && writerF != nil {
		var stores []*ssa.Store
		for _, b := range hc.Blocks {
			for _, in := range b.Instrs {
				if st, ok := in.(*ssa.Store); ok {
					if base, f := fieldOfAddr(st.Addr); f == writerF {
						if _, fresh := base.(*ssa.Alloc); fresh && isLiteralInit(st) {
							continue
						}
						stores = append(stores, st)
					}
				}
			}
		}
		ok := len(stores) == 1
		why := "expected exactly one reassignment of c.Writer"
		if ok {
			st := stores[0]
			var seedW ssa.Instruction
			allCalls(hc, func(c ssa.CallInstruction) {
				if calleeName(c) == "(*"+pkgWire+".Conn).WriteInt32" {
					if _, isK := constInt(c.Common().Args[1]); !isK && InstrDominates(c, st) {
						seedW = c
					}
				}
			})
			if seedW == nil {
				ok, why = false, "no seed write dominates the switch"
			}
			allCalls(hc, func(c ssa.CallInstruction) {
				if sc := c.Common().StaticCallee(); sc != nil && (sc.Name() == "handleConnSender" || sc.Name() == "handleConnReceiver") && !InstrDominates(st, c) {
					ok, why = false, "role dispatch not dominated by the switch to multiplexed output"
				}
			})
			// stored value wraps a MultiplexWriter
			if !wrapsType(st.Val, p.Obj(pkgWire, "MultiplexWriter")) {
				ok, why = false, "c.Writer is not set to (a counter around) the MultiplexWriter"
			}
		}
		r.Cond(ok, rule, "handleConn switches output once", p.Pos(hc.Pos()), why)
	}
	cr := anchorFunc(p, r, pkgMaincmd, "", "ClientRun")
	if cr != nil && readerF != nil {
		var stores []*ssa.Store
		for _, b := range cr.Blocks {
			for _, in := range b.Instrs {
				if st, ok := in.(*ssa.Store); ok {
					if _, f := fieldOfAddr(st.Addr); f == readerF && !isLiteralInit(st) {
						stores = append(stores, st)
					}
				}
			}
		}
		ok := len(stores) == 1
		why := "expected exactly one reassignment of c.Reader"
		if ok {
			st := stores[0]
			seedR := false
			allCalls(cr, func(c ssa.CallInstruction) {
				if calleeName(c) == "(*"+pkgWire+".Conn).ReadInt32" && InstrDominates(c, st) {
					seedR = true
				}
			})
			if !seedR {
				ok, why = false, "no seed read dominates the switch"
			}
			allCalls(cr, func(c ssa.CallInstruction) {
				if sc := c.Common().StaticCallee(); sc != nil && (pkgPathOfFunc(sc) == pkgSender || pkgPathOfFunc(sc) == pkgReceiver) && sc.Signature.Recv() != nil && !InstrDominates(st, c) {
					ok, why = false, "transfer call "+sc.Name()+" not dominated by the switch to demultiplexed input"
				}
			})
			if !wrapsType(st.Val, p.Obj(pkgWire, "CountingReader")) {
				ok, why = false, "c.Reader is not set to the counting reader around the demultiplexer"
			}
		}
		r.Cond(ok, rule, "ClientRun switches input once", p.Pos(cr.Pos()), why)
	}
}

// isLiteralInit: store into a field of a fresh allocation within the same
// block as the allocation (composite literal initialisation).
func isLiteralInit(st *ssa.Store) bool {
	base, _ := fieldOfAddr(st.Addr)
	a, ok := base.(*ssa.Alloc)
	return ok && a.Block() == st.Block()
}

// wrapsType: v (after interface boxing) is a pointer to the named type, or a
// struct literal one of whose fields holds one.
func wrapsType(v ssa.Value, obj types.Object) bool {
	if obj == nil {
		return false
	}
	v = stripConv(v)
	if pt, ok := v.Type().(*types.Pointer); ok && types.Identical(pt.Elem(), obj.Type()) {
		return true
	}
	if a, ok := v.(*ssa.Alloc); ok {
		for _, ref := range *a.Referrers() {
			if fa, ok := ref.(*ssa.FieldAddr); ok {
				for _, r2 := range *fa.Referrers() {
					if st, ok := r2.(*ssa.Store); ok && wrapsTypeShallow(st.Val, obj) {
						return true
					}
				}
			}
		}
	}
	return false
}

func wrapsTypeShallow(v ssa.Value, obj types.Object) bool {
	v = stripConv(v)
	pt, ok := v.Type().(*types.Pointer)
	return ok && types.Identical(pt.Elem(), obj.Type())
}

// ---------------------------------------------------------------------------
// constant upper bounds of integers and slice lengths, through helper results
// and parameters (no solver: constants, min(), len(), slicing)

type ubCtx struct {
	m     map[*ssa.Parameter]ssa.Value
	outer *ubCtx
}

func (g *ModGraph) ubParam(prm *ssa.Parameter, ctx *ubCtx, depth int, eval func(ssa.Value, *ubCtx, int) (int64, bool)) (int64, bool) {
	if ctx != nil {
		if a, ok := ctx.m[prm]; ok {
			return eval(a, ctx.outer, depth+1)
		}
	}
	fn := prm.Parent()
	idx := -1
	for i, pp := range fn.Params {
		if pp == prm {
			idx = i
		}
	}
	best, n := int64(0), 0
	for _, e := range g.In[fn] {
		if isTestSupport(pkgPathOfFunc(e.From)) {
			continue
		}
		cs, isCS := e.Site.(ssa.CallInstruction)
		if !isCS || e.Escape || cs.Common().IsInvoke() || cs.Common().StaticCallee() != fn || idx < 0 || idx >= len(cs.Common().Args) {
			return 0, false
		}
		ub, ok := eval(cs.Common().Args[idx], nil, depth+1)
		if !ok {
			return 0, false
		}
		best = max(best, ub)
		n++
	}
	return best, n > 0
}

func (g *ModGraph) ubInt(v ssa.Value, ctx *ubCtx, depth int) (int64, bool) {
	if depth > 6 {
		return 0, false
	}
	v = stripConv(unwrapLocal(v))
	if k, ok := constInt(v); ok {
		return k, true
	}
	switch x := v.(type) {
	case *ssa.Call:
		if bi, ok := x.Common().Value.(*ssa.Builtin); ok {
			switch bi.Name() {
			case "min":
				best, known := int64(0), false
				for _, a := range x.Common().Args {
					if ub, ok := g.ubInt(a, ctx, depth+1); ok && (!known || ub < best) {
						best, known = ub, true
					}
				}
				return best, known
			case "len":
				return g.ubLen(x.Common().Args[0], ctx, depth+1)
			}
		}
	case *ssa.Parameter:
		return g.ubParam(x, ctx, depth, g.ubInt)
	}
	return 0, false
}

func (g *ModGraph) ubLen(v ssa.Value, ctx *ubCtx, depth int) (int64, bool) {
	if depth > 6 {
		return 0, false
	}
	v = unwrapLocal(v)
	switch x := v.(type) {
	case *ssa.Slice:
		if x.High != nil {
			return g.ubInt(x.High, ctx, depth+1)
		}
		return g.ubLen(x.X, ctx, depth+1)
	case *ssa.Parameter:
		return g.ubParam(x, ctx, depth, g.ubLen)
	case *ssa.Extract:
		call, ok := x.Tuple.(*ssa.Call)
		if !ok {
			return 0, false
		}
		return g.ubResult(call, x.Index, ctx, depth)
	case *ssa.Call:
		return g.ubResult(x, 0, ctx, depth)
	}
	return 0, false
}

// ubResult: the bound of the idx-th result of a direct call to a module
// function, evaluated in the callee with its parameters bound to the call's
// arguments.
func (g *ModGraph) ubResult(call *ssa.Call, idx int, ctx *ubCtx, depth int) (int64, bool) {
	callee := call.Common().StaticCallee()
	if callee == nil || callee.Blocks == nil || !isModFunc(callee) {
		return 0, false
	}
	inner := &ubCtx{m: map[*ssa.Parameter]ssa.Value{}, outer: ctx}
	for i, pp := range callee.Params {
		if i < len(call.Common().Args) {
			inner.m[pp] = call.Common().Args[i]
		}
	}
	best, n := int64(0), 0
	for _, b := range callee.Blocks {
		ret, ok := lastInstr(b).(*ssa.Return)
		if !ok {
			continue
		}
		res := retResults(ret)
		if idx >= len(res) {
			return 0, false
		}
		ub, ok := g.ubLen(res[idx], inner, depth+1)
		if !ok {
			return 0, false
		}
		best = max(best, ub)
		n++
	}
	return best, n > 0
}
