package repro_test

import (
	"bytes"
	"errors"
	"io"
	"os"
	"testing"
	"time"

	"github.com/gokrazy/rsync/internal/progress"
	"github.com/gokrazy/rsync/internal/receiver"
	"github.com/gokrazy/rsync/internal/rsyncopts"
	"github.com/gokrazy/rsync/internal/rsyncostest"
	"github.com/gokrazy/rsync/internal/rsyncwire"
)

type failingWriter struct{ n int }

func (w *failingWriter) Write(p []byte) (int, error) {
	w.n++
	if w.n > 2 {
		return 0, errors.New("outbound direction broke")
	}
	return len(p), nil
}

// F25 (known finding, C04): when a session ends with an error because the
// generator failed while the receiver goroutine is in the middle of a file,
// Do returns, the caller closes DestRoot (as ClientRun and the daemon do with
// a defer), and the receiver goroutine's deferred Cleanup — which runs once the
// connection is closed — can no longer remove the temporary file.
func TestF25TempFileRemovedAfterErrorReturn(t *testing.T) {
	dest := t.TempDir()
	root, err := os.OpenRoot(dest)
	if err != nil {
		t.Fatal(err)
	}
	pr, pw := io.Pipe()
	osenv := rsyncostest.New(t)
	rt := &receiver.Transfer{
		Logger: osenv.Logger(),
		Opts: &receiver.TransferOpts{
			InfoGTE:  func(rsyncopts.InfoLevel, uint16) bool { return false },
			DebugGTE: func(rsyncopts.DebugLevel, uint16) bool { return false },
		},
		Dest:     dest,
		DestRoot: root,
		Env:      osenv,
		Conn:     &rsyncwire.Conn{Reader: pr, Writer: &failingWriter{}},
		Progress: progress.NewPrinter(io.Discard, time.Now),
	}
	le := func(v int32) []byte { return []byte{byte(v), byte(v >> 8), byte(v >> 16), byte(v >> 24)} }
	var fileList []*receiver.File
	for _, n := range []string{"a", "b", "c", "d"} {
		fileList = append(fileList, &receiver.File{Name: n, Length: 100, ModTime: time.Now(), Mode: 0100644})
	}
	go func() {
		// the sender starts file 0: index, empty sum head, then half of a literal chunk … and stalls
		pw.Write(le(0))
		pw.Write(bytes.Repeat(le(0), 4))
		pw.Write(le(100))
		pw.Write(make([]byte, 50))
	}()
	_, err = rt.Do(rt.Conn, fileList, true)
	if err == nil {
		t.Fatal("expected the session to fail (the outbound direction is broken)")
	}
	root.Close() // what the callers' deferred DestRoot.Close() does when Do has returned
	time.Sleep(100 * time.Millisecond)
	pw.Close() // the connection is closed: the receiver goroutine unblocks and cleans up
	time.Sleep(300 * time.Millisecond)
	ents, _ := os.ReadDir(dest)
	for _, e := range ents {
		t.Errorf("left behind in the destination after an error return and connection close: %s", e.Name())
	}
}
