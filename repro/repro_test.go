// Package repro holds one-off reproductions of the defects the static rules
// exposed on the pinned tree (DESIGN.md section 4). It is a development aid:
// copy this directory into a scratch worktree of gokrazy/rsync as ./repro and
// run `go test -count=1 ./repro/ -run <name>`. Never part of a check.
package repro_test

import (
	"log"
	"os"
	"path/filepath"
	"sort"
	"testing"

	"github.com/gokrazy/rsync/internal/rsynctest"
)

func TestMain(m *testing.M) {
	if err := rsynctest.CommandMain(m); err != nil {
		log.Fatal(err)
	}
}

func write(t *testing.T, fn, content string) {
	t.Helper()
	if err := os.MkdirAll(filepath.Dir(fn), 0755); err != nil {
		t.Fatal(err)
	}
	if err := os.WriteFile(fn, []byte(content), 0644); err != nil {
		t.Fatal(err)
	}
}

func ls(t *testing.T, dir string) []string {
	t.Helper()
	var out []string
	filepath.Walk(dir, func(p string, info os.FileInfo, err error) error {
		if err == nil && p != dir {
			rel, _ := filepath.Rel(dir, p)
			out = append(out, rel)
		}
		return nil
	})
	sort.Strings(out)
	return out
}

func has(l []string, s string) bool {
	for _, x := range l {
		if x == s {
			return true
		}
	}
	return false
}

// F1: --delete must remove every extraneous file, not only the first.
func TestF1DeleteAllExtraneous(t *testing.T) {
	tmp := t.TempDir()
	src, dst := filepath.Join(tmp, "src"), filepath.Join(tmp, "dst")
	write(t, filepath.Join(src, "keep"), "k")
	write(t, filepath.Join(dst, "keep"), "k")
	for _, n := range []string{"x1", "x2", "x3"} {
		write(t, filepath.Join(dst, n), n)
	}
	srv := rsynctest.New(t, rsynctest.InteropModule(src))
	rsynctest.Run(t, "gokr-rsync", "-a", "--delete", "rsync://localhost:"+srv.Port+"/interop/", dst)
	got := ls(t, dst)
	for _, n := range []string{"x1", "x2", "x3"} {
		if has(got, n) {
			t.Errorf("extraneous %s survived --delete; dst=%v", n, got)
		}
	}
}

// F6: -n must not create symlinks nor unlink entries.
func TestF6DryRunChangesNothing(t *testing.T) {
	tmp := t.TempDir()
	src, dst := filepath.Join(tmp, "src"), filepath.Join(tmp, "dst")
	write(t, filepath.Join(src, "file"), "data")
	if err := os.Symlink("file", filepath.Join(src, "lnk")); err != nil {
		t.Fatal(err)
	}
	write(t, filepath.Join(src, "reg"), "regular")
	os.MkdirAll(dst, 0755)
	// a symlink stands where a regular file is to be received
	if err := os.Symlink("nowhere", filepath.Join(dst, "reg")); err != nil {
		t.Fatal(err)
	}
	before := ls(t, dst)
	srv := rsynctest.New(t, rsynctest.InteropModule(src))
	rsynctest.Run(t, "gokr-rsync", "-a", "-n", "rsync://localhost:"+srv.Port+"/interop/", dst)
	after := ls(t, dst)
	if len(before) != len(after) || !has(after, "reg") || has(after, "lnk") {
		t.Errorf("dry run changed the destination: before=%v after=%v", before, after)
	}
}
