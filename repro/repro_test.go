// Package repro holds one-off reproductions of the defects the static rules
// exposed on the pinned tree (DESIGN.md section 4). It is a development aid:
// copy this directory into a scratch worktree of gokrazy/rsync as ./repro and
// run `go test -count=1 ./repro/ -run <name>`. Never part of a check.
package repro_test

import (
	"bytes"
	"fmt"
	"io"
	"log"
	"net"
	"os"
	"path/filepath"
	"sort"
	"syscall"
	"testing"
	"time"

	"github.com/gokrazy/rsync/internal/rsynctest"
	"github.com/gokrazy/rsync/internal/rsyncwire"
)

func TestMain(m *testing.M) {
	if err := rsynctest.CommandMain(m); err != nil {
		log.Fatal(err)
	}
}

func write(t *testing.T, fn, content string) {
	t.Helper()
	if err := os.MkdirAll(filepath.Dir(fn), 0755); err != nil {
		t.Fatal(err)
	}
	if err := os.WriteFile(fn, []byte(content), 0644); err != nil {
		t.Fatal(err)
	}
}

func ls(t *testing.T, dir string) []string {
	t.Helper()
	var out []string
	filepath.Walk(dir, func(p string, info os.FileInfo, err error) error {
		if err == nil && p != dir {
			rel, _ := filepath.Rel(dir, p)
			out = append(out, rel)
		}
		return nil
	})
	sort.Strings(out)
	return out
}

func has(l []string, s string) bool {
	for _, x := range l {
		if x == s {
			return true
		}
	}
	return false
}

// F1: --delete must remove every extraneous file, not only the first.
func TestF1DeleteAllExtraneous(t *testing.T) {
	tmp := t.TempDir()
	src, dst := filepath.Join(tmp, "src"), filepath.Join(tmp, "dst")
	write(t, filepath.Join(src, "keep"), "k")
	write(t, filepath.Join(dst, "keep"), "k")
	for _, n := range []string{"x1", "x2", "x3"} {
		write(t, filepath.Join(dst, n), n)
	}
	srv := rsynctest.New(t, rsynctest.InteropModule(src))
	rsynctest.Run(t, "gokr-rsync", "--gokr.dont_restrict", "-a", "--delete", "rsync://localhost:"+srv.Port+"/interop/", dst)
	got := ls(t, dst)
	for _, n := range []string{"x1", "x2", "x3"} {
		if has(got, n) {
			t.Errorf("extraneous %s survived --delete; dst=%v", n, got)
		}
	}
}

// F6: -n must not create symlinks nor unlink entries.
func TestF6DryRunChangesNothing(t *testing.T) {
	tmp := t.TempDir()
	src, dst := filepath.Join(tmp, "src"), filepath.Join(tmp, "dst")
	write(t, filepath.Join(src, "file"), "data")
	if err := os.Symlink("file", filepath.Join(src, "lnk")); err != nil {
		t.Fatal(err)
	}
	write(t, filepath.Join(src, "reg"), "regular")
	os.MkdirAll(dst, 0755)
	// a symlink stands where a regular file is to be received
	if err := os.Symlink("nowhere", filepath.Join(dst, "reg")); err != nil {
		t.Fatal(err)
	}
	before := ls(t, dst)
	srv := rsynctest.New(t, rsynctest.InteropModule(src))
	rsynctest.Run(t, "gokr-rsync", "--gokr.dont_restrict", "-a", "-n", "rsync://localhost:"+srv.Port+"/interop/", dst)
	after := ls(t, dst)
	if len(before) != len(after) || !has(after, "reg") || has(after, "lnk") {
		t.Errorf("dry run changed the destination: before=%v after=%v", before, after)
	}
}

func pull(t *testing.T, src, dst string, flags ...string) {
	t.Helper()
	srv := rsynctest.New(t, rsynctest.InteropModule(src))
	args := append([]string{"gokr-rsync", "--gokr.dont_restrict", "-a"}, flags...)
	args = append(args, "rsync://localhost:"+srv.Port+"/interop/", dst)
	rsynctest.Run(t, args...)
}

// F2: excluding a file must not drop its later siblings.
func TestF2ExcludeKeepsSiblings(t *testing.T) {
	tmp := t.TempDir()
	src, dst := filepath.Join(tmp, "src"), filepath.Join(tmp, "dst")
	for _, n := range []string{"a", "b", "c", "d"} {
		write(t, filepath.Join(src, n), n)
	}
	pull(t, src, dst, "--exclude=b")
	got := ls(t, dst)
	if !has(got, "a") || has(got, "b") || !has(got, "c") || !has(got, "d") {
		t.Errorf("--exclude=b: got %v, want [a c d]", got)
	}
}

// F3: an include rule that matches first keeps the entry.
func TestF3IncludeBeforeExclude(t *testing.T) {
	tmp := t.TempDir()
	src, dst := filepath.Join(tmp, "src"), filepath.Join(tmp, "dst")
	write(t, filepath.Join(src, "a"), "a")
	write(t, filepath.Join(src, "z"), "z")
	pull(t, src, dst, "--include=z", "--exclude=a")
	got := ls(t, dst)
	if !has(got, "z") || has(got, "a") {
		t.Errorf("--include=z --exclude=a: got %v, want [z]", got)
	}
}

// F4: a wildcard rule must produce an error, not kill the process.
// (On the pinned tree this test crashes the whole test binary.)
func TestF4WildcardIsAnError(t *testing.T) {
	tmp := t.TempDir()
	src, dst := filepath.Join(tmp, "src"), filepath.Join(tmp, "dst")
	write(t, filepath.Join(src, "a.o"), "a")
	srv := rsynctest.New(t, rsynctest.InteropModule(src))
	out, err := rsynctest.CombinedOutput("gokr-rsync", "--gokr.dont_restrict", "-a", "--exclude=*.o", "rsync://localhost:"+srv.Port+"/interop/", dst)
	if err == nil {
		t.Errorf("wildcard rule silently accepted; output: %s", out)
	}
}

// F5: a trailing-slash rule applies to directories only; "!" is rejected.
func TestF5DirectoryOnlyRule(t *testing.T) {
	tmp := t.TempDir()
	src, dst := filepath.Join(tmp, "src"), filepath.Join(tmp, "dst")
	write(t, filepath.Join(src, "sub", "x", "f"), "dir x")
	write(t, filepath.Join(src, "x"), "file x")
	pull(t, src, dst, "--exclude=x/")
	got := ls(t, dst)
	if !has(got, "x") || has(got, "sub/x") {
		t.Errorf("--exclude=x/: got %v, want file x kept and directory sub/x left out", got)
	}
	srv := rsynctest.New(t, rsynctest.InteropModule(src))
	if out, err := rsynctest.CombinedOutput("gokr-rsync", "--gokr.dont_restrict", "-a", "--filter=!", "rsync://localhost:"+srv.Port+"/interop/", filepath.Join(tmp, "dst2")); err == nil {
		t.Errorf("clear-list rule silently accepted; output: %s", out)
	}
}

// F13: the client-as-sender (local copy) must honour --exclude.
func TestF13LocalCopyHonoursExclude(t *testing.T) {
	tmp := t.TempDir()
	src, dst := filepath.Join(tmp, "src"), filepath.Join(tmp, "dst")
	for _, n := range []string{"a", "b", "c"} {
		write(t, filepath.Join(src, n), n)
	}
	rsynctest.Run(t, "gokr-rsync", "--gokr.dont_restrict", "-a", "--exclude=b", src+"/", dst)
	got := ls(t, dst)
	if has(got, "b") || !has(got, "a") || !has(got, "c") {
		t.Errorf("local copy --exclude=b: got %v, want [a c]", got)
	}
}

// F9: an argument line such as --version sent by a peer must not exit the daemon process.
// (On the pinned tree the test binary exits with status 0 in the middle of the test.)
func TestF9PeerArgsCannotExitDaemon(t *testing.T) {
	tmp := t.TempDir()
	write(t, filepath.Join(tmp, "src", "a"), "a")
	srv := rsynctest.New(t, rsynctest.InteropModule(filepath.Join(tmp, "src")))
	for _, arg := range []string{"--version", "--help", "--info=help"} {
		conn, err := net.Dial("tcp", "localhost:"+srv.Port)
		if err != nil {
			t.Fatal(err)
		}
		fmt.Fprintf(conn, "@RSYNCD: 27\ninterop\n--server\n--sender\n%s\n.\ninterop/\n\n", arg)
		io.Copy(io.Discard, conn) // until the daemon closes the session
		conn.Close()
	}
	// the daemon must still serve
	pullOK := filepath.Join(tmp, "dst")
	rsynctest.Run(t, "gokr-rsync", "--gokr.dont_restrict", "-a", "rsync://localhost:"+srv.Port+"/interop/", pullOK)
	if !has(ls(t, pullOK), "a") {
		t.Errorf("daemon did not serve after hostile argument lines")
	}
	os.WriteFile(filepath.Join(tmp, "survived"), nil, 0644)
}

// F8: a negative filter-rule length from a client must end the session with an error, not crash the daemon.
func TestF8NegativeLengthsDoNotCrash(t *testing.T) {
	tmp := t.TempDir()
	write(t, filepath.Join(tmp, "src", "a"), "a")
	srv := rsynctest.New(t, rsynctest.InteropModule(filepath.Join(tmp, "src")))
	conn, err := net.Dial("tcp", "localhost:"+srv.Port)
	if err != nil {
		t.Fatal(err)
	}
	fmt.Fprintf(conn, "@RSYNCD: 27\ninterop\n--server\n--sender\n-r\n.\ninterop/\n\n")
	conn.Write([]byte{0xff, 0xff, 0xff, 0xff}) // filter rule length -1
	io.Copy(io.Discard, conn)
	conn.Close()
	// a request for file index 2^31-1 after a valid start
	conn, err = net.Dial("tcp", "localhost:"+srv.Port)
	if err != nil {
		t.Fatal(err)
	}
	fmt.Fprintf(conn, "@RSYNCD: 27\ninterop\n--server\n--sender\n-r\n.\ninterop/\n\n")
	conn.Write([]byte{0, 0, 0, 0})             // empty filter list
	conn.Write([]byte{0xff, 0xff, 0xff, 0x7f}) // file index 2147483647
	conn.Write(make([]byte, 16))               // a sum head, in case it is read
	io.Copy(io.Discard, conn)
	conn.Close()
	dst := filepath.Join(tmp, "dst")
	rsynctest.Run(t, "gokr-rsync", "--gokr.dont_restrict", "-a", "rsync://localhost:"+srv.Port+"/interop/", dst)
	if !has(ls(t, dst), "a") {
		t.Errorf("daemon did not serve after hostile lengths")
	}
}

// F10: every frame a server emits must be well formed: a payload larger than
// 2^24-1 bytes must not corrupt the tag byte.
func TestF10LargeMessageIsWellFormed(t *testing.T) {
	var buf bytes.Buffer
	w := &rsyncwire.MultiplexWriter{Writer: &buf}
	payload := bytes.Repeat([]byte("x"), 17<<20)
	if _, err := w.WriteMsg(rsyncwire.MsgError, payload); err != nil {
		t.Fatal(err)
	}
	r := &rsyncwire.MultiplexReader{Reader: &buf}
	var got int
	for buf.Len() > 0 {
		tag, p, err := r.ReadMsg()
		if err != nil {
			t.Fatalf("emitted stream is not a sequence of valid frames: %v", err)
		}
		if tag != rsyncwire.MsgError {
			t.Fatalf("frame tag = %d, want MsgError", tag)
		}
		got += len(p)
	}
	if got != len(payload) {
		t.Errorf("payload bytes = %d, want %d", got, len(payload))
	}
}

// F7: --devices without --specials (and vice versa) with a fifo in the tree
// must neither desynchronise the stream nor lose the fifo when asked for.
func TestF7DevicesSpecialsAgree(t *testing.T) {
	for _, tc := range []struct {
		flag     string
		wantFifo bool
	}{{"--devices", false}, {"--specials", true}, {"-D", true}} {
		t.Run(tc.flag, func(t *testing.T) {
			tmp := t.TempDir()
			src, dst := filepath.Join(tmp, "src"), filepath.Join(tmp, "dst")
			write(t, filepath.Join(src, "a"), "a")
			if err := syscall.Mkfifo(filepath.Join(src, "fifo"), 0644); err != nil {
				t.Fatal(err)
			}
			write(t, filepath.Join(src, "z"), "z")
			done := make(chan struct{})
			go func() {
				defer close(done)
				// local copy: client is the sender, in-process server receives
				rsynctest.Run(t, "gokr-rsync", "--gokr.dont_restrict", "-rlpt", tc.flag, src+"/", dst)
			}()
			select {
			case <-done:
			case <-time.After(20 * time.Second):
				t.Fatalf("local copy with %s hangs (stream desynchronised)", tc.flag)
			}
			got := ls(t, dst)
			if !has(got, "a") || !has(got, "z") || has(got, "fifo") != tc.wantFifo {
				t.Errorf("%s: got %v, want a, z and fifo=%v", tc.flag, got, tc.wantFifo)
			}
			// pull from a daemon with the same flags
			dst2 := filepath.Join(tmp, "dst2")
			srv := rsynctest.New(t, rsynctest.InteropModule(src))
			rsynctest.Run(t, "gokr-rsync", "--gokr.dont_restrict", "-rlpt", tc.flag, "rsync://localhost:"+srv.Port+"/interop/", dst2)
			got = ls(t, dst2)
			if !has(got, "a") || !has(got, "z") || has(got, "fifo") != tc.wantFifo {
				t.Errorf("pull %s: got %v, want a, z and fifo=%v", tc.flag, got, tc.wantFifo)
			}
		})
	}
}

// F15: --delete must reach a daemon when pushing.
func TestF15PushDeleteReachesDaemon(t *testing.T) {
	tmp := t.TempDir()
	src, dst := filepath.Join(tmp, "src"), filepath.Join(tmp, "dst")
	write(t, filepath.Join(src, "keep"), "k")
	write(t, filepath.Join(dst, "keep"), "k")
	write(t, filepath.Join(dst, "extra"), "x")
	srv := rsynctest.New(t, rsynctest.WritableInteropModule(dst))
	rsynctest.Run(t, "gokr-rsync", "--gokr.dont_restrict", "-a", "--delete", src+"/", "rsync://localhost:"+srv.Port+"/interop/")
	if got := ls(t, dst); has(got, "extra") || !has(got, "keep") {
		t.Errorf("push --delete: got %v, want [keep]", got)
	}
}

// F12: special files must get the source's permission bits under -p (umask must not leak in).
func TestF12SpecialFilePerms(t *testing.T) {
	tmp := t.TempDir()
	src, dst := filepath.Join(tmp, "src"), filepath.Join(tmp, "dst")
	os.MkdirAll(src, 0755)
	old := syscall.Umask(0)
	if err := syscall.Mkfifo(filepath.Join(src, "fifo"), 0666); err != nil {
		t.Fatal(err)
	}
	syscall.Umask(0022)
	defer syscall.Umask(old)
	pull(t, src, dst)
	st, err := os.Lstat(filepath.Join(dst, "fifo"))
	if err != nil {
		t.Fatal(err)
	}
	if got := st.Mode().Perm(); got != 0666 {
		t.Errorf("fifo permissions = %o, want 666", got)
	}
}

// F16: a daemon upload whose destination subdirectory is a symlink leaving the
// module (written with a trailing slash) must be refused, not followed.
// (With the pinned go1.25.0 toolchain os.Root follows "name/" for a symlink.)
func TestF16UploadSubdirSymlinkEscape(t *testing.T) {
	tmp := t.TempDir()
	src, mod, outside := filepath.Join(tmp, "src"), filepath.Join(tmp, "mod"), filepath.Join(tmp, "outside")
	write(t, filepath.Join(src, "planted"), "p")
	os.MkdirAll(mod, 0755)
	os.MkdirAll(outside, 0755)
	if err := os.Symlink(outside, filepath.Join(mod, "pub")); err != nil {
		t.Fatal(err)
	}
	srv := rsynctest.New(t, rsynctest.WritableInteropModule(mod))
	out, err := rsynctest.CombinedOutput("gokr-rsync", "--gokr.dont_restrict", "-a", src+"/", "rsync://localhost:"+srv.Port+"/interop/pub/")
	if got := ls(t, outside); len(got) != 0 {
		t.Errorf("upload escaped the module through the symlinked subdirectory: outside now holds %v (err=%v)\n%s", got, err, out)
	}
}

// F18: a receiver that sends block checksums for an empty file (or a zero block
// length) must not crash the sending daemon (index out of range in hashSearch).
func TestF18ChecksumsForEmptyFile(t *testing.T) {
	tmp := t.TempDir()
	write(t, filepath.Join(tmp, "src", "e"), "")
	write(t, filepath.Join(tmp, "src", "n"), "not empty")
	srv := rsynctest.New(t, rsynctest.InteropModule(filepath.Join(tmp, "src")))
	le := func(v int32) []byte { return []byte{byte(v), byte(v >> 8), byte(v >> 16), byte(v >> 24)} }
	// block length 0 for a non-empty file (index 2 = "n")
	conn0, err := net.Dial("tcp", "localhost:"+srv.Port)
	if err != nil {
		t.Fatal(err)
	}
	fmt.Fprintf(conn0, "@RSYNCD: 27\ninterop\n--server\n--sender\n-r\n.\ninterop/\n\n")
	for _, v := range []int32{0, 2, 1, 0, 2, 0, 0x1234} {
		conn0.Write(le(v))
	}
	conn0.Write([]byte{0xab, 0xcd})
	conn0.SetDeadline(time.Now().Add(3 * time.Second))
	io.Copy(io.Discard, conn0)
	conn0.Close()
	conn, err := net.Dial("tcp", "localhost:"+srv.Port)
	if err != nil {
		t.Fatal(err)
	}
	fmt.Fprintf(conn, "@RSYNCD: 27\ninterop\n--server\n--sender\n-r\n.\ninterop/\n\n")
	conn.Write(le(0))   // empty filter list
	conn.Write(le(1))   // request file index 1 ("e"; index 0 is ".")
	conn.Write(le(1))   // sum head: one block ...
	conn.Write(le(700)) // ... of 700 bytes
	conn.Write(le(2))   // strong sum length 2
	conn.Write(le(0))   // remainder
	conn.Write(le(0x1234))
	conn.Write([]byte{0xab, 0xcd})
	conn.SetDeadline(time.Now().Add(3 * time.Second))
	io.Copy(io.Discard, conn)
	conn.Close()
	dst := filepath.Join(tmp, "dst")
	rsynctest.Run(t, "gokr-rsync", "--gokr.dont_restrict", "-a", "rsync://localhost:"+srv.Port+"/interop/", dst)
	if !has(ls(t, dst), "e") {
		t.Errorf("daemon did not serve after checksums for an empty file")
	}
}

// F17: without -p an existing, up-to-date destination file keeps its own permissions.
func TestF17ExistingPermsKeptWithoutP(t *testing.T) {
	tmp := t.TempDir()
	src, dst := filepath.Join(tmp, "src"), filepath.Join(tmp, "dst")
	write(t, filepath.Join(src, "f"), "same")
	write(t, filepath.Join(dst, "f"), "same")
	mt := time.Unix(1257894000, 0)
	os.Chtimes(filepath.Join(src, "f"), mt, mt)
	os.Chtimes(filepath.Join(dst, "f"), mt, mt)
	os.Chmod(filepath.Join(src, "f"), 0644)
	os.Chmod(filepath.Join(dst, "f"), 0600)
	srv := rsynctest.New(t, rsynctest.InteropModule(src))
	rsynctest.Run(t, "gokr-rsync", "--gokr.dont_restrict", "-rt", "rsync://localhost:"+srv.Port+"/interop/", dst)
	st, err := os.Stat(filepath.Join(dst, "f"))
	if err != nil {
		t.Fatal(err)
	}
	if st.Mode().Perm() != 0600 {
		t.Errorf("without -p the up-to-date destination file was chmodded to %o, want 600", st.Mode().Perm())
	}
}

// F19: a delta transfer whose unmatched tail is larger than the sender's
// default read window, on a file whose size is not a multiple of 1024.
func TestF19DeltaTailLargerThanWindow(t *testing.T) {
	for _, size := range []int{1<<20 + 1, 3<<20 + 777} {
		tmp := t.TempDir()
		src, dst := filepath.Join(tmp, "src"), filepath.Join(tmp, "dst")
		data := make([]byte, size)
		x := uint32(size)
		for i := range data {
			x = x*1664525 + 1013904223
			data[i] = byte(x >> 24)
		}
		write(t, filepath.Join(src, "f"), string(data))
		write(t, filepath.Join(dst, "f"), string(data[:size*2/3]))
		srv := rsynctest.New(t, rsynctest.InteropModule(src))
		rsynctest.Run(t, "gokr-rsync", "--gokr.dont_restrict", "-rI", "rsync://localhost:"+srv.Port+"/interop/", dst)
		got, _ := os.ReadFile(filepath.Join(dst, "f"))
		if !bytes.Equal(got, data) {
			t.Errorf("size %d: content differs (got %d bytes)", size, len(got))
		}
	}
}
