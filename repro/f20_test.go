package repro_test

import (
	"bytes"
	"io"
	"os"
	"path/filepath"
	"syscall"
	"testing"
	"time"

	"github.com/gokrazy/rsync/internal/progress"
	"github.com/gokrazy/rsync/internal/receiver"
	"github.com/gokrazy/rsync/internal/rsyncopts"
	"github.com/gokrazy/rsync/internal/rsyncostest"
	"github.com/gokrazy/rsync/internal/rsynctest"
	"github.com/gokrazy/rsync/internal/rsyncwire"
)

// F20: a symlink (or other non-directory) standing where the file list has a
// regular file must stay in place until the received file is renamed over it.
// The generator alone (no file data received yet = a session that is cut off
// before the data arrives) must not make the path disappear.
func TestF20SymlinkReplacedAtomically(t *testing.T) {
	dest := t.TempDir()
	write(t, filepath.Join(dest, "target"), "old content")
	if err := os.Symlink("target", filepath.Join(dest, "foo")); err != nil {
		t.Fatal(err)
	}
	root, err := os.OpenRoot(dest)
	if err != nil {
		t.Fatal(err)
	}
	defer root.Close()
	osenv := rsyncostest.New(t)
	rt := &receiver.Transfer{
		Logger: osenv.Logger(),
		Opts: &receiver.TransferOpts{
			PreserveTimes: true,
			PreservePerms: true,
			InfoGTE:       func(rsyncopts.InfoLevel, uint16) bool { return false },
			DebugGTE:      func(rsyncopts.DebugLevel, uint16) bool { return false },
		},
		Dest:     dest,
		DestRoot: root,
		Env:      osenv,
		Conn:     &rsyncwire.Conn{Reader: bytes.NewReader(nil), Writer: io.Discard},
		Progress: progress.NewPrinter(io.Discard, time.Now),
	}
	fileList := []*receiver.File{{Name: "foo", Length: 3, ModTime: time.Now(), Mode: 0100644}}
	if err := rt.GenerateFiles(fileList); err != nil {
		t.Fatal(err)
	}
	// the connection is lost here: nothing was received for foo
	if _, err := os.Lstat(filepath.Join(dest, "foo")); err != nil {
		t.Errorf("foo held a symlink before the session, nothing was received for it, and now: %v", err)
	}
}

// … and the complete session still replaces the symlink by the file.
func TestF20SymlinkReplacedByFile(t *testing.T) {
	tmp := t.TempDir()
	src, dst := filepath.Join(tmp, "src"), filepath.Join(tmp, "dst")
	write(t, filepath.Join(src, "foo"), "new content")
	write(t, filepath.Join(dst, "target"), "old content")
	if err := os.Symlink("target", filepath.Join(dst, "foo")); err != nil {
		t.Fatal(err)
	}
	if err := os.MkdirAll(filepath.Join(dst, "d"), 0755); err != nil {
		t.Fatal(err)
	}
	write(t, filepath.Join(src, "d"), "a file where the destination has an empty directory")
	write(t, filepath.Join(src, "p"), "a file where the destination has a fifo")
	if err := syscall.Mkfifo(filepath.Join(dst, "p"), 0644); err != nil {
		t.Fatal(err)
	}
	srv := rsynctest.New(t, rsynctest.InteropModule(src))
	rsynctest.Run(t, "gokr-rsync", "--gokr.dont_restrict", "-a", "rsync://localhost:"+srv.Port+"/interop/", dst)
	for name, want := range map[string]string{"foo": "new content", "target": "old content", "d": "a file where the destination has an empty directory", "p": "a file where the destination has a fifo"} {
		st, err := os.Lstat(filepath.Join(dst, name))
		if err != nil || !st.Mode().IsRegular() {
			t.Errorf("%s: not a regular file after the sync: %v %v", name, st, err)
			continue
		}
		if got, _ := os.ReadFile(filepath.Join(dst, name)); string(got) != want {
			t.Errorf("%s: content %q, want %q", name, got, want)
		}
	}
}
