package repro_test

import (
	"path/filepath"
	"testing"

	"github.com/gokrazy/rsync/internal/rsynctest"
)

// F23: an empty filter rule (-f '') must not end the filter list early on a
// pull: the rules after it have to apply, as they do on a local copy.
func TestF23EmptyFilterRule(t *testing.T) {
	tmp := t.TempDir()
	src := filepath.Join(tmp, "src")
	for _, n := range []string{"a", "b", "old", "z"} {
		write(t, filepath.Join(src, n), n)
	}
	srv := rsynctest.New(t, rsynctest.InteropModule(src))
	local := filepath.Join(tmp, "local")
	rsynctest.Run(t, "gokr-rsync", "--gokr.dont_restrict", "-r", "-f", "", "-f", "- old", src+"/", local)
	pulled := filepath.Join(tmp, "pulled")
	rsynctest.Run(t, "gokr-rsync", "--gokr.dont_restrict", "-r", "-f", "", "-f", "- old", "rsync://localhost:"+srv.Port+"/interop/", pulled)
	l, p := ls(t, local), ls(t, pulled)
	if has(l, "old") || !has(l, "z") {
		t.Errorf("local copy: %v", l)
	}
	if has(p, "old") || !has(p, "z") || len(p) != len(l) {
		t.Errorf("pull: %v, local copy: %v", p, l)
	}
}
