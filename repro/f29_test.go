package repro_test

import (
	"bytes"
	"context"
	"strings"
	"testing"

	"github.com/gokrazy/rsync/rsyncd"
)

// F29 (C19): Accept reports a link-local IPv6 peer with its zone
// ("[fe80::1%eth0]:51234"). checkACL handed the host, zone included, to
// net.ParseIP, which rejects zones: every module with a non-empty ACL answered
// such a client "BUG: invalid remote host", also when the first rule whose
// network contains the address says allow.
func TestF29ZonedLinkLocalPeer(t *testing.T) {
	for _, tc := range []struct {
		acl   []string
		allow bool
	}{
		{[]string{"allow fe80::/10", "deny all"}, true},
		{[]string{"allow all"}, true},
		{[]string{"deny fe80::/10", "allow all"}, false},
		{[]string{"allow 2001:db8::/32", "deny all"}, false},
	} {
		srv, err := rsyncd.NewServer([]rsyncd.Module{{Name: "m", Path: t.TempDir(), ACL: tc.acl}}, rsyncd.DontRestrict())
		if err != nil {
			t.Fatal(err)
		}
		in := strings.NewReader("@RSYNCD: 27\nm\n")
		var out bytes.Buffer
		conn := rsyncd.NewConnection(in, &out, "[fe80::1%eth0]:51234")
		srv.HandleDaemonConn(context.Background(), conn)
		got := out.String()
		granted := strings.Contains(got, "@RSYNCD: OK")
		if granted != tc.allow || strings.Contains(got, "BUG") {
			t.Errorf("acl %q, zoned peer: granted=%v, want %v; server said %q", tc.acl, granted, tc.allow, got)
		}
	}
}
