package repro_test

import (
	"os"
	"path/filepath"
	"testing"

	"github.com/gokrazy/rsync/internal/rsynctest"
)

// F28 (C10, first clause: "with -n the session runs to completion"): the
// source has a directory d with a file in it, the destination has a regular
// file d. A real run replaces the file by a directory and succeeds. A dry run
// does not touch d — and then aborted on the next entry, because Lstat("d/f")
// fails with ENOTDIR, which recvGenerator treated as fatal (only ENOENT meant
// "not there yet").
func TestF28DryRunCompletesWhenParentWouldBeReplaced(t *testing.T) {
	tmp := t.TempDir()
	src, dst := filepath.Join(tmp, "src"), filepath.Join(tmp, "dst")
	write(t, filepath.Join(src, "d", "f"), "content")
	write(t, filepath.Join(src, "z"), "z")
	write(t, filepath.Join(dst, "d"), "a regular file where the source has a directory")
	out, err := rsynctest.CombinedOutput("gokr-rsync", "--gokr.dont_restrict", "-n", "-a", src+"/", dst+"/")
	if err != nil {
		t.Fatalf("dry run did not run to completion: %v\n%s", err, out)
	}
	if st, err := os.Lstat(filepath.Join(dst, "d")); err != nil || !st.Mode().IsRegular() {
		t.Fatalf("dry run changed the destination: %v %v", st, err)
	}
	if _, err := os.Lstat(filepath.Join(dst, "z")); err == nil {
		t.Fatalf("dry run created z")
	}
	// the real run succeeds
	if out, err := rsynctest.CombinedOutput("gokr-rsync", "--gokr.dont_restrict", "-a", src+"/", dst+"/"); err != nil {
		t.Fatalf("real run: %v\n%s", err, out)
	}
	if b, err := os.ReadFile(filepath.Join(dst, "d", "f")); err != nil || string(b) != "content" {
		t.Fatalf("real run result: %q %v", b, err)
	}
}
