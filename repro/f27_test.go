package repro_test

import (
	"path/filepath"
	"strings"
	"testing"

	"github.com/gokrazy/rsync/internal/rsyncopts"
	"github.com/gokrazy/rsync/internal/rsyncos"
	"github.com/gokrazy/rsync/internal/rsynctest"
	"github.com/gokrazy/rsync/internal/sender"
)

// F27 (C13, last sentence): rule syntax the implementation cannot honour has to
// produce an error, never a silently different selection.
//
//   - "-f 'exclude README'" (long rule name), "-f '-! README'" (modifier) and
//     "-f 'README'" (no rule prefix: rsync rejects it) were taken as the literal
//     plain-name exclude pattern "exclude README" / "-! README" / "README": the
//     run exits 0 and selects something else than the user asked for.
//   - "--exclude=/README" (anchored pattern) was compared, slash included,
//     with names that never start with a slash: exits 0, README is transferred.
func TestF27UnsupportedRuleSyntaxIsAnError(t *testing.T) {
	for _, arg := range []string{"exclude README", "-! README", "README", "-/ README", "include README"} {
		osenv := &rsyncos.Env{}
		pc := rsyncopts.NewContext(rsyncopts.NewOptions(osenv))
		err := pc.ParseArguments(osenv, []string{"-r", "-f", arg, "src/", "dst"})
		if err == nil {
			t.Errorf("-f %q accepted; rules: %q", arg, pc.Options.FilterRules())
		}
	}
	for _, arg := range []string{"- README", "+ README", "- sub/", "! "} {
		osenv := &rsyncos.Env{}
		pc := rsyncopts.NewContext(rsyncopts.NewOptions(osenv))
		if err := pc.ParseArguments(osenv, []string{"-r", "-f", arg, "src/", "dst"}); err != nil {
			t.Errorf("-f %q rejected by the option parser: %v", arg, err)
		}
	}
	for _, rules := range [][]string{{"- /README"}, {"+ /sub/keep", "- keep"}, {"/README"}} {
		if _, err := sender.NewFilterRuleList(rules); err == nil {
			t.Errorf("rules %q accepted: an anchored pattern is never matched by the plain-name comparison", rules)
		} else if !strings.Contains(err.Error(), "anchored") {
			t.Errorf("rules %q: unexpected error %v", rules, err)
		}
	}
}

// The same end to end: the selection must not silently differ.
func TestF27AnchoredExcludeEndToEnd(t *testing.T) {
	tmp := t.TempDir()
	src := filepath.Join(tmp, "src")
	for _, n := range []string{"README", "b"} {
		write(t, filepath.Join(src, n), n)
	}
	dst := filepath.Join(tmp, "dst")
	args := []string{"gokr-rsync", "--gokr.dont_restrict", "-r", "--exclude=/README", src + "/", dst}
	_, err := rsynctest.CombinedOutput(args...)
	if err == nil {
		if l := ls(t, dst); has(l, "README") {
			t.Errorf("--exclude=/README: exit 0 and README was transferred: %v", l)
		}
	}
}
