package repro_test

import (
	"fmt"
	"io"
	"net"
	"os"
	"os/exec"
	"path/filepath"
	"strings"
	"testing"
	"time"

	"github.com/gokrazy/rsync/internal/rsynctest"
)

// F21: an uploading peer that turns on progress output (--info=progress2) must
// not crash the daemon. The daemon runs in a child process (this test binary
// re-executed), so that a crash is observed as the child's exit.
func TestF21ProgressOnDaemonReceiver(t *testing.T) {
	if dir := os.Getenv("F21_DAEMON_DIR"); dir != "" {
		srv := rsynctest.New(t, rsynctest.WritableInteropModule(dir))
		os.WriteFile(filepath.Join(dir, ".port"), []byte(srv.Port), 0644)
		time.Sleep(20 * time.Second)
		return
	}
	dir := t.TempDir()
	cmd := exec.Command(os.Args[0], "-test.run=^TestF21ProgressOnDaemonReceiver$")
	cmd.Env = append(os.Environ(), "F21_DAEMON_DIR="+dir)
	out := &strings.Builder{}
	cmd.Stdout, cmd.Stderr = out, out
	if err := cmd.Start(); err != nil {
		t.Fatal(err)
	}
	exited := make(chan error, 1)
	go func() { exited <- cmd.Wait() }()
	defer cmd.Process.Kill()
	var port string
	for i := 0; i < 100 && port == ""; i++ {
		time.Sleep(50 * time.Millisecond)
		if b, err := os.ReadFile(filepath.Join(dir, ".port")); err == nil {
			port = string(b)
		}
	}
	if port == "" {
		t.Fatalf("daemon did not start: %s", out)
	}
	conn, err := net.Dial("tcp", "localhost:"+port)
	if err != nil {
		t.Fatal(err)
	}
	fmt.Fprintf(conn, "@RSYNCD: 27\ninterop\n--server\n--info=progress2\n-logDtpr\n.\ninterop/\n\n")
	conn.Write([]byte{0, 0, 0, 0, 0}) // empty filter list is not read without --delete; one zero byte ends the file list
	conn.SetDeadline(time.Now().Add(3 * time.Second))
	io.Copy(io.Discard, conn)
	conn.Close()
	select {
	case err := <-exited:
		o := out.String()
		if i := strings.Index(o, "panic:"); i >= 0 {
			o = o[i:min(len(o), i+400)]
		}
		t.Fatalf("the daemon process died after the session (%v): %s", err, o)
	case <-time.After(1 * time.Second):
	}
	// still serving?
	conn, err = net.Dial("tcp", "localhost:"+port)
	if err != nil {
		t.Fatalf("daemon no longer accepts connections: %v", err)
	}
	conn.Close()
}
