//go:build nonamespacing

// Run with: go test -tags nonamespacing -count=1 ./repro/ -run TestF11
package repro_test

import (
	"context"
	"crypto/ed25519"
	"crypto/rand"
	"io"
	"net"
	"os"
	"path/filepath"
	"strings"
	"testing"
	"time"

	"github.com/gokrazy/rsync/internal/maincmd"
	"github.com/gokrazy/rsync/internal/rsyncdconfig"
	"github.com/gokrazy/rsync/internal/rsyncos"
	"github.com/gokrazy/rsync/rsyncd"
	"golang.org/x/crypto/ssh"
)

// F11: on an anonymous SSH listener every command line other than the rsync
// daemon-over-remote-shell one must be refused. Here an anonymous client asks
// the server to run a client-mode local copy on the server's file system.
func TestF11AnonSSHRefusesClientMode(t *testing.T) {
	tmp := t.TempDir()
	t.Setenv("GOKRAZY_RSYNC_PRIVDROP", "1") // stay in-process (no re-exec)
	t.Setenv("XDG_CONFIG_HOME", filepath.Join(tmp, "cfg"))
	t.Setenv("HOME", tmp)
	secret, out, mod := filepath.Join(tmp, "secret"), filepath.Join(tmp, "out"), filepath.Join(tmp, "mod")
	write(t, filepath.Join(secret, "file"), "not in any module")
	os.MkdirAll(mod, 0755)
	ln, err := net.Listen("tcp", "localhost:0")
	if err != nil {
		t.Fatal(err)
	}
	addr := ln.Addr().String()
	ln.Close()
	cfg := &rsyncdconfig.Config{
		Listeners: []rsyncdconfig.Listener{{AnonSSH: addr}},
		Modules:   []rsyncd.Module{{Name: "m", Path: mod, Writable: true}},
	}
	ctx, cancel := context.WithCancel(context.Background())
	defer cancel()
	osenv := &rsyncos.Env{Stdin: os.Stdin, Stdout: os.Stderr, Stderr: os.Stderr, DontRestrict: true}
	go maincmd.Main(ctx, osenv, []string{"gokr-rsync", "--daemon"}, cfg)

	_, priv, _ := ed25519.GenerateKey(rand.Reader)
	signer, _ := ssh.NewSignerFromKey(priv)
	var client *ssh.Client
	for i := 0; i < 50; i++ {
		client, err = ssh.Dial("tcp", addr, &ssh.ClientConfig{User: "anon", Auth: []ssh.AuthMethod{ssh.PublicKeys(signer)}, HostKeyCallback: ssh.InsecureIgnoreHostKey(), Timeout: 2 * time.Second})
		if err == nil {
			break
		}
		time.Sleep(100 * time.Millisecond)
	}
	if err != nil {
		t.Fatal(err)
	}
	defer client.Close()
	sess, err := client.NewSession()
	if err != nil {
		t.Fatal(err)
	}
	cmdOut, runErr := sess.CombinedOutput("rsync --gokr.dont_restrict -r " + secret + "/ " + out + "/")
	t.Logf("exec result: err=%v output=%q", runErr, cmdOut)
	if _, err := os.Stat(filepath.Join(out, "file")); err == nil {
		t.Errorf("anonymous SSH session ran a client-mode transfer on the server: %s was created", filepath.Join(out, "file"))
	}
	if runErr == nil {
		t.Errorf("command was not refused")
	}

	// The one accepted calling convention still works: daemon over remote shell.
	sess2, err := client.NewSession()
	if err != nil {
		t.Fatal(err)
	}
	stdin, _ := sess2.StdinPipe()
	go func() {
		io.WriteString(stdin, "@RSYNCD: 27\n#list\n")
	}()
	listing, err := sess2.Output("rsync --server --daemon .")
	if err != nil || !strings.Contains(string(listing), "@RSYNCD: EXIT") || !strings.Contains(string(listing), "m\t") {
		t.Errorf("daemon-over-SSH module listing failed: err=%v output=%q", err, listing)
	}
}
