package repro_test

import (
	"io"
	"io/fs"
	"os"
	"path/filepath"
	"testing"
	"testing/fstest"
	"testing/iotest"

	"github.com/gokrazy/rsync/internal/rsynctest"
	"github.com/gokrazy/rsync/rsyncd"
)

// eofFS wraps an fs.FS so that a file's Read returns its last bytes together
// with io.EOF, as the io.Reader contract allows (compress/flate, and therefore
// archive/zip file systems, do this).
type eofFS struct{ fs.FS }

type eofFile struct {
	fs.File
	r io.Reader
}

func (f *eofFile) Read(p []byte) (int, error) { return f.r.Read(p) }
func (f *eofFile) Seek(off int64, whence int) (int64, error) {
	n, err := f.File.(io.Seeker).Seek(off, whence)
	f.r = iotest.DataErrReader(f.File)
	return n, err
}

func (e eofFS) Open(name string) (fs.File, error) {
	f, err := e.FS.Open(name)
	if err != nil {
		return nil, err
	}
	if st, err := f.Stat(); err == nil && st.IsDir() {
		return f, nil
	}
	return &eofFile{File: f, r: iotest.DataErrReader(f)}, nil
}

// F24: a module served from an fs.FS whose files return (n > 0, io.EOF) from
// Read must transfer like any other: the bytes that come with the EOF count.
func TestF24ReadReturnsDataWithEOF(t *testing.T) {
	tmp := t.TempDir()
	dest := filepath.Join(tmp, "dest")
	memfs := fstest.MapFS{
		"hello.txt": &fstest.MapFile{Data: []byte("world"), Mode: 0o644, ModTime: rsynctest.GosPublicRelease},
	}
	srv := rsynctest.NewInMemory(t, rsyncd.Module{Name: "memfs", FS: eofFS{memfs}})
	srv.RunClient(t, []string{"-a"}, []string{dest + "/"})
	got, err := os.ReadFile(filepath.Join(dest, "hello.txt"))
	if err != nil || string(got) != "world" {
		t.Fatalf("hello.txt: %q, %v", got, err)
	}
	// and the delta path (basis present, forced by -I)
	os.WriteFile(filepath.Join(dest, "hello.txt"), []byte("wor"), 0644)
	srv.RunClient(t, []string{"-aI"}, []string{dest + "/"})
	got, err = os.ReadFile(filepath.Join(dest, "hello.txt"))
	if err != nil || string(got) != "world" {
		t.Fatalf("after delta: hello.txt: %q, %v", got, err)
	}
	os.Chmod(dest, 0755)
}
