package repro_test

import (
	"path/filepath"
	"testing"

	"github.com/gokrazy/rsync/internal/rsynctest"
)

// F22: -d/--dirs (transfer directories without recursing) must reach the
// server: pulling with -d gives what pushing and copying locally with -d give.
func TestF22DirsOptionReachesServer(t *testing.T) {
	tmp := t.TempDir()
	src := filepath.Join(tmp, "src")
	write(t, filepath.Join(src, "docs", "readme"), "r")
	write(t, filepath.Join(src, "docs", "sub", "deep"), "d")
	srv := rsynctest.New(t, rsynctest.InteropModule(src))

	local := filepath.Join(tmp, "local")
	rsynctest.Run(t, "gokr-rsync", "--gokr.dont_restrict", "-d", filepath.Join(src, "docs"), local)
	pulled := filepath.Join(tmp, "pulled")
	rsynctest.Run(t, "gokr-rsync", "--gokr.dont_restrict", "-d", "rsync://localhost:"+srv.Port+"/interop/docs", pulled)
	l, p := ls(t, local), ls(t, pulled)
	if len(l) == 0 {
		t.Fatalf("local copy with -d copied nothing")
	}
	if len(l) != len(p) {
		t.Errorf("-d: local copy gives %v, pull gives %v", l, p)
	}
	for i := range l {
		if i < len(p) && l[i] != p[i] {
			t.Errorf("-d: local copy gives %v, pull gives %v", l, p)
			break
		}
	}
}
