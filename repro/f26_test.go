package repro_test

import (
	"encoding/binary"
	"sync"
	"testing"
	"time"

	"github.com/gokrazy/rsync/internal/rsyncwire"
)

// slowAfterHeader records everything written to it and, the first time a
// 4-byte frame header arrives, holds that write back long enough for another
// goroutine to get its own frame in.
type slowAfterHeader struct {
	mu    sync.Mutex
	buf   []byte
	first bool
	gate  chan struct{}
}

func (s *slowAfterHeader) Write(p []byte) (int, error) {
	s.mu.Lock()
	s.buf = append(s.buf, p...)
	hold := !s.first && len(p) == 4
	if hold {
		s.first = true
	}
	s.mu.Unlock()
	if hold {
		close(s.gate)
		time.Sleep(200 * time.Millisecond)
	}
	return len(p), nil
}

// F26 (C17): a daemon session in which the client uploads has two writers of
// the one MultiplexWriter: the generator goroutine (block checksums, file
// indices) and handleConn's deferred error frame, which is sent as soon as the
// receiver goroutine fails (Do does not wait for the generator, see
// C18/WAITFOR-NONBLOCKING). WriteMsg wrote header and payload with two
// unsynchronised Write calls, so the error frame could land between another
// frame's header and its payload: the client then reads the error frame's
// header as payload and the rest of the stream is garbage ("every frame a
// server emits is well formed" for all schedules). The session-level
// reproduction (≈ 3 % of failing uploads) is seeded/C17-e/side_finding; this
// test forces the schedule.
func TestF26ConcurrentFramesDoNotInterleave(t *testing.T) {
	under := &slowAfterHeader{gate: make(chan struct{})}
	mpx := &rsyncwire.MultiplexWriter{Writer: under}
	payloadA := make([]byte, 1000)
	for i := range payloadA {
		payloadA[i] = 0xAA
	}
	var wg sync.WaitGroup
	wg.Add(2)
	go func() { // the generator
		defer wg.Done()
		mpx.WriteMsg(rsyncwire.MsgData, payloadA)
	}()
	go func() { // handleConn's deferred error frame
		defer wg.Done()
		<-under.gate
		mpx.WriteMsg(rsyncwire.MsgError, []byte("gokr-rsync [receiver]: boom\n"))
	}()
	wg.Wait()

	rest := under.buf
	frames := 0
	for len(rest) > 0 {
		if len(rest) < 4 {
			t.Fatalf("stream ends within a header")
		}
		h := binary.LittleEndian.Uint32(rest)
		tag, l := int(h>>24)-7, int(h&0xFFFFFF)
		rest = rest[4:]
		if tag != int(rsyncwire.MsgData) && tag != int(rsyncwire.MsgError) {
			t.Fatalf("frame %d: tag %d (header %08x): frames interleaved", frames, tag, h)
		}
		if l > len(rest) {
			t.Fatalf("frame %d: payload of %d bytes, only %d left: frames interleaved", frames, l, len(rest))
		}
		if tag == int(rsyncwire.MsgData) {
			for _, b := range rest[:l] {
				if b != 0xAA {
					t.Fatalf("frame %d: data payload does not carry what was written: frames interleaved", frames)
				}
			}
		}
		rest = rest[l:]
		frames++
	}
	if frames != 2 {
		t.Fatalf("got %d frames, want 2", frames)
	}
}
