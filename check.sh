#!/bin/bash
# usage: ./check.sh <property-id> quick|thorough
# Static check of /repo's current working tree; never executes /repo code.
set -u
cd "$(dirname "$0")"
export PATH=/opt/veriftools/go1.26.8/bin:$PATH
export GOTOOLCHAIN=local GOFLAGS=-mod=mod GOPROXY=off CGO_ENABLED=0
unset GOWORK GOSUMDB
ID="$1"; TIER="${2:-quick}"
REPO="${VERIF_REPO:-/repo}"
./build.sh >&2 || { echo "checker build failed"; echo "VIOLATION property=$ID replay=/verif/evidence/$ID.violation.txt"; exit 1; }
mkdir -p evidence
rm -f "sensitivity/$ID.json"
if [ "$TIER" = "thorough" ]; then
  # sensitivity of the rule set: seeded breaking changes analysed on scratch copies (informational)
  ./sensitivity.sh "$ID" || true
fi
./bin/rsyncverif -repo "$REPO" -verif "$(pwd)" -prop "$ID" -tier "$TIER"
rc=$?
if [ $rc -ne 0 ] && [ $rc -ne 1 ]; then
  echo "checker failed with status $rc"
  echo "VIOLATION property=$ID replay=/verif/evidence/$ID.violation.txt"
  exit 1
fi
exit $rc
