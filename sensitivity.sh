#!/bin/bash
# usage: ./sensitivity.sh <property-id>
# Thorough-tier helper: for every seeded change of this property (seeded/<id>-*/patch.diff)
# copy /repo's working tree to a scratch directory, apply the patch there, run the
# static rule set of the property on the copy and record whether it reports a
# violation. Writes sensitivity/<id>.json. Never affects the verdict on
# /repo itself; a patch that no longer applies is recorded as "skipped".
set -u
cd "$(dirname "$0")"
ID="$1"; REPO="${VERIF_REPO:-/repo}"
OUT="sensitivity/$ID.json"
mkdir -p evidence sensitivity
echo "[" > "$OUT.tmp"; first=1
for d in seeded/$ID-*/; do
  [ -f "$d/patch.diff" ] || continue
  name=$(basename "$d")
  S=$(mktemp -d "${TMPDIR:-/tmp}/rsyncverif-sens.XXXXXX")
  mkdir -p "$S/repo" "$S/verif/evidence"
  (cd "$REPO" && tar --exclude=.git -cf - .) | tar -xf - -C "$S/repo"
  cp known_findings.json "$S/verif/" 2>/dev/null
  status="skipped(patch does not apply)"; rules=""
  if (cd "$S/repo" && patch -p1 -s --no-backup-if-mismatch < "$OLDPWD/$d/patch.diff" >/dev/null 2>&1); then
    out=$(./bin/rsyncverif -repo "$S/repo" -verif "$S/verif" -prop "$ID" -tier quick 2>&1); rc=$?
    if [ $rc -eq 1 ]; then
      status="detected"
      rules=$(echo "$out" | grep -E '^(VIOLATED|UNDECIDED|CHECK-FAILURE)' | sed -E 's/^(VIOLATED|UNDECIDED) rule=([^ ]+).*/\2/; s/^CHECK-FAILURE.*/CHECK-FAILURE/' | sort -u | tr '\n' ' ')
    elif [ $rc -eq 0 ]; then status="MISSED"; else status="checker-error($rc)"; fi
  fi
  rm -rf "$S"
  [ $first -eq 1 ] || echo "," >> "$OUT.tmp"; first=0
  printf ' {"seed": "%s", "status": "%s", "rules": "%s"}' "$name" "$status" "${rules% }" >> "$OUT.tmp"
  echo "SENSITIVITY property=$ID seed=$name $status ${rules}"
done
echo "" >> "$OUT.tmp"; echo "]" >> "$OUT.tmp"; mv "$OUT.tmp" "$OUT"
