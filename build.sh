#!/bin/bash
# Build the checker from files on disk only (x/tools is vendored).
set -eu
cd "$(dirname "$0")/checker"
export PATH=/opt/veriftools/go1.26.8/bin:$PATH
export GOTOOLCHAIN=local GOFLAGS=-mod=vendor GOPROXY=off CGO_ENABLED=0
unset GOWORK GOSUMDB
mkdir -p ../bin
# rebuild only if sources are newer than the binary
if [ ! -x ../bin/rsyncverif ] || [ -n "$(find . -name '*.go' -newer ../bin/rsyncverif -not -path './vendor/*' -print -quit)" ] || [ go.mod -nt ../bin/rsyncverif ]; then
  ( flock 9; go build -o ../bin/rsyncverif.tmp.$$ . && mv ../bin/rsyncverif.tmp.$$ ../bin/rsyncverif ) 9>../bin/.lock
fi
