#!/bin/bash
# Development helper: run every rule set (one process, one load) on a scratch copy of /repo with a patch applied.
# usage: allprops.sh <patch-file> [full]   -> one line: "<P>[rules] <P>[rules] …" (empty = all clean); with "full" prints the report lines
P="$1"; MODE="${2:-line}"
cd /verif; [ -n "${RV_BIN:-}" ] || ./build.sh >&2 || exit 2
S=$(mktemp -d /tmp/rsyncverif-all.XXXXXX); mkdir -p $S/repo $S/v/evidence
(cd /repo && tar --exclude=.git -cf - .) | tar -xf - -C $S/repo
if ! (cd $S/repo && patch -p1 -s --no-backup-if-mismatch < "$P" >/dev/null 2>&1); then echo "patch does not apply"; rm -rf $S; exit 3; fi
cp known_findings.json $S/v/
${RV_BIN:-./bin/rsyncverif} -repo $S/repo -verif $S/v -prop all -tier quick > $S/out 2>&1
if [ $(grep -c '^property=' $S/out) -lt 20 ]; then echo "CHECKER DID NOT COMPLETE: $(grep -m1 -E 'fatal|panic|error' $S/out | cut -c1-120)"; rm -rf $S; exit 4; fi
if [ "$MODE" = full ]; then grep -E '^(==|VIOLATED|UNDECIDED|CHECK-FAILURE)' $S/out | cut -c1-${CUT:-400}; else
python3 - $S/out <<'PY'
import sys,re
cur=None; res={}
for l in open(sys.argv[1], errors='replace'):
    m=re.match(r'^== (C\d\d)',l)
    if m: cur=m.group(1); continue
    m=re.match(r'^(VIOLATED|UNDECIDED) rule=(\S+)',l)
    if m and cur: res.setdefault(cur,set()).add(m.group(2))
    if l.startswith('CHECK-FAILURE') and cur: res.setdefault(cur,set()).add('+check-failure')
print(' '.join(f"{p}[{','.join(sorted(r))}]" for p,r in sorted(res.items())))
PY
fi
rm -rf $S
