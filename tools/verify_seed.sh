#!/bin/bash
# Development helper: confirm a seeded change in a scratch worktree of /repo's HEAD.
# usage: verify_seed.sh <dir-with-patch.diff-and-demo> [name]
# Checks: patch applies; build ok; demo FAILS with patch; pinned suite still passes with patch;
# demo PASSES without patch. Prints one RESULT line. Removes the worktree afterwards.
SRC="$1"; NAME="${2:-$(basename $SRC)}"
WT=/tmp/wt/verify-$NAME
git -C /repo worktree remove --force $WT 2>/dev/null
git -C /repo worktree add -q --detach $WT HEAD || exit 2
cd $WT
cp -r "$SRC/demo" ./demo_seed
R="name=$NAME"
if go test -count=1 ./demo_seed/ >/tmp/vs.$NAME.clean.log 2>&1; then R="$R demo_clean=pass"; else R="$R demo_clean=FAIL"; fi
if git apply --3way "$SRC/patch.diff" 2>/tmp/vs.$NAME.apply.log || git apply "$SRC/patch.diff" 2>>/tmp/vs.$NAME.apply.log; then R="$R apply=ok"; else R="$R apply=FAIL"; fi
if go build ./... 2>/tmp/vs.$NAME.build.log; then R="$R build=ok"; else R="$R build=FAIL"; fi
if go test -count=1 ./demo_seed/ >/tmp/vs.$NAME.mut.log 2>&1; then R="$R demo_mut=pass"; else R="$R demo_mut=fail(expected)"; fi
rm -rf demo_seed
if /verif/tools/baseline.sh $WT >/tmp/vs.$NAME.suite.log 2>&1; then R="$R suite=81/81"; else R="$R suite=BROKEN($(tail -1 /tmp/vs.$NAME.suite.log | cut -c1-200))"; fi
cd /; git -C /repo worktree remove --force $WT
echo "RESULT $R"
