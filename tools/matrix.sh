#!/bin/bash
# Development helper: which checks fire on which seeded change. Analyses scratch
# copies of /repo (never /repo itself). Output: seeded/MATRIX.txt
cd /verif; ./build.sh || exit 2
OUT=/verif/seeded/MATRIX.txt; : > $OUT.tmp
for d in seeded/*/; do
  [ -f "$d/patch.diff" ] || continue
  echo "$(basename $d): $(tools/allprops.sh /verif/$d/patch.diff 2>/dev/null)" >> $OUT.tmp
done
mv $OUT.tmp $OUT; cat $OUT
