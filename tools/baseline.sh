#!/bin/bash
# Development helper (not a manifest check): run the pinned suite on a repo dir
# and report stable_pass tests of BASELINE.json that did not pass.
DIR="${1:-/repo}"
cd "$DIR" && go test -mod=mod -json -vet=off -count=1 -timeout 25m ./... 2>/dev/null > /tmp/baseline.$$.json
python3 - "$DIR" /tmp/baseline.$$.json <<'PY'
import json,sys
base=json.load(open('/root/.vp/BASELINE.json'))
passed=set()
for l in open(sys.argv[2]):
    try: e=json.loads(l)
    except: continue
    if e.get('Action')=='pass' and e.get('Test'):
        passed.add(e['Package']+'::'+e['Test'])
missing=[t for t in base['stable_pass'] if t not in passed]
print(f"stable_pass={len(base['stable_pass'])} passed_now={len(base['stable_pass'])-len(missing)} missing={missing}")
sys.exit(1 if missing else 0)
PY
rc=$?; rm -f /tmp/baseline.$$.json; exit $rc
