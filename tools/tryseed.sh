#!/bin/bash
# Development helper: run the rule sets of the given properties on a scratch copy of /repo with a seeded patch applied.
# usage: tryseed.sh <seed-name|patch-file> <prop> [<prop>...]
P="$1"; shift
[ -f "$P" ] || P=/verif/seeded/$P/patch.diff
cd /verif; ./build.sh || exit 2
S=$(mktemp -d /tmp/rsyncverif-try.XXXXXX); mkdir -p $S/repo
(cd /repo && tar --exclude=.git -cf - .) | tar -xf - -C $S/repo
if ! (cd $S/repo && patch -p1 -s --no-backup-if-mismatch < $P >/dev/null 2>&1); then echo "PATCH DOES NOT APPLY"; rm -rf $S; exit 3; fi
for p in "$@"; do
  ( mkdir -p $S/v-$p/evidence; cp known_findings.json $S/v-$p/; out=$(./bin/rsyncverif -repo $S/repo -verif $S/v-$p -prop $p -tier quick 2>&1); rc=$?
    echo "== $p rc=$rc"; echo "$out" | grep -E '^(VIOLATED|UNDECIDED|CHECK-FAILURE)' | cut -c1-${CUT:-420} ) > $S/res-$p &
done; wait
cat $S/res-*; rm -rf $S
