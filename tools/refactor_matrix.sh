#!/bin/bash
# Development helper: which checks fire on which seeded change. Analyses scratch
# copies of /repo (never /repo itself). Output: refactors/MATRIX.txt
cd /verif; ./build.sh || exit 2
PROPS=$(./bin/rsyncverif -prop list)
OUT=/verif/refactors/MATRIX.txt; : > $OUT.tmp
for d in refactors/${RF_GLOB:-*}.diff; do
  true
  name=$(basename $d .diff)
  S=$(mktemp -d /tmp/rsyncverif-matrix.XXXXXX); mkdir -p $S/repo
  (cd /repo && tar --exclude=.git -cf - .) | tar -xf - -C $S/repo
  if ! (cd $S/repo && patch -p1 -s --no-backup-if-mismatch < /verif/$d >/dev/null 2>&1); then echo "$name: patch does not apply" >> $OUT.tmp; rm -rf $S; continue; fi
  for p in $PROPS; do
    ( mkdir -p $S/v-$p/evidence; cp known_findings.json $S/v-$p/; out=$(./bin/rsyncverif -repo $S/repo -verif $S/v-$p -prop $p -tier quick 2>&1); rc=$?
      if [ $rc -ne 0 ]; then echo "$p[$(echo "$out" | grep -E '^(VIOLATED|UNDECIDED)' | sed -E 's/^[A-Z]+ rule=([^ ]+).*/\1/' | sort -u | tr '\n' ',' | sed 's/,$//')$(echo "$out" | grep -q '^CHECK-FAILURE' && echo ' +check-failure')]" > $S/res-$p; fi ) &
  done; wait
  echo "$name: $(cat $S/res-* 2>/dev/null | tr '\n' ' ')" >> $OUT.tmp
  rm -rf $S
done
mv $OUT.tmp $OUT; cat $OUT
