#!/bin/bash
# Development helper: which checks fire on which behaviour-preserving refactoring
# (must be none). Analyses scratch copies of /repo. Output: refactors/MATRIX.txt
cd /verif; ./build.sh || exit 2
OUT=/verif/refactors/MATRIX.txt; : > $OUT.tmp
for d in refactors/${RF_GLOB:-*}.diff; do
  name=$(basename $d .diff)
  echo "$name: $(tools/allprops.sh /verif/$d 2>/dev/null)" >> $OUT.tmp
done
mv $OUT.tmp $OUT; cat $OUT
