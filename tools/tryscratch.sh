#!/bin/bash
# Development helper: run the rule sets of the given properties (default: all) on a scratch
# copy of /repo with a patch applied. usage: tryscratch.sh <patch.diff> [ids...]
cd /verif; ./build.sh >/dev/null || exit 2
P="$1"; shift; IDS="$*"; [ -n "$IDS" ] || IDS=$(./bin/rsyncverif -prop list)
S=$(mktemp -d /tmp/rsyncverif-try.XXXXXX); mkdir -p $S/repo
(cd /repo && tar --exclude=.git -cf - .) | tar -xf - -C $S/repo
if ! (cd $S/repo && patch -p1 -s --no-backup-if-mismatch < "$P" >/dev/null 2>&1); then echo "patch does not apply"; rm -rf $S; exit 2; fi
for p in $IDS; do
  ( mkdir -p $S/v-$p/evidence; cp known_findings.json $S/v-$p/; out=$(./bin/rsyncverif -repo $S/repo -verif $S/v-$p -prop $p -tier quick 2>&1); rc=$?
    if [ $rc -ne 0 ]; then echo "== $p rc=$rc"; echo "$out" | grep -E '^(VIOLATED|UNDECIDED|CHECK-FAILURE)' | cut -c1-${CUT:-330} | head -${HEADN:-6}; fi ) &
  while [ $(jobs -r | wc -l) -ge ${PAR:-6} ]; do sleep 0.5; done
done; wait
rm -rf $S
