#!/bin/bash
# usage: mkprompt.sh <id> <suffix>  -> prints the sub-agent prompt
ID="$1"; SUF="$2"
python3 - "$ID" "$SUF" <<'PY'
import sys
i,s=sys.argv[1],sys.argv[2]
t=open('/verif/tools/agent_prompt.txt').read()
prior=open(f'/tmp/agent-{i}{s}/prior.txt').read().strip() or '(none)'
print(t.replace('@ID@',i).replace('@SUF@',s).replace('@PRIOR@',prior))
PY
