#!/bin/bash
# Development helper: prepare a scratch worktree + the property record for a seeding sub-agent.
# usage: prep_agent.sh <prop-id> <suffix>      -> /tmp/agent-<id><suffix>/{wt,property.json,prior.txt,out}
ID="$1"; SUF="$2"; D=/tmp/agent-$ID$SUF
rm -rf $D/out; mkdir -p $D/out
git -C /repo worktree remove --force $D/wt 2>/dev/null
git -C /repo worktree add -q --detach $D/wt HEAD || exit 2
python3 - "$ID" "$D" <<'PY'
import json,sys,glob,os
pid,d=sys.argv[1],sys.argv[2]
for l in open('/verif/properties.jsonl'):
    p=json.loads(l)
    if p['id']==pid:
        json.dump(p,open(d+'/property.json','w'),indent=1)
with open(d+'/prior.txt','w') as f:
    for m in sorted(glob.glob(f'/verif/seeded/{pid}-*/meta.json')):
        j=json.load(open(m))
        f.write('- '+j.get('summary','')[:400].replace('\n',' ')+'\n')
PY
echo $D
