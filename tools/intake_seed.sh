#!/bin/bash
# Development helper: take a sub-agent's deliverable into seeded/<id>-<suffix>, verify it, and
# run every property's rule set on a scratch copy with the patch applied.
# usage: intake_seed.sh <id> <suffix>
ID="$1"; SUF="$2"; SRC=/tmp/agent-$ID$SUF/out; DST=/verif/seeded/$ID-$SUF
export PATH=/opt/veriftools/go1.26.8/bin:$PATH GOTOOLCHAIN=local GOFLAGS=-mod=mod GOPROXY=off; unset GOWORK
[ -f $SRC/patch.diff ] || { echo "no patch.diff in $SRC"; exit 2; }
rm -rf $DST; mkdir -p $DST; cp -r $SRC/patch.diff $SRC/demo $SRC/meta.json $DST/ 2>/dev/null
res=$(/verif/tools/verify_seed.sh $DST $ID-$SUF 2>&1 | tail -1); echo "$res"
python3 - "$DST/meta.json" "$res" <<'PY'
import json,sys
p,res=sys.argv[1],sys.argv[2]
try: m=json.load(open(p))
except Exception as e: m={"meta_error":str(e)}
m["verified_by_me"]={"base":"/repo HEAD at verification time (pinned tree + fix commits)","how":"tools/verify_seed.sh","result":res}
json.dump(m,open(p,'w'),indent=1,ensure_ascii=False)
PY
cd /verif; ./build.sh || exit 2
S=$(mktemp -d /tmp/rsyncverif-intake.XXXXXX); mkdir -p $S/repo
(cd /repo && tar --exclude=.git -cf - .) | tar -xf - -C $S/repo
if ! (cd $S/repo && patch -p1 -s --no-backup-if-mismatch < $DST/patch.diff >/dev/null 2>&1); then echo "PATCH DOES NOT APPLY on /repo HEAD"; rm -rf $S; exit 3; fi
for p in $(./bin/rsyncverif -prop list); do
  ( mkdir -p $S/v-$p/evidence; cp known_findings.json $S/v-$p/; out=$(./bin/rsyncverif -repo $S/repo -verif $S/v-$p -prop $p -tier quick 2>&1); rc=$?
    if [ $rc -ne 0 ]; then echo "== $p rc=$rc"; echo "$out" | grep -E '^(VIOLATED|UNDECIDED|CHECK-FAILURE)' | cut -c1-400; fi > $S/res-$p ) &
  while [ $(jobs -rp | wc -l) -ge ${RV_JOBS:-6} ]; do wait -n; done
done; wait
cat $S/res-* 2>/dev/null; own=$(cat $S/res-$ID 2>/dev/null | head -1)
[ -n "$own" ] && echo "OWN-PROPERTY: detected" || echo "OWN-PROPERTY: MISSED"
rm -rf $S
