#!/bin/bash
# Development helper: take a sub-agent's deliverable into seeded/<id>-<suffix>, verify it, and
# run every property's rule set on a scratch copy with the patch applied.
# usage: intake_seed.sh <id> <suffix>
ID="$1"; SUF="$2"; SRC=/tmp/agent-$ID$SUF/out; DST=/verif/seeded/$ID-$SUF
export PATH=/opt/veriftools/go1.26.8/bin:$PATH GOTOOLCHAIN=local GOFLAGS=-mod=mod GOPROXY=off; unset GOWORK
[ -f $SRC/patch.diff ] || { echo "no patch.diff in $SRC"; exit 2; }
rm -rf $DST; mkdir -p $DST; cp -r $SRC/patch.diff $SRC/demo $SRC/meta.json $DST/ 2>/dev/null
res=$(/verif/tools/verify_seed.sh $DST $ID-$SUF 2>&1 | tail -1); echo "$res"
python3 - "$DST/meta.json" "$res" <<'PY'
import json,sys
p,res=sys.argv[1],sys.argv[2]
try: m=json.load(open(p))
except Exception as e: m={"meta_error":str(e)}
m["verified_by_me"]={"base":"/repo HEAD at verification time (pinned tree + fix commits)","how":"tools/verify_seed.sh","result":res}
json.dump(m,open(p,'w'),indent=1,ensure_ascii=False)
PY
cd /verif
out=$(CUT=360 tools/allprops.sh $DST/patch.diff full 2>/dev/null)
echo "$out" | awk '/^== /{hdr=$0; next} {if(hdr!=""){print hdr; hdr=""} print}'
own=$(echo "$out" | awk -v id="== $ID" '$0==id{f=1;next} /^== /{f=0} f' | head -1)
[ -n "$own" ] && echo "OWN-PROPERTY: detected" || echo "OWN-PROPERTY: MISSED"
