#!/bin/bash
# Development helper: apply a seeded patch to /repo, run given checks (quick), revert.
# usage: trymutant.sh <patch.diff> <prop> [<prop>...]
P="$1"; shift
cd /repo && git diff --quiet || { echo "/repo working tree not clean"; exit 2; }
git apply --3way "$P" 2>/dev/null || git apply "$P" || { echo "patch does not apply"; exit 2; }
git reset -q 2>/dev/null
cd /verif
for id in "$@"; do
  out=$(./check.sh $id quick 2>&1); rc=$?
  echo "== $id rc=$rc"; echo "$out" | grep -E "^(VIOLATED|UNDECIDED|CHECK-FAILURE|VIOLATION)" | cut -c1-330
done
cd /repo && git checkout -q -- . && git clean -fdq -e '!*' 2>/dev/null; git status --short | head -3
