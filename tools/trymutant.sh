#!/bin/bash
# Development helper: apply a seeded patch to /repo, run given checks (quick), revert.
# usage: trymutant.sh <patch.diff> <prop> [<prop>...]
P="$1"; shift
cd /repo && git diff --quiet || { echo "/repo working tree not clean"; exit 2; }
git apply --check "$P" 2>/dev/null || { echo "patch does not apply"; exit 2; }
git apply "$P" || { echo "patch does not apply"; git reset -q --hard HEAD; exit 2; }
git reset -q 2>/dev/null
cd /verif
for id in "$@"; do
  out=$(./check.sh $id quick 2>&1); rc=$?
  echo "== $id rc=$rc"; echo "$out" | grep -E "^(VIOLATED|UNDECIDED|CHECK-FAILURE|VIOLATION)" | cut -c1-330
done
cd /repo && git reset -q --hard HEAD; git status --short | head -3
