#!/bin/bash
# Development helper: both matrices, several patches at a time (default 5).
# Output: seeded/MATRIX.txt and refactors/MATRIX.txt. Never rebuild the checker
# while this runs (allprops.sh uses the binary as it is when each patch starts).
cd /verif; ./build.sh || exit 2
# freeze the binary: later edits of the checker do not leak into this run
cp bin/rsyncverif /tmp/rv-frozen.$$ && export RV_BIN=/tmp/rv-frozen.$$
J=${J:-5}
T=$(mktemp -d /tmp/pmatrix.XXXXXX)
one() { f="$1"; T="$2"; case "$f" in */patch.diff) n=$(basename $(dirname $f));; *) n=$(basename $f .diff);; esac; echo "$n: $(/verif/tools/allprops.sh $f 2>/dev/null)" > $T/$n.line; }
export -f one
ls /verif/seeded/*/patch.diff /verif/refactors/*.diff | xargs -P $J -I{} bash -c 'one {} '$T
cat $(ls $T/*.line | grep -v '/RF') > /verif/seeded/MATRIX.txt
cat $(ls $T/RF*.line) > /verif/refactors/MATRIX.txt
rm -rf $T /tmp/rv-frozen.$$
echo done
