#!/usr/bin/env python3
"""Regenerate /verif/MANIFEST.json from the table below (development helper)."""
import json, os, subprocess, sys

ROOT = os.path.dirname(os.path.dirname(os.path.abspath(__file__)))

# id -> (technique, level text, level note, design ref)
CLAIMED = {
 "C01": ("SSA dataflow over Read results (use-before-error-test), constant provenance of the requested block-checksum length, loop-exit analysis of the whole-file send loop; plus the necessary conditions shared with C02, C12, C14/FIELDS and C15/W5 re-evaluated under their own rule names; loop-exit analysis of the sender's window fill (no unread byte is handed on); must-pass-through of the atomic replace before a successful return of receiveData",
         "Partial, structural; byte equality itself is NOT decided. Decides necessary conditions of 'a transfer of a static tree succeeds and reproduces the bytes': block checksums are requested at full MD4 length (there is no redo pass for a file whose whole-file checksum fails); every direct Read in the data path uses the bytes it returned before acting on the error (io.EOF may come with data); the whole-file path writes exactly buf[:n] after its length, leaves its loop only on the Read's error and ends with the end-of-data token; and, shared: the delta clauses of C02, the update-rule tables of C12, encoder/decoder agreement of the file-list fields (C14/FIELDS) and identical numbering on both ends (C15/W5).",
         "Trusted: MD4, os.Root/renameio. Not covered: offsets/window/block arithmetic, token encoding, name mapping of source arguments, option combinations. One genuine defect repaired by a fix: commit (F24).",
         "DESIGN.md §13"),
 "C16": ("SSA guard dominance at the whole-file request sites, natural-loop membership of the candidate-rejection edges, store analysis of the scan position, allocation-site/loop analysis of the per-file lookup structures, structural shape of the block-checksum loop; back-edge analysis (header phis / variables outliving an iteration) of the lazily computed strong checksum",
         "Partial, structural; the bound on literal bytes is NOT decided. Decides necessary conditions of 'unchanged data is found again': the generator requests the whole file only when the destination is missing, not regular or cannot be opened, and otherwise sums the opened destination file; every block up to SumSizesSqroot's count gets its weak and strong sum over the bytes just read; the sender tries every candidate with the window's tag (rejections continue the candidate loop) at every byte offset (outside the match path the scan position only ever advances by one, on every iteration); the lookup structures and Transfer.lastMatch are rebuilt/reset for every file; the targets are sorted by a comparator that is an ordering of the tags; no slice of the read window is kept across ptr calls; a from-scratch recomputation of the rolling checksum precedes the roll of its iteration.",
         "Trusted: the checksum definitions (C02/ONE-DEFINITION). Not covered: rolling-checksum algebra, tag function, block-size selection, the end bound — arithmetic over runtime data.",
         "DESIGN.md §13"),
 "C18": ("store/effect scan over the session call tree (escape-edge VTA graph), allocation-site provenance of session objects, per-goroutine field access partition, SSA dominance for joins, structural shape of the cancellation select, pass-through/full-read classification of every read in package rsyncwire",
         "Partial. Decides the data-race side structurally (there are no locks, so shared state must not be written): no session-reachable store to package-level or server-wide state; session objects are allocated per session; the only package-level variables session code touches are a reviewed allow-table; the generator and receiver goroutines partition the fields they write; results are read after the join; temporary files are renameio pending files (random name, O_EXCL), never names derived from the target, so two sessions receiving the same path cannot share one. For termination only the necessary condition that waitFor returns on cancellation without waiting for the abandoned goroutine. Deadlock freedom/termination under all schedules is NOT decided (not applicable to static analysis).",
         "Trusted: errgroup/context semantics; embedding program's logger. Authorised-SSH users re-entering the CLI are a new program run, not session code.",
         "DESIGN.md §3 C18"),
 "C11": ("path enumeration with events over the generator (must-pass-through setPerms), finite-assignment CFG walks for option guards and type tables (phi-choice tracking), provenance of metadata field bindings, typestate (stat – replace – use) of the FileInfo setPerms compares with",
         "Partial, structural: every created/accepted entry goes through setPerms; each metadata syscall is controlled by its own option and privilege condition for all 64 condition assignments; wire type ↔ Go mode ↔ system-call tables agree per file type; each field travels from its accessor to its sink; the owner-write touch-up is set and consumed consistently; without -p an up-to-date file keeps its own permission bits; mtimes compare at one-second granularity; the entry encoder puts every entry's own mode, mtime, ids, rdev and link target on the wire (one record sequence per assignment, never 'same as previous'). Numeric fidelity is not decided.",
         "Trusted: kernel/os.Root metadata calls. One genuine defect repaired by a fix: commit.",
         "DESIGN.md §3 C11"),
 "C14": ("wire-sequence extraction by finite-assignment CFG walk of encoder and decoder (compared with each other, no oracle), emission-table ∘ parse-table composition over all option assignments, sibling agreement of the two TransferOpts literals, handshake sequence extraction, sibling agreement of the Transfer fields configured by daemon and client",
         "Decides: for all 7×64 (file type × option subset) assignments the decoder consumes exactly what the encoder emits; every option the server consults is forwarded and arrives with the client's value (2^n assignments through the extracted emission and parse tables); both receiver configurations bind fields to the same accessors; handshake, filter-list and id-list reads/writes are mirror images (same options, same order); a zero-terminated list never carries an empty string; option post-processing (recurse ⇒ dirs) is applied on both ends. Desynchronisation freedom for options outside the accepted set is not decided.",
         "Trusted: the extraction vocabulary (atoms) — anything outside it makes the check undecided (fails closed). Two genuine defects repaired by fix: commits.",
         "DESIGN.md §3 C14"),
 "C15": ("wire-sequence extraction (7×64 encoder, 7×64×128 decoder assignments) compared with a frozen protocol-27 table; constant table; sibling agreement (longint, checksum header); sort/numbering dominance; frozen vocabulary of the entry decoder's own rejections (range tests only)",
         "Partial: the oracle is a transcription of protocol 27 (rsync 2.6.x flist.c/io.c/rsync.h), not a foreign implementation. Decides that encoder and decoder field sequences, flag-controlled alternatives, same-as-previous copies, constants, longint encoding, checksum header order and file numbering conform to that table.",
         "Trusted: the transcription itself (listed in evidence trusted_base). No independent protocol-27 implementation can be run statically.",
         "DESIGN.md §3 C15"),
 "C20": ("field-store enumeration of the SSH server config, decision-table extraction of the public-key callback, string-dispatch surface extraction, call-graph unreachability from the anonymous exec callback, effect scan of the anonymous exec path in front of the module code",
         "Decides: only public-key auth is ever configured; the key callback accepts iff the listener is anonymous or the presented key is in the loaded set (which is non-nil whenever an authorised address is configured); only session channels and env/exec requests are handled; from the anonymous listener's exec callback no CLI/client entry, process spawn, dial or listener is reachable while the daemon handler is, and the module table it serves is the configured one.",
         "Trusted: x/crypto/ssh. Context-insensitive reachability (a mode check inside the general entry point would still be reported). One genuine defect repaired by a fix: commit.",
         "DESIGN.md §3 C20"),
 "C08": ("call-graph reachability of process terminators from session entry points + intraprocedural/interprocedural integer taint with dominating-comparison bounds (SSA) + provenance/bound analysis of every index into the peer-sized block-checksum list",
         "Partial, structural: no os.Exit/log.Fatal/explicit panic is reachable from daemon, client or SSH session entry points; every integer read from the wire that reaches an index, slice bound or make length is bounded by dominating comparisons; SumHead fields are range-checked by their reader; integer divisions have non-zero divisors; window slices are tested for emptiness before indexing; fixed-width decodes and constant indices on byte slices, and constant indices on strings in the wire-facing packages, have an established minimum length; every output stream session code writes to is set in the session environment; connection errors cannot reach the accept loop. Other nil dereferences, arithmetic-dependent panics and library panics are NOT decided.",
         "Trusted: VTA call-graph soundness assumptions; Go runtime semantics of bounds checks. Three genuine defects repaired by fix: commits. The demultiplexer's buffer-size panic is discharged through C17/BUFFER+LENGTH-GATE.",
         "DESIGN.md §3 C08"),
 "C17": ("value-flow (use-set) of the demultiplexer and its buffer, SSA guard dominance of length checks, who-may-call for session reads, decision table of the frame reader, constant relations, lock-discipline must-analysis (Lock/Unlock over the CFG with callee summaries) for frame atomicity, construction-site lateness of the MultiplexWriter w.r.t. goroutine spawns",
         "Decides the structural reduction of framing transparency: the demultiplexer only sits behind a buffer ≥ the largest frame and is only Read; frame lengths are masked and gated before allocation; error/info/data/unknown tags are dispatched as stated; all session reads are full reads; emitted headers encode a bounded length equal to the bytes written; multiplexing is switched on exactly once on each side; no session reader is widened beyond Read.",
         "Trusted: bufio.Reader.Read behaviour. End-to-end equality across re-framings is not decided.",
         "DESIGN.md §3 C17"),
 "C13": ("SSA guard dominance (SkipDir only for directories), def/use agreement between rule parsing and rule matching (every settable flag is read or rejected), decision-table extraction of first-match, provenance of the rule list handed to the sender, writer/reader agreement on the rule grammar (path enumeration between option argument and rule list), leading-slash decision",
         "Partial, structural: excluded files never cut the walk; every flag the parser can set is honoured by the matcher or rejected with an error; no explicit panic under the matcher; first matching rule decides by its include flag; a plain-name rule is decided by string equality and loses exactly the prefix that was tested; both sender entry points receive the user's rules; the receiving client sends its rules before the list terminator and never sends an empty rule (whose length is the terminator); the filter decision dominates every persistent store and wire write of the walk callback (an excluded entry leaves no trace in what follows). String semantics of matching are not decided.",
         "Trusted: fs.WalkDir SkipDir semantics. Five genuine defects found by these rules were repaired by fix: commits (known_findings.json).",
         "DESIGN.md §3 C13"),
 "C02": ("SSA guard dominance with value identity (same block index i across weak, length and strong comparisons) + who-may-call for checksum definitions + field-store provenance of the seed + affine-form evaluation (no solver) of the token codec and of matched's range bookkeeping + guarded-leaf tables for block lengths + affine evaluation of the early-flush guard against the flush position",
         "Partial, structural: a block reference is emitted only after weak, length and strong (seeded MD4, sliced by the negotiated length) comparisons for that same block; one shared checksum definition used by both ends with the session seed; the whole-file trailer is always sent; a reallocated read window keeps its contents; a read window never extends past the mapped file size; the block-reference codec of the two ends composes to the identity; both ends give block i the same length (remainder only for the last block); sender.matched partitions the file (literal run, bytes hashed and lastMatch advance agree as affine forms); the receiver's output is exactly the stream (every write through the one MultiWriter, no Seek/Truncate); no slice of the sender's read window is kept across ptr calls. The search loop's own offset arithmetic, the rolling checksum and the receiver's literal handling are NOT decided.",
         "Trusted: MD4. Not covered: window arithmetic in mapStruct/matched/receiveData beyond the clamp to the file size. One genuine defect repaired by a fix: commit.",
         "DESIGN.md §3 C02"),
 "C06": ("API confinement over the reachable call graph + SSA provenance of the os.OpenRoot argument (phi-edge guards) + interface-implementation enumeration",
         "Decides the capability argument: the sender reads only through FileSource, whose only implementations are an os.Root wrapper and the module's fs.FS; the single os.OpenRoot takes the configured module path (request text only for the implicit \"/\" module); the module handed to the session is an element of the configured table; no process-wide buffer pools or caches are reachable from the sender.",
         "Trusted: os.Root refuses escaping symlinks/.. ; fs.FS implementations supplied by embedders.",
         "DESIGN.md §3 C06"),
 "C12": ("decision-table extraction by path enumeration over the SSA CFG with provenance-identified atoms, compared with a specification procedure",
         "Decides that skipFile implements exactly size → (-c: content checksum) → (-I: always) → mtime at one-second granularity, and that recvGenerator requests a regular entry iff missing / not regular / skipFile false, for every path (unknown conditions explored both ways); the mtime is applied under -t; the entry encoder carries every entry's own length, mtime and (under -c) checksum; no process-wide state (caches) under the file-list construction and the generator. Behaviour of time.Time and of repeat syncs end-to-end is not decided.",
         "Trusted: time.Truncate/Equal, bytes.Equal. Fail-closed: an unrecognised condition in skipFile makes the check fail as undecided.",
         "DESIGN.md §3 C12"),
 "C19": ("decision-table extraction by path enumeration over the SSA CFG (atoms by operand provenance) + guard dominance of the OK reply + value provenance of the host handed to the IP parser (zone removed)",
         "Decides that checkACL's complete path table equals first-match allow/deny with default allow and error on a malformed rule reached, using net.IPNet.Contains on the parsed peer address; that the OK reply and the session start are dominated by a successful module lookup and ACL check with the accepted connection's address; and that no other caller reaches handleConn.",
         "Trusted: package net semantics (IPv4-mapped normalisation in IPNet.Contains). Fail-closed on unrecognised conditions.",
         "DESIGN.md §3 C19"),
 "C03": ("SSA must-pass-through (guard dominance) + value provenance of the compared buffers + use-set (typestate) of the pending file + loop-exit analysis of the sender's window fill",
         "Decides: every CloseAtomicallyReplace is dominated by bytes.Equal(full h.Sum(nil), full trailer read from the wire)==true; the pending file is only ever written through io.MultiWriter(out,h) with the same seeded hash; hash seeding identical on both ends; no replace-on-close API anywhere; the error of receiveData is propagated at every call site up to the session result. Does not decide that MD4 detects every corruption.",
         "Trusted: MD4 (probabilistic), renameio semantics. The idiom set for error propagation is the repository's (`if err != nil {return}` / `return f()`).",
         "DESIGN.md §3 C03"),
 "C04": ("API confinement over the reachable call graph + SSA dominance/typestate (defer-cleanup dominates returns, no write after replace, join before effects)",
         "Decides that nothing reachable from the receiver writes content or links under a final name except via renameio.NewPendingFile(WithRoot only)/SymlinkRoot; that a deferred Cleanup covers every return after creation; no write after the atomic replace; no unlink before a replacement except where rename(2) cannot replace (directory ↔ non-directory); the delete pass removes only entries a negative list lookup covers; the pending file's root is a handle of its own, closed after Cleanup (so the temporary file can still be removed after Do returned and its callers closed DestRoot); first error aborts before post-transfer effects. Crash atomicity itself is rename(2) inside renameio (trusted).",
         "Trusted: rename(2)/renameio atomicity. Two genuine defects repaired by fix: commits (F20, F25).",
         "DESIGN.md §3 C04"),
 "C07": ("guard dominance lifted over the rsyncd package call graph + reachability (send path effect-free) + field-store provenance",
         "Decides: every write effect / entry into the receiving engine in package rsyncd is dominated by Module.Writable==true on every chain; nothing reachable from the send path mutates the file system; Writable and the module table are immutable after construction; FS-backed modules cannot be writable.",
         "Trusted: mutator classification table; configuration decoding happens before sessions. Library entry points with caller-chosen module are assumptions.",
         "DESIGN.md §3 C07"),
 "C05": ("API-confinement (who-may-call) + SSA value provenance over the escape-edge VTA call graph",
         "Decides a structural necessary condition, not the behaviour: no function reachable from the receiver calls an ambient-authority file API; every *os.Root operation uses Transfer.DestRoot (provenance through parameters/phis); DestRoot only ever holds an os.OpenRoot result; special files are created fd-relative with a base name; the delete walk is over DestRoot.FS(); every name handed to os.Root is lexically clean by provenance (os.Root up to Go 1.25 follows `name/` through an escaping symlink). Confinement itself is os.Root's guarantee.",
         "Trusted: os.Root/kernel path confinement, renameio.WithRoot. Linux configurations only. Call graph soundness: no reflection/unsafe in module code; foreign code calls only what it is handed.",
         "DESIGN.md §3 C05"),
 "C09": ("SSA guard dominance (local + lifted through call chains) and sibling-agreement of sort/lookup comparators",
         "Decides structural necessary conditions of --delete correctness: SkipDir only for directories; RemoveAll only of the walked path after a negative list lookup, and only with IOErrors==0 and DeleteMode on every chain; lookup comparator matches the sort comparator; the delete walk skips only directories that are not in the list (it descends into every listed one); the sender's I/O error flag is sticky over all source arguments; filter consultation before removal (known finding F14). Does not decide set equality for all trees.",
         "Trusted: fs.WalkDir semantics, sort.Search. Known finding listed in known_findings.json (exclude rules do not protect from --delete).",
         "DESIGN.md §3 C09"),
 "C10": ("effect analysis with guard dominance lifted over the package call graph (closures at creation and call sites); sinks include calls through (phis of) bound method values",
         "Decides that every destination-mutating call in the receiver is dominated by DryRun==false on every call chain from every package entry, that block checksums are not generated in a dry run, that the sender's data path is dominated by !DryRun() and the dry-run branch only echoes the index, and that -n is forwarded. A missing guard anywhere is reported with the chain.",
         "Trusted: the classification table of mutating APIs (effects.go); creation of the destination root itself is out of scope per the statement.",
         "DESIGN.md §3 C10"),
}

PENDING = "rule set designed (DESIGN.md §3) but its checker is not built yet in this snapshot; not claimed until it runs"
NA = {
}

def main():
    props = [json.loads(l) for l in open(os.path.join(ROOT, "properties.jsonl"))]
    checks, na = [], []
    for p in props:
        pid = p["id"]
        if pid in CLAIMED:
            tech, text, note, ref = CLAIMED[pid]
            checks.append({
                "property_id": pid,
                "quick_cmd": f"./check.sh {pid} quick",
                "thorough_cmd": f"./check.sh {pid} thorough",
                "evidence_file": f"/verif/evidence/{pid}.json",
                "replay_cmd_template": "cat {path}",
                "engine": "rsyncverif",
                "level_claimed": {"category": "other", "text": text, "design_ref": ref},
                "level_note": note,
                "technique": "static analysis: " + tech,
            })
        else:
            na.append({"property_id": pid, "reason": NA.get(pid, PENDING)})
    m = {
        "version": 1,
        "setup_cmd": "./build.sh",
        "hooks": {
            "guard": "verif",
            "enable": "none needed: the checks analyse source statically and add no hooks to /repo",
            "baseline_off_cmd": "cd /repo && go test -mod=mod -json -vet=off -count=1 -timeout 25m ./...",
            "source_commits": [],
            "add_only": True,
        },
        "engines": [{
            "name": "rsyncverif",
            "path": "/verif/checker",
            "serves_properties": sorted(CLAIMED),
            "kind_free_text": "repository-specific static analyser (go/packages + go/ssa + VTA call graph with escape edges); one binary, one rule set per property; never executes /repo code",
        }],
        "checks": checks,
        "not_applicable": na,
        "notes": "Rule sets for all 20 properties (C01 and C16 as partial structural claims, see DESIGN.md §13). All checks are static (technique family fixed by the task). quick = linux/amd64; thorough = linux/amd64+386+arm64 plus checker self-tests. Genuine defects found are repaired by fix: commits in /repo or listed in known_findings.json; see DESIGN.md §4.",
    }
    json.dump(m, open(os.path.join(ROOT, "MANIFEST.json"), "w"), indent=1)
    # validate
    try:
        import jsonschema
        jsonschema.validate(m, json.load(open("/root/.vp/MANIFEST.schema.json")))
        print("MANIFEST.json valid;", len(checks), "checks,", len(na), "not_applicable")
    except ImportError:
        print("jsonschema not available; wrote MANIFEST.json unvalidated")

if __name__ == "__main__":
    main()
