#!/usr/bin/env python3
import json,sys,glob,jsonschema
sch=json.load(open('/root/.vp/EVIDENCE.schema.json'))
bad=0
for f in sorted(glob.glob('/verif/evidence/C*.json')):
    try:
        jsonschema.validate(json.load(open(f)),sch); print('ok ',f)
    except Exception as e:
        bad+=1; print('BAD',f,str(e)[:200])
sys.exit(bad)
